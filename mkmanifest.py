#!/usr/bin/env python3
"""Regenerates MANIFEST.json from the table below (python3 mkmanifest.py)."""
import json, os, subprocess
ROOT = os.path.dirname(os.path.abspath(__file__))

MC = "model_checking"
CHECKS = {
 "C14": dict(level=MC, ref="DESIGN.md 5/C14",
   text="TLC explores the six documented rules as a rewriting machine from every string up to the bound (confluence, termination, normal form = PathLex.Clean = Go's path.Clean, idempotence, absoluteness, never empty); every output of the real clean() on every string over {/ . a b} up to length 8 (quick) / 11 (thorough) plus random wide strings is judged by TLC against the same Clean operator.",
   note="Trusted: TLC, the Json module, the harness' rendering of a PathBuf as a character sequence. Bounded: string length and alphabet.",
   technique="TLA+ rewriting-machine spec model-checked with TLC + TLC validation of implementation records (exhaustive strings)"),
 "C15": dict(level=MC, ref="DESIGN.md 5/C15",
   text="Every helper law of the statement is a TLA+ operator in PathLex (Mash, TrimPrefix/Suffix, ExtOf, CompsR, Contains, TrimProtocol, ParsePaths ...); the real helpers are run on every string / pair up to the bound over an alphabet with separators, dots, ':' and 2-/3-/4-byte characters and TLC judges every record (trace validation of independent records).",
   note="Trusted: TLC, Json module, harness rendering. Laws judged by exact operator where the documentation fixes the result, by component list where only the components are fixed (dir, trim_first, trim_last).",
   technique="TLA+ operator algebra (PathLex) + TLC validation of implementation records (exhaustive short strings, random long)"),
}
CHECKS.update({
 "C05": dict(level=MC, ref="DESIGN.md 5/C05",
   text="PathLex!Abs (empty check, Expand, TrimProtocol, Clean, leading-'..' walk against the cwd) is model-checked for shape, idempotence, the lexical-join law and 'fails only for the three documented reasons' on every string up to the bound x cwds x HOME values; the real Memfs::abs, Stdfs::abs and the trait abs are run on every string up to length 4 (quick) / 6 (thorough) over {/ . ~ $ { } : a e-acute} x 4 cwds x 4 environments (own process each) and every record is judged by TLC against the same operator.",
   note="Trusted: TLC, Json module, harness rendering; Stdfs cwd is the process cwd inside a tmpfs sandbox. 'Every other method resolves through abs' is decided by the respelled-argument runs of the Vfs trace checks (C01/C13).",
   technique="TLA+ operator spec model-checked with TLC + TLC validation of implementation records per environment/cwd"),
 "C16": dict(level=MC, ref="DESIGN.md 5/C16",
   text="MC_Relative checks on the specification, for all 14 641 ordered pairs of clean absolute paths <= 4 components over 3 names, the shape, round-trip and '..'-count laws of Relative; the real relative() is run on the same pairs (plus random deeper and relative operands) and TLC judges each output against Relative.",
   note="Trusted: TLC, Json module, harness rendering.", technique="TLA+ law check with TLC + TLC validation of implementation records (exhaustive pairs)"),
 "C17": dict(level=MC, ref="DESIGN.md 5/C17",
   text="The variable scanner is a TLA+ state machine (lit/dollar/name) model-checked from every component string in every environment against the recursive ExpandSeg operator and the C17 laws (plain text unchanged, never guesses, termination); the real expand()/abs() run in 64 separately spawned environments on every template up to 4 (quick) / 5 (thorough) segments and TLC judges each record with the process' environment.",
   note="Trusted: TLC, Json module, harness rendering. Not judged (documentation silent, DECISION): a variable whose value starts with '/' or is empty at the start of a relative path (textual vs component-join semantics).",
   technique="TLA+ scanner state machine model-checked with TLC + TLC validation of implementation records per spawned environment"),
})
CHECKS.update({
 "C07": dict(level=MC, ref="DESIGN.md 5/C07",
   text="Handle.tla is a state machine of a read/seek handle (std::io::Cursor semantics) and of write/append handles with flush/drop; MC_Handle explores every operation sequence of the bound, including a drop after every prefix (crash points), against ReadNeverBeyond, SeekErrorKeepsPos, FlushMakesVisible, DropPersistsExactlyWritten, LikeCursor. The same sequences are executed on real Memfs and Stdfs handles (every call under catch_unwind) and TLC replays each logged sequence through the Handle operators step by step. Handles are opened under four spellings of the path (canonical, './' detour, 'zz/..' detour, relative to the cwd).",
   note="Trusted: TLC, Json module, harness logging, tmpfs for the Stdfs sandbox. Offsets beyond +-10^6 are not exercised (TLC ints are 32 bit). Two handles open on one file are observed but only a panic is judged (outside the single-handle statement).",
   technique="TLA+ handle state machine model-checked with TLC + TLC trace validation of real handle operation sequences (crash points = drop after every prefix)"),
 "C18": dict(level=MC, ref="DESIGN.md 5/C18",
   text="XdgEnv.tla gives every lookup as an operator over an environment (set of admissible outcomes where the documents are silent); MC_Xdg enumerates the environment cross-product as initial states, walks the config_dir search as a machine and checks precedence, order, no-empty-segment and getrids laws. The real functions run in hundreds of separately spawned, explicitly constructed environments (nothing inherited; verified inside the record) on Memfs and on a Stdfs sandbox, and TLC judges every record. Extension: Creds.tla is the privilege state machine of sys::user (six process credentials; sudo_down / sudo_up / drop_sudo / set*id / switchuser as kernel-rule compositions), model-checked (no escalation, drop_sudo final, round trip; a negative-control cfg must fail) and validated against real programs, one forked child each, with kernel-reported credentials after every call.",
   note="Trusted: TLC, Json module, harness, tmpfs sandbox. DECISIONS (both readings admitted): XDG_*_HOME set to the empty string, relative values, HOME empty, PATH unset.",
   technique="TLA+ operator spec + search machine model-checked with TLC; TLC validation of records from one process per environment"),
 "C19": dict(level=MC, ref="DESIGN.md 5/C19",
   text="CoreExt.tla defines slice/drop/first/single/... as sequence operators, take_while_p as a stepping machine and defer as a scope-stack machine over program shapes; MC_CoreExt / MC_Defer check their laws for all lengths 0..8 x indices -10..10, all strings of the bound and all control-flow shapes (depth <= 3; fall-through / return / panic). The real functions are run on the same domains (defer with real nested scopes, early return and unwinding) and TLC judges every record.",
   note="Trusted: TLC, Json module, harness. slice with l < -len is outside the stated domain and skipped.",
   technique="TLA+ operators and defer/take_while_p state machines model-checked with TLC + TLC validation of implementation records (exhaustive index/shape domains)"),
})
VFS_NOTE = "Trusted: TLC, Json module, the projection (Debug parser in harness/src/memproj.rs; std::fs observer in harness/src/bin/grid.rs), the harness' syntactic canonical-argument shortcut. Bounded: names {a,b} x depth 2 for fix-points, names {a,b,c} x depth 3 for random histories. DECISIONS D1-D11 (spec/Vfs.tla, spec/VfsJudge.tla): outcomes the documentation leaves open are accepted either way."
CHECKS.update({
 "C01": dict(level=MC, ref="DESIGN.md 5/C01",
   text="Vfs.tla is the reference tree filesystem (one operator per trait method, written from the rustdoc); MC_Vfs explores it to a reachability fix-point over the bounded namespace with FailedCallAtomic, WriteLaw, AppendLaw, MoveIsRelocation, CopyLaw, SymlinkLaw, RemoveLaw as action properties. The REAL Memfs is explored to its own fix-point over the same alphabet (BFS by projection), every transition {pre, call, result, post} is judged by TLC against the same operators (result incl. documented error kind, full post-state), the reachable-set counts are compared (361 / 6859 on both sides), and long seeded histories with respelled arguments are validated step by step.",
   note=VFS_NOTE, technique="TLA+ reference state machine model-checked with TLC + TLC validation of every transition of a BFS over the real implementation + trace validation of random histories"),
 "C02": dict(level=MC, ref="DESIGN.md 5/C02",
   text="Every tree of the bounded namespace in C02's domain (361 link-free + 1630 one-link trees) is materialised with std::fs in a tmpfs sandbox and built on a fresh Memfs; every call of the alphabet (~300 per tree) runs on both backends; TLC compares outcome, value and observed post-tree of the two sides (Trace_Pair) and judges each side against the Vfs reference operators to name the deviating side. The alphabet also contains relative / unclean / respelled arguments and symlink targets not in their shortest spelling.",
   note=VFS_NOTE + " tmpfs, umask 022, euid 0 (thorough: also uid 65534). Owners are not compared. One recorded finding (KF-A27-dir).",
   technique="differential TLC validation of paired implementation records against each other and against the TLA+ reference (exhaustive trees x calls)"),
 "C03": dict(level=MC, ref="DESIGN.md 5/C03",
   text="MemfsRep!RepViolation states C03 clause by clause over Memfs' three indexes (entries, files, child sets) plus cwd/root/poison; TLC evaluates it on the Debug-projected representation after EVERY step - successful or failed - of the BFS of the real Memfs and of seeded histories in which half of the arguments are out of domain (through links, below files, root, '..' chains, odd strings); MC_Vfs shows TreeOK is an invariant of the reference; AbsOf is the refinement mapping used for the step check. Also: arguments that are not valid UTF-8 (raw 0xFF byte) in the adversarial histories, and every interleaving of a several-guard call (recursive chmod / chown, copy with options) with every single-step mutator on a second thread, the quiescent representation judged with the same operator.",
   note=VFS_NOTE + " Quiescent states after concurrent schedules are judged with the same operator by C04.",
   technique="TLA+ representation invariant + refinement mapping evaluated by TLC on every logged implementation state (BFS + adversarial histories)"),
 "C06": dict(level=MC, ref="DESIGN.md 5/C06",
   text="MC_Data checks the line-helper round trip, one-newline-per-line, append-keeps-prefix and UTF-8 concatenation on every line list of the bound; MC_Vfs checks WriteLaw/AppendLaw (only that file changes) on every reachable state; seeded histories interleaving write/append/line helpers/copy/move over four files with empty, multi-byte, invalid UTF-8, newline-laden and multi-kilobyte data read two files back after every step and TLC compares with the byte-vector model. Histories also open, read and drop READ handles between the other calls (never a change) and use line lists with empty elements.",
   note=VFS_NOTE + " Handle-based writes are decided by C07; the Stdfs side by C02.",
   technique="TLA+ byte-vector model (Vfs.tla content operators, Lines, Utf8Valid) model-checked with TLC + trace validation of data histories"),
 "C09": dict(level=MC, ref="DESIGN.md 5/C09",
   text="MC_Vfs checks CopyLaw (source untouched, every source entry recreated with same kind/content/target/mode-when-new, nothing outside the destination changes), MoveIsRelocation and FailedCallAtomic on every reachable tree x every ordered pair; the real Memfs is driven over every reachable tree x all 49 ordered pairs x copy / move_p / copy_b(chmod_all|dirs|files) and TLC judges the before/after snapshots.",
   note=VFS_NOTE + " copy with follow(true) is not judged (placement of followed entries, DESIGN A24, is recorded as open); Stdfs copy/move are compared in C02.",
   technique="TLA+ action properties model-checked with TLC + TLC validation of before/after snapshots of the real copy/move over exhaustive (tree, src, dst, option) tuples"),
 "C10": dict(level=MC, ref="DESIGN.md 5/C10",
   text="MC_Vfs checks SymlinkLaw / RemoveLaw on every reachable state; the real Memfs runs the (link position, target position) grid over names {a,b} depth <= 3 x target kind {file, dir, missing} x {absolute, relative} spelling, each followed by readlink, readlink_abs, is_*, entry accessors incl. follow(true) twice, chmod/chown without follow, readlink on a non-link and remove of the link; TLC judges every step (RelC navigation law, link exclusion, target untouched). Also on both backends: trees with a link whose target does not exist (queries, remove, remove_all, move_p, symlink over it), and following a CLONE of an already followed entry.",
   note=VFS_NOTE + " Stdfs side: C02 (same queries in its alphabet).",
   technique="TLA+ reference operators + TLC trace validation of the exhaustive link/target grid on the real implementation"),
 "C13": dict(level=MC, ref="DESIGN.md 5/C13",
   text="The specification has no notion of route: the same seeded histories (random with respelled arguments, link grid, data) are executed on Memfs directly and through Vfs::Memfs; both transcripts are validated by Trace_Vfs and compared event for event; every entry() result carries the VfsEntry accessors next to the wrapped entry's own accessors (wrap flag judged by TLC); a table check makes sure every trait method is exercised through both routes by some check. Also: write/flush/drop and read/seek sequences on each backend directly and through Vfs::stdfs()/Vfs::memfs() with an observer reading after every write (identical transcripts required by Trace_Handle!JudgeWR), and config_dir direct vs enum in the environments where the user's directory cannot be determined.",
   note=VFS_NOTE + " Vfs::Stdfs routing rides on C02 (the grid calls Stdfs through the trait).",
   technique="TLC trace validation of paired transcripts (direct vs enum route) + event-wise transcript equality"),
})
CHECKS.update({
 "C04": dict(level=MC, ref="DESIGN.md 5/C04",
   text="MemfsConc.tla models threads x calls x critical sections over the Vfs operators with explicit invoke/return; TLC explores every interleaving of every 2-thread program of the bound and checks Linearizable (program order + real-time precedence), AppendsExactlyOnce, QuiescentWellFormed and termination; LockProto checks mutual exclusion, no nested acquisition, no deadlock and eventual grant under writer preference. Two negative controls (the split write_all/append_all decomposition; nested acquisition) must be rejected by TLC on every run. The real code runs under a controlled scheduler built on the guard hooks: every interleaving of the invoke and guard gates of all 576 two-thread one-call programs and of sampled 2x2/3x1(/2x3) programs on real threads, plus free-running stress ordered by stamps taken under the lock; TLC judges every schedule (exactly one guard per single-step call, sequential outcome in critical-section order, well-formed quiescent state, no nested acquisition / deadlock / poison). Extra (nothing depends on it): Apalache discharges TypeOK /\\ MutualExclusion /\\ NoNestedAcquire /\\ NoDeadlock as an inductive invariant of the typed transcription LockProtoInd (behaviours of any length, 4 threads); the variant with nested read acquisition must be rejected.",
   note=VFS_NOTE + " Interleavings are enumerated at critical-section granularity - complete for the shared state because MemfsInner is reachable only through a guard; memory ordering inside std is out of scope. Hooks: --cfg rivia_verif (add-only).",
   technique="TLA+ concurrent state machine (threads x critical sections) model-checked with TLC incl. linearizability + TLC validation of exhaustively enumerated real schedules (controlled scheduler via hooks)"),
 "C12": dict(level="exploration", ref="DESIGN.md 5/C12",
   text="Totality.tla is the usable/wedged acceptance automaton (no action for panic, timeout, failed probe or poisoned lock; every error must be followed by a successful probe), model-checked by MC_Totality; the driver feeds every public Memfs method (all 52 trait methods, handles, entries options, builders), every path helper and the string/iterator extensions with every string up to length 3 (quick) / 4-5 (thorough) over an adversarial alphabet with 2-/3-/4-byte characters plus hand-picked nasties, each call under catch_unwind in supervised workers (progress file, stall = hang, RLIMIT_AS); TLC validates the event stream against the automaton. Exploration, not proof: detection of a panic is catch_unwind, of a hang the supervisor. Harness builds carry overflow-checks, so an arithmetic overflow is a panic as in the crate's own test profile. Beyond the property (reported as BEYOND-PROPERTY, never as a violation): Errors.tla, the error algebra of src/errors (MC_Errors + negative control; every variant and constructor built for real, judged by Trace_Errors).",
   note="Trusted: catch_unwind, the supervisor's stall detection (10 s), TLC for the automaton. Bounded input length; 4 KiB names only by hand-picked samples.",
   technique="TLA+ acceptance automaton model-checked with TLC + TLC validation of supervised exploration traces (exhaustive short adversarial inputs)"),
})
CHECKS.update({
 "C08": dict(level=MC, ref="DESIGN.md 5/C08",
   text="Traversal.tla is the documented traversal as a nondeterministic DFS state machine (Enter, Yield, SkipDepth, SkipFilter, Defer, EmitDeferred, Leave, LoopError; sibling order free unless a sort is set) plus the declarative ValidOrder / Expected characterisation; MC_Traversal explores the machine over all 4306 trees of names {a,b} x depth 2 with <= 2 links (incl. cycles, dangling) x roots x a rotating part of the 960 option combinations and checks termination, bag = Selected, parent/content order, sibling order, LinkLooping exactly on followed cycles, machine => ValidOrder and tightness of the predicate. The real iterator runs on Memfs AND on std::fs-materialised trees with descriptor caps {1,2,50} (hook) for every tree x root x option sample plus random larger trees; TLC accepts each yielded sequence iff ValidOrder holds, requires sorted runs to be identical across caps and backends, and checks the listing helpers against their definition and exists/is_dir/is_file.",
   note="Trusted: TLC, Json module, harness (name ranks and 'sorted' flags are computed there: TLC cannot order strings), tmpfs. Unsettled (reported, not judged): follow through a chain of links on Stdfs.",
   technique="TLA+ traversal state machine model-checked with TLC + TLC validation of real iterator output against the machine's declarative characterisation"),
 "C20": dict(level=MC, ref="DESIGN.md 5/C20",
   text="VfsAssert.tla gives every checking macro its predicate and every acting macro its operation (the Vfs reference operator) and post-condition; MC_VfsAssert runs the acting macros as the transition relation over the reference filesystem and checks soundness/completeness laws in every reachable state for all macros and arguments (exactly one of x!/no_x! panics, no vacuous pass, panic iff post-condition fails). The real macros are invoked under catch_unwind on every BFS-reached state of the real Memfs x every path/pair/data and on std::fs-materialised trees; TLC judges panicked <=> ~predicate, operation performed, message names macro and path.",
   note="Trusted: TLC, Json module, harness (message flags computed there), catch_unwind. 9 marked DECISIONS where the macro rustdoc is silent. One open finding (KF-C20-MSG-mkdir).",
   technique="TLA+ oracle spec model-checked with TLC + TLC validation of macro outcomes on exhaustively reached real states"),
})
CHECKS.update({
 "C11": dict(level=MC, ref="DESIGN.md 5/C11",
   text="ChmodSym.tla is the comma-repeatable grammar [dfa]:[ugoa][-+=][rwx]; MC_ChmodSym runs it as a one-character-per-step scanner machine over every well-formed single and double clause and every short string of the alphabet x {file, dir, link} x start modes (final mode = SymMode, type bits kept, links unchanged, =/+/- algebra, malformed first clause => error and unchanged); MC_VfsPerm applies Vfs!Op_chmod_b / Op_chown_b to every tree of the namespace x every builder option combination (only targets change, exact value, octal beats symbolic, links never altered, is_exec/is_readonly agree with mode, error => unchanged). The real chmod_b/chown_b/chmod/chown/mkfile_m/mkdir_m run on one-entry trees x 512 permissions x clauses and on trees with links x the option cross product; TLC judges every step with the reference operators (Trace_VfsPerm over VfsJudge). Also on BOTH backends: every tree of the C02 grid under three permission layouts x observers on every path (links included) x chmod builder variants (Trace_Pair, each side against the reference); builder programs executed after the cwd moved away; uid-only / gid-only chown and dirs-only / files-only chmod on two threads under every interleaving.",
   note=VFS_NOTE + " Unsettled: follow through a link that points to another link. Stdfs chmod/chown are compared in C02.",
   technique="TLA+ grammar scanner machine + reference operators model-checked with TLC; TLC validation of real chmod/chown transitions (exhaustive modes x clauses, trees x options)"),
})
NOT_YET = {}

def main():
    props = [json.loads(l)["id"] for l in open(os.path.join(ROOT, "properties.jsonl"))]
    hooks = dict(guard="rivia_verif",
                 enable="RUSTFLAGS='--cfg rivia_verif --check-cfg cfg(rivia_verif)' (set in /verif/harness/.cargo/config.toml; every check rebuilds the harness, and with it /repo, with the flag on)",
                 baseline_off_cmd="cd /repo && cargo test --workspace --no-fail-fast --offline",
                 source_commits=json.load(open(os.path.join(ROOT, "hooks.json")))["source_commits"] if os.path.exists(os.path.join(ROOT, "hooks.json")) else [],
                 add_only=True)
    checks = []
    for pid in props:
        if pid not in CHECKS:
            continue
        c = CHECKS[pid]
        checks.append(dict(property_id=pid, quick_cmd="./check %s --tier quick" % pid, thorough_cmd="./check %s --tier thorough" % pid,
                           evidence_file="/verif/evidence/%s.json" % pid, replay_cmd_template="./check %s --replay {path}" % pid,
                           engine="tlc", level_claimed=dict(category=c["level"], text=c["text"], design_ref=c["ref"]),
                           level_note=c["note"], technique=c["technique"]))
    na = [dict(property_id=p, reason=NOT_YET.get(p, "check not built yet in this round (the specification module and driver for it are still under construction; see DESIGN.md section 10)"))
          for p in props if p not in CHECKS]
    man = dict(version=1, setup_cmd="cd /verif && ./check --setup", hooks=hooks,
               engines=[dict(name="tlc", path="/verif/spec", serves_properties=sorted(CHECKS),
                             kind_free_text="explicit TLA+ specifications model-checked with TLC; implementation bound by TLC trace/record validation of logs produced by the Rust harness in /verif/harness")],
               checks=checks, not_applicable=na,
               notes="All checks: exit 0 = held (KNOWN-FINDING lines for entries of known_findings.json), 1 = VIOLATION line, 2 = tool error. VERIF_SEED / VERIF_TIER honoured.")
    json.dump(man, open(os.path.join(ROOT, "MANIFEST.json"), "w"), indent=1)
    print("MANIFEST.json: %d checks, %d not_applicable" % (len(checks), len(na)))

main()
