"""C05 - abs() maps any path to a clean absolute path, identically on both backends."""
import vlib
from vlib import Outcome
from props.common import env_runs, replay_record

ENVS = [{"HOME": "/h", "a": "w"}, {"HOME": "/h/é", "a": "x/y"}, {"a": "w"}, {"HOME": "/h"}]


def run(tier, seed):
    out = Outcome("C05", tier, seed)
    out.add_mc("MC_Abs", vlib.tlc_mc("MC_Abs", workers=8))
    env_runs(out, "abs", ENVS, ["--tier", tier, "--seed", str(seed), "--rehome", "/h2/x"])
    # second sentence of C05: every other method interprets its path arguments through the same resolution - histories in
    # which every argument is respelled (relative to the cwd, unclean, ~, ${HOME}, file://) are judged by the reference,
    # which resolves arguments with PathLex!Abs: a method that skips the resolution is rejected
    from props import vfsrun
    n, ln = (200, 200) if tier == "thorough" else (16, 120)
    vfsrun.hist(out, "spell", "rand", ["--n", str(n), "--len", str(ln), "--seed", str(seed + 5)], recs_per_chunk=13 if tier == "thorough" else 2)
    out.finish(dict(rule="every string up to length %d over {/ . ~ $ { } : a e-acute} + scheme-prefixed forms + seeded random strings with 2/3/4-byte characters, x cwds {/, /a, /a/b, /e-acute} "
                         "x 4 environments (HOME plain / multi-byte / unset, variable a set / unset; one process each), on Memfs (fresh and populated: no IO) and on Stdfs (process cwd inside a sandbox); "
                         "non-trivial = the argument is not already a clean absolute path" % (6 if tier == "thorough" else 4)))


def replay(path):
    replay_record(path, "Trace_Env")
