"""C09 - copy duplicates and move_p relocates a subtree without loss or collateral change."""
import vlib
from vlib import Outcome
from props import vfsrun
from props.common import replay_record


def run(tier, seed):
    out = Outcome("C09", tier, seed)
    thorough = tier == "thorough"
    m1 = vfsrun.mc_vfs(out, "MC_Vfs_L1")        # CopyLaw, MoveIsRelocation, FailedCallAtomic on every reachable state x every ordered pair
    # every tree of the namespace x every ordered pair of paths x copy / move_p / copy_b with every chmod option
    vfsrun.bfs(out, "copy", ["--links", "1", "--alpha", "copy", "--maxstates", "5000" if thorough else "900"], groups_per_chunk=430 if thorough else 60)
    vfsrun.bfs(out, "copy-a-ab", ["--links", "0", "--alpha", "copy", "--names", "a,ab"] + ([] if thorough else ["--maxstates", "250"]), groups_per_chunk=20)
    n, ln = (300, 200) if thorough else (24, 100)
    vfsrun.hist(out, "rand", "rand", ["--n", str(n), "--len", str(ln), "--seed", str(seed + 17)], recs_per_chunk=19 if thorough else 2)
    vfsrun.builder_programs(out, tier, seed)        # every Copier setter sequence (last setter wins) on a tree with sub-directories and modes
    out.assumptions += ["copy with follow(true) is not judged by the reference (DESIGN A24: placement of followed entries is a recorded open question); Stdfs copy/move are compared in C02"]
    out.finish(dict(rule="all reachable trees of names {a,b} x depth 2 (<= 1 link) x all 49 ordered pairs of paths x copy, move_p and copy_b with chmod_all/dirs/files; "
                         "before/after snapshots judged by TLC (exact destination subtree, source untouched, nothing outside changes, failed move changes nothing)"))


def replay(path):
    replay_record(path, "Trace_Vfs")
