"""C11 - chmod/chown change exactly the selected entries to exactly the requested value.

(a) design level: MC_ChmodSym (the grammar as a one-character-per-step scanner = ChmodSym!SymMode, type bits, links,
    the = / + / - algebra, skipped clauses, first-clause errors) and MC_VfsPerm (Vfs!Op_chmod_b / Op_chown_b on every
    tree of a small namespace x the builder options; selection re-stated independently);
(b) binding: the chmoddrv driver (sets `sym` and `tree`) on the real Memfs, every step judged by Trace_Vfs!JudgeStep
    through the wrapper Trace_VfsPerm (same judge; BAD chmod classes carry five more descriptive fields)."""
import json, os, threading, time
import vlib
from vlib import Outcome, Stall, sub, log
from props import vfsrun

HERE = os.path.dirname(os.path.abspath(__file__))
VALIDATOR = "Trace_VfsPerm"


def _split_by_steps(files, outdir, prefix, target):
    """Chunks of whole group records with about `target` steps each (groups differ a lot in size)."""
    chunks, cur, n, k = [], None, 0, 0
    total = 0
    for f in files:
        if not os.path.exists(f):
            continue
        with open(f, "rb") as fh:
            for line in fh:
                steps = line.count(b'"same":')
                if cur is None or n + steps > target:
                    if cur:
                        cur.close()
                    name = os.path.join(outdir, "%s.c%04d.ndjson" % (prefix, k))
                    cur = open(name, "wb")
                    chunks.append(name)
                    k += 1
                    n = 0
                cur.write(line)
                n += steps
                total += steps
    if cur:
        cur.close()
    return chunks, total


def _penv(d):
    pe = os.path.join(d, "penv.json")
    with open(pe, "w") as fh:
        json.dump(vfsrun.PENV, fh)
    return pe


def _drive(out, st, tier, seed, nworkers=16):
    d = sub("chmod-" + st)
    try:
        files = vlib.run_workers("chmoddrv", ["--set", st, "--tier", tier, "--seed", str(seed)], nworkers, d, st, stall_s=30,
                                 env={"HOME": "/h"}, clean_env=True)
    except Stall as s:
        vlib.stall_violation(out, s, "chmoddrv:" + st)
        return
    total = sum(os.path.getsize(f) for f in files if os.path.exists(f))
    # two to three chunks per validator process
    probe, nsteps = _split_by_steps(files, d, st + "p", 1 << 60)
    for p in probe:
        os.remove(p)
    chunks, nsteps = _split_by_steps(files, d, st, max(2500, nsteps // 44))
    log("[c11] set %s: %d steps in %d chunks (%.0f MB)" % (st, nsteps, len(chunks), total / 1e6))
    checked, classes = vlib.tlc_validate(VALIDATOR, chunks, extra_env=dict(PENV=_penv(d)), parallel=16)
    out.absorb(VALIDATOR, checked, classes, label=st, grouped=True)
    out.cov.setdefault("driver_sets", []).append(dict(set=st, steps=nsteps, chunks=len(chunks)))
    # a sample: one step that changed the state
    if chunks:
        r = vlib.read_line(chunks[len(chunks) // 2], 1)
        if r:
            g = json.loads(r)
            for s in g["steps"]:
                if s["same"] == "f":
                    out.sample(dict(set=st, pre=g["pre"], step=s))
                    break


def run(tier, seed):
    out = Outcome("C11", tier, seed)
    # proposed entries (merged into known_findings.json by the maintainer)
    fp = os.path.join(HERE, "c11_findings.json")
    if os.path.exists(fp):
        have = {f["id"] for f in out.findings}
        out.findings += [f for f in json.load(open(fp))["findings"] if f.get("status", "open") == "open" and "C11" in f.get("properties", []) and f["id"] not in have]
    thorough = tier == "thorough"
    vlib.build("chmoddrv")
    # (a) the two design-level runs, in the background while the driver sets are produced and judged
    mc = {}
    errs = []

    def bg(name, cfg, workers):
        try:
            mc[name] = vlib.tlc_mc(name.split("/")[0], cfg, workers=workers)
        except Exception as e:  # re-raised in the main thread
            errs.append(e)

    runs = [("MC_ChmodSym" + ("/T" if thorough else ""), "MC_ChmodSym_T.cfg" if thorough else "MC_ChmodSym.cfg", 8),
            ("MC_VfsPerm" + ("/T" if thorough else ""), "MC_VfsPerm_T.cfg" if thorough else "MC_VfsPerm.cfg", 8)]
    vlib.scratch()          # created here: the background threads must not race for it
    threads = [threading.Thread(target=bg, args=r) for r in runs]
    for t in threads:
        t.start()
    # (b) implementation -> specification
    for st in ("sym", "tree"):
        _drive(out, st, tier, seed)
    for t in threads:
        t.join()
    if errs:
        raise errs[0]
    for name, _, _ in runs:
        out.add_mc(name, mc[name])
    # (c) the builders as state machines (last setter wins) + builder programs in seeded histories, judged through the fold
    pe = os.path.join(vlib.sub("mcb"), "penv.json")
    json.dump(dict(vars=[dict(n=list("HOME"), v=list("/h"))]), open(pe, "w"))
    out.add_mc("MC_Builders", vlib.tlc_mc("MC_Builders", workers=4, extra_env=dict(PENV=pe)))
    # (c2) both backends: every tree of the C02 grid under three permission layouts (read-only / user-only / exec-only files),
    # the observers mode / is_exec / is_readonly / entry / owner on every path (links included) and chmod in its builder
    # variants (symbolic and octal, recursive or not, follow or not) on Stdfs in a sandbox and on Memfs; each side judged
    # against the reference (PAIRMODE=ref)
    from props import c02
    for k in ("1", "2", "3"):
        c02.grid(out, "perm" + k, tier, ["--perm", k, "--stride", "3" if thorough else "11"], pairmode="ref")
    # (d) schedules: a uid-only and a gid-only chown (a dirs-only and a files-only chmod) of the same tree on two threads -
    # every interleaving of their guards; the outcome must be that of one order (both updates present)
    from props import c04
    for i, prog in enumerate(("[[29],[30]]", "[[31],[32]]", "[[29],[30,29]]", "[[31],[29]]", "[[32],[30]]")):
        c04.sched(out, "chown2-%d" % i, ["--mode", "prog", "--prog", prog], nworkers=1)
    from props import vfsrun
    n, ln = (200, 150) if thorough else (12, 100)
    vfsrun.builder_programs(out, tier, seed)
    vfsrun.hist(out, "builders", "rand", ["--n", str(n), "--len", str(ln), "--seed", str(seed + 11)], recs_per_chunk=13 if thorough else 1)
    out.assumptions += [
        "ChmodSym.SymMode is the reference reading of the documented grammar [dfa]:[ugoa]+[-+=][rwx]+ (one target letter per clause; a clause for the other kind is skipped; "
        "a malformed later clause is not settled); shown equal to the character scanner by MC_ChmodSym",
        "octal value 0 is the builders' 'unset' sentinel and outside the input domain of all/dirs/files; octal inputs are <= 0o7777",
        "Memfs only (Stdfs is covered by the backend comparison C02); Memfs gives new entries 1000:1000",
        "with follow() the owner of the links on the way, and LinkLooping on a followed link to a directory, are not settled (decisions of Vfs.tla / VfsJudge)",
    ]
    out.finish(dict(
        rule="set sym: one-entry tree {file, dir, link->file} x %s start permissions x (all 945 well-formed single clauses + seeded double/triple clauses) and "
             "every string <= 4 over the grammar's alphabet + hand-written edge cases + seeded random strings <= 9, through chmod_b(p).no_recurse().sym(e).exec(); "
             "set tree: trees over names {a,b} x depth 2 with files, dirs, <= %s links (to dir / file / root / dangling / link) x every path x "
             "{recurse, no_recurse} x {follow} x {-, all, dirs, files, dirs+files} x 10 symbolic options (3 malformed) + chown_b {uid, gid, owner, both, none} + chmod, chown, mkfile_m, mkdir_m; "
             "a fresh Memfs per mutating call; mode / is_exec / is_readonly / owner / entry asked on pre- and post-states; non-trivial = the call changed the state or failed"
             % ("all 512" if thorough else "16 (links: 4)", "2"),
        exhaustive=True))


def replay(path):
    rp = json.load(open(path))
    d = sub("replay")
    f = os.path.join(d, "replay.w00.ndjson")
    with open(f, "w") as fh:
        fh.write(json.dumps(rp["record"]) + "\n")
    checked, classes = vlib.tlc_validate(VALIDATOR, [f], extra_env=dict(PENV=_penv(d)))
    for c in classes:
        print(c["c"], c["n"])
    if any(c["c"][0] == "BAD" for c in classes):
        print("VIOLATION property=%s replay=%s" % (rp["property"], path))
        raise SystemExit(1)
    raise SystemExit(0)
