"""C02 - Stdfs and Memfs are interchangeable: same calls, same results, same tree."""
import glob, json, os
import vlib
from vlib import Outcome, Stall, sub
from props import vfsrun
from props.common import replay_record


def grid(out, label, tier, extra=(), nworkers=14, groups_per_chunk=8, pairmode=None):
    vlib.build("grid")
    d = sub("grid-" + label)
    pe = os.path.join(d, "penv.json")
    json.dump(vfsrun.PENV, open(pe, "w"))
    try:
        files = vlib.run_workers("grid", ["--tier", tier, "--sandbox", os.path.join(d, "sb")] + list(extra), nworkers, d, label, stall_s=30, env={"HOME": "/h"}, clean_env=True)
    except Stall as s:
        vlib.stall_violation(out, s, "grid:" + label)
        return
    chunks = vlib.split_chunks(files, d, label + "c", groups_per_chunk)
    checked, classes = vlib.tlc_validate("Trace_Pair", chunks, extra_env=dict(PENV=pe, **({"PAIRMODE": pairmode} if pairmode else {})))
    out.absorb("Trace_Pair", checked, classes, label=label, grouped="pair")
    out.cov["trees"] = out.cov.get("trees", 0) + vlib.count_lines(files)


def run(tier, seed):
    out = Outcome("C02", tier, seed)
    vfsrun.mc_vfs(out, "MC_Vfs_L1")        # the reference both sides are additionally judged against (names the deviating side)
    grid(out, "root", tier)
    # "...plus random multi-step histories": seeded histories run on both backends side by side over names {a, b, ab, e-acute} x
    # depth 3 with mode changes, copies onto existing entries, links - every step judged from the previous step's post-states;
    # a history ends with the step that leaves the domain (a link that no longer resolves to an existing non-link entry)
    grid(out, "hist", tier, ["--hist", "2400" if tier == "thorough" else "240", "--len", "60", "--seed", str(seed)], nworkers=8, groups_per_chunk=30 if tier == "thorough" else 10)
    # "for any effective uid": the grid again as an unprivileged user (permission checks apply on the real filesystem)
    grid(out, "nobody", tier, ["--as-nobody", "--stride", "3" if tier == "thorough" else "31"])
    out.finish(dict(rule="every tree of names {a,b} x depth 2 x data {empty,x} with <= 1 link that resolves to an existing non-link entry (361 + 1630 trees; quick: every 5th) "
                         "materialised with std::fs in a tmpfs sandbox and on a fresh Memfs, x ~380 calls (every mutating / querying method x every path or ordered pair, arguments not "
                         "passing through a link); results and observed post-trees compared by TLC; + %s seeded histories of <= 60 calls run on both backends side by side over names {a,b,ab,e-acute} x depth 3 "
                         "(every step judged from the previous step's post-states; a history ends with the step that leaves the domain); umask 022; euid 0 and uid 65534"
                         % ("2400" if tier == "thorough" else "240")))


def replay(path):
    replay_record(path, "Trace_Pair")
