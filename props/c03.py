"""C03 - Memfs namespace stays a well-formed tree after any history, even failed calls."""
import vlib
from vlib import Outcome
from props import vfsrun
from props.common import replay_record


def run(tier, seed):
    out = Outcome("C03", tier, seed)
    thorough = tier == "thorough"
    # abstract level: the reference machine keeps TreeOK (invariant WellFormedTree) at every reachable state
    vfsrun.mc_vfs(out, "MC_Vfs_L1")
    # representation level: MemfsRep!RepViolation (C03 clause by clause) is evaluated by TLC on the Debug projection after
    # EVERY call - successful or failed - of the BFS and of histories with out-of-domain arguments (paths through links,
    # below files, root as source/target, '..' chains, empty and odd strings)
    vfsrun.bfs(out, "link1", ["--links", "1"] + ([] if thorough else ["--maxstates", "900"]), groups_per_chunk=430 if thorough else 60)
    if thorough:
        vfsrun.bfs(out, "link2", ["--links", "2", "--maxstates", "12000"], groups_per_chunk=750)
    n, ln = (600, 250) if thorough else (48, 120)
    vfsrun.hist(out, "chaos", "rand", ["--chaos", "--n", str(n), "--len", str(ln), "--seed", str(seed)], recs_per_chunk=38 if thorough else 3)
    # "...and at quiescence after every explored concurrent schedule": every interleaving of all two-thread one-call programs
    # on real threads (controlled scheduler), the final representation judged with the same RepViolation operator
    from props import c04
    c04.sched(out, "all2x1", ["--mode", "all2x1"], nworkers=8)
    # calls that take several guards by design (recursive chmod / chown, copy with options) against every single-step mutator
    # (and seeded pairs of them) on a second thread, every interleaving: the quiescent representation must be well formed
    c04.sched(out, "composite", ["--mode", "composite", "--n", "400" if thorough else "40", "--cap", "2000" if thorough else "400", "--seed", str(seed)], nworkers=8, chunk=800)
    out.assumptions += ["deeper concurrent programs and stress runs are judged by the C04 check (same RepViolation operator)"]
    out.finish(dict(rule="RepViolation evaluated on the projected representation (entries, files, child sets, cwd/root, poisoned flag) after every step; "
                         "steps come from the BFS of the real Memfs (<= 1 link%s) and from seeded histories in which half of the arguments are out of domain; "
                         "non-trivial = the call changed the state or failed" % (", <= 2 links bounded" if thorough else "")))


def replay(path):
    replay_record(path, "Trace_Vfs")
