"""C18 - XDG directory lookup honours the environment with the right precedence.

One driver process (harness/src/bin/xdgprobe.rs) per environment, started with exactly that environment.
The environments are written by this file to one PENV json ({"envs": [...]}, values as character lists);
every record carries the index of its environment and is judged by spec/Trace_Xdg.tla against
spec/XdgEnv.tla.  Directory values point below a per-environment sandbox ("@" in the templates) so that
vfs.config_dir can be exercised on the real filesystem as well."""
import itertools, json, os, random
from concurrent.futures import ThreadPoolExecutor
import vlib
from vlib import Outcome, Stall, sub, log

HOME_TYPE = ["XDG_CONFIG_HOME", "XDG_DATA_HOME", "XDG_CACHE_HOME", "XDG_STATE_HOME", "XDG_RUNTIME_DIR"]
LIST_TYPE = ["XDG_CONFIG_DIRS", "XDG_DATA_DIRS", "PATH"]
VARS = ["HOME"] + HOME_TYPE + LIST_TYPE + ["SUDO_UID", "SUDO_GID"]
ONE = dict(HOME="@/home", XDG_CONFIG_HOME="@/ch", XDG_DATA_HOME="@/dh", XDG_CACHE_HOME="@/cah", XDG_STATE_HOME="@/sth",
           XDG_RUNTIME_DIR="@/run", XDG_CONFIG_DIRS="@/s1", XDG_DATA_DIRS="@/d1", PATH="@/bin")
LIST = dict(HOME="@/x::@/y:", XDG_CONFIG_HOME="@/x::@/y:", XDG_DATA_HOME="@/x::@/y:", XDG_CACHE_HOME="@/x::@/y:",
            XDG_STATE_HOME="@/x::@/y:", XDG_RUNTIME_DIR="@/x::@/y:", XDG_CONFIG_DIRS="@/a::@/b:", XDG_DATA_DIRS="@/da::@/db:",
            PATH="@/pa::@/pb:")


def base(v):
    """the four value classes of the property: unset, empty, one value, list with empty segments"""
    if v == "SUDO_UID":
        return [None, "1000", "junk"]
    if v == "SUDO_GID":
        return [None, "1001", "junk"]
    return [None, "", ONE[v], LIST[v]]


def ext(v):
    """base classes + values the documents are silent or disagree about (relative, trailing separator,
    separators only, duplicates, ids at the u32 boundary)"""
    if v in ("SUDO_UID", "SUDO_GID"):
        return base(v) + ["", "0", "007", "+5", "-1", " 5", "4294967295", "4294967296", "99999999999"]
    if v == "HOME":
        return base(v) + ["@/home/", "rel/home"]
    if v in HOME_TYPE:
        return base(v) + ["rel/dir", "@/t/"]
    return base(v) + [":", "rel::@/b:", "@/a/:@/a:@/b//", "@/x/../a:@/b/."]


def pairwise(domains, rng, tries=30):
    """greedy pairwise-complete cover: rows of value indices"""
    names = list(domains)
    unc = set()
    for i, j in itertools.combinations(range(len(names)), 2):
        for a in range(len(domains[names[i]])):
            for b in range(len(domains[names[j]])):
                unc.add((i, a, j, b))
    rows = []
    while unc:
        i0, a0, j0, b0 = min(unc)
        best, bs = None, -1
        for _ in range(tries):
            row = [rng.randrange(len(domains[n])) for n in names]
            row[i0], row[j0] = a0, b0
            s = sum(1 for i, j in itertools.combinations(range(len(names)), 2) if (i, row[i], j, row[j]) in unc)
            if s > bs:
                best, bs = row, s
        rows.append(best)
        for i, j in itertools.combinations(range(len(names)), 2):
            unc.discard((i, best[i], j, best[j]))
    return [{n: domains[n][r[k]] for k, n in enumerate(names)} for r in rows]


def product(domains):
    names = list(domains)
    return [dict(zip(names, vals)) for vals in itertools.product(*[domains[n] for n in names])]


def make_envs(tier, seed):
    """list of (template environment {var: value or None}, vfs flag, group label)"""
    rng = random.Random(seed * 7919 + 18)
    thorough = tier == "thorough"
    dom = ext if thorough else base
    out = []
    # the cross product of the property, pairwise complete
    for e in pairwise({v: base(v) for v in VARS}, rng):
        out.append((e, 1, "pairwise"))
    if thorough:
        for e in pairwise({v: ext(v) for v in VARS}, rng):
            out.append((e, 1, "pairwise-ext"))
    # full product of the variables each function reads
    for e in product({v: dom(v) for v in ["HOME", "XDG_CONFIG_HOME", "XDG_CONFIG_DIRS"]}):
        out.append((e, 1, "config+vfs"))
    if not thorough:
        for e in pairwise({v: ext(v) for v in ["HOME", "XDG_CONFIG_HOME", "XDG_CONFIG_DIRS"]}, rng):
            out.append((e, 1, "config+vfs-ext"))
    # the user's config directory listed AGAIN among the system directories (after / before / between others):
    # XDG_CONFIG_HOME still comes first in the search order whatever XDG_CONFIG_DIRS repeats
    for dirs in ("@/s1:@/ch", "@/ch:@/s1", "@/a:@/ch:@/b", "@/s1:@/home/.config"):
        for ch in ("@/ch", None):
            out.append((dict(HOME="@/home", XDG_CONFIG_HOME=ch, XDG_CONFIG_DIRS=dirs), 1, "config-home-repeated"))
    for v in ["XDG_DATA_HOME", "XDG_CACHE_HOME", "XDG_STATE_HOME", "XDG_RUNTIME_DIR"]:
        for e in product({"HOME": ext("HOME"), v: ext(v)}):
            out.append((e, 0, "home:" + v))
    if thorough:
        for e in product({v: ext(v) for v in LIST_TYPE}):
            out.append((e, 0, "lists"))
    else:
        for v in LIST_TYPE:
            for x in ext(v):
                out.append(({v: x}, 0, "lists"))
        for e in pairwise({v: ext(v) for v in LIST_TYPE}, rng):
            out.append((e, 0, "lists"))
    # variables the documents do not mention must not matter: TMPDIR (the runtime directory falls back to the literal /tmp)
    for rd in ext("XDG_RUNTIME_DIR"):
        for td in ("/var/tmp", "@/mytmp", ""):
            out.append((dict(HOME="@/home", XDG_RUNTIME_DIR=rd, TMPDIR=td), 0, "undocumented-vars"))
    for e in product({"SUDO_UID": ext("SUDO_UID"), "SUDO_GID": ext("SUDO_GID")}):
        out.append((e, 0, "rids"))
    # seeded random rows over the extended values
    for _ in range(1500 if thorough else 60):
        out.append(({v: rng.choice(ext(v)) for v in VARS}, 1, "random"))
    return out


def concrete(tmpl, P):
    return {k: v.replace("@", P) for k, v in tmpl.items() if v is not None}


def universe(env, P):
    """directories that get the file: every absolute directory the search order can name, the
    XDG_CONFIG_DIRS default, and one directory that is never in the search order"""
    u = []

    def add(d):
        d = os.path.normpath(d)
        if d not in u:
            u.append(d)
    ch = env.get("XDG_CONFIG_HOME")
    if ch and ch.startswith("/"):
        add(ch)
    for seg in (env.get("XDG_CONFIG_DIRS") or "").split(":"):
        if seg.startswith("/"):
            add(seg)
    h = env.get("HOME")
    if h and h.startswith("/"):
        add(h + "/.config")
    add("/etc/xdg")
    add(P + "/decoy")
    return u


def penv_obj(env):
    o = {k: list(v) for k, v in env.items()}
    o["_"] = []
    return o


def drive(out, specs, d, parallel=16):
    """run one process per environment; returns (concrete envs, record files in order)"""
    vlib.build("xdgprobe")
    envs, files = [None] * len(specs), [None] * len(specs)

    def one(i):
        tmpl, vfs, _ = specs[i]
        od = os.path.join(d, "e%04d" % i)
        os.makedirs(od, exist_ok=True)
        P = os.path.join(od, "sb")
        e = concrete(tmpl, P)
        envs[i] = e
        args = ["--eid", str(i), "--sandbox", P, "--vfs", str(vfs)]
        for u in universe(e, P):
            args += ["--u", u]
        files[i] = vlib.run_workers("xdgprobe", args, 1, od, "e%04d" % i, env=e, clean_env=True)[0]

    with ThreadPoolExecutor(max_workers=parallel) as ex:
        list(ex.map(one, range(len(specs))))
    return envs, files


def merge_chunks(files, d, nchunks=16, max_records=12000):
    lines = []
    for f in files:
        if f and os.path.exists(f):
            with open(f, "rb") as fh:
                lines += fh.readlines()
    per = max(1, min(max_records, -(-len(lines) // nchunks)))
    chunks = []
    for k in range(0, len(lines), per):
        name = os.path.join(d, "xdg.c%03d.ndjson" % (k // per))
        with open(name, "wb") as fh:
            fh.writelines(lines[k:k + per])
        chunks.append(name)
    return chunks, len(lines)


def own_findings():
    p = os.path.join(os.path.dirname(os.path.abspath(__file__)), "c18_findings.json")
    if not os.path.exists(p):
        return []
    return [f for f in json.load(open(p)).get("findings", []) if "C18" in f.get("properties", []) and f.get("status", "open") == "open"]


def run(tier, seed):
    out = Outcome("C18", tier, seed)
    known = {f["id"] for f in out.findings}
    out.findings += [f for f in own_findings() if f["id"] not in known]
    out.add_mc("MC_Xdg", vlib.tlc_mc("MC_Xdg", workers=8))
    specs = make_envs(tier, seed)
    d = sub("c18")
    try:
        envs, files = drive(out, specs, d)
    except Stall as s:
        vlib.stall_violation(out, s, "xdgprobe")
        out.finish(dict(rule="driver stalled"))
        return
    penv = os.path.join(d, "penv.json")
    with open(penv, "w") as fh:
        json.dump(dict(envs=[penv_obj(e) for e in envs]), fh)
    chunks, n = merge_chunks(files, d)
    checked, classes = vlib.tlc_validate("Trace_Xdg", chunks, extra_env=dict(PENV=penv))
    out.absorb("Trace_Xdg", checked, classes, label="xdg")
    # beyond the listed property: what getrids is FOR - the privilege machine of sys::user (sudo_down / sudo_up / drop_sudo /
    # set*id / switchuser over the six process credentials, Creds.tla).  TLC explores it from root and from ordinary users for
    # every SUDO pair (kernel no-escalation, drop_sudo final, sudo_down/sudo_up round trip; MC_Creds_doc MUST fail: negative
    # control and the recorded observation that drop_sudo after sudo_down keeps the saved uid 0); the real functions run one
    # program per forked child and TLC judges result + kernel-reported credentials after every call.
    try:
        out.add_mc("MC_Creds", vlib.tlc_mc("MC_Creds", "MC_Creds.cfg" if tier == "thorough" else "MC_Creds_Q.cfg", workers=8, coverage=False))
        out.add_mc("MC_Creds_doc(negative control)", vlib.tlc_mc("MC_Creds", "MC_Creds_doc.cfg", workers=2, coverage=False, expect_violation=True))
        vlib.build("creds")
        dcr = sub("creds")
        fs = vlib.run_workers("creds", ["--tier", tier, "--seed", str(seed)], 4, dcr, "cr", stall_s=60)
        checked2, classes2 = vlib.tlc_validate("Trace_Creds", vlib.split_chunks(fs, dcr, "crc", 1500))
        out.absorb("Trace_Creds", checked2, classes2, label="privilege programs", beyond=True)
    except Stall as st:
        vlib.stall_beyond(out, st, "creds")
    for v in out.violations:          # make replay files self-contained: the environment travels with the record
        r = v.get("record")
        if isinstance(r, dict) and isinstance(r.get("e"), int) and r["e"] < len(envs):
            r["penv"] = envs[r["e"]]
    if chunks:
        out.sample_from(chunks[len(chunks) // 2], (1, 40, 400))
    groups = {}
    for _, _, g in specs:
        groups[g] = groups.get(g, 0) + 1
    out.cov["environments"] = len(specs)
    out.cov["environment_groups"] = groups
    out.finish(dict(rule="%d environments, each its own process started with exactly that environment: a pairwise-complete cover of HOME, XDG_CONFIG_HOME, "
                         "XDG_CONFIG_DIRS, XDG_DATA_HOME, XDG_DATA_DIRS, XDG_CACHE_HOME, XDG_STATE_HOME, XDG_RUNTIME_DIR, PATH in {unset, empty, one value, "
                         "list with empty segments} x SUDO_UID/SUDO_GID in {unset, numeric, junk}; the full product of the variables each function reads "
                         "(%s value sets: + relative, trailing separator, separators only, duplicates, ids at the u32 boundary); seeded random rows; "
                         "vfs.config_dir on a fresh Memfs and on a Stdfs sandbox for every subset of the candidate directories (+ /etc/xdg on Memfs, + one "
                         "non-candidate directory) holding the file; getrids for uid, gid in {0, 1000}; non-trivial = a relevant variable is set / "
                         "some directory holds the file / uid 0 with both SUDO variables set" % (len(specs), "extended" if tier == "thorough" else "base and extended")))


def replay(path):
    rp = json.load(open(path))
    rec = rp["record"]
    if rp.get("validator") == "Trace_Creds":
        d = sub("replay")
        f = os.path.join(d, "replay.ndjson")
        with open(f, "w") as fh:
            fh.write(json.dumps(rec) + "\n")
        checked, classes = vlib.tlc_validate("Trace_Creds", [f])
        for c in classes:
            print(c["c"], c["n"])
        if any(c["c"][0] == "BAD" for c in classes):
            print("VIOLATION property=%s replay=%s" % (rp["property"], path))
            raise SystemExit(1)
        raise SystemExit(0)
    env = rec.pop("penv", None)
    if env is None:
        print("replay file carries no environment")
        raise SystemExit(2)
    rec["e"] = 0
    d = sub("replay")
    f = os.path.join(d, "replay.ndjson")
    with open(f, "w") as fh:
        fh.write(json.dumps(rec) + "\n")
    penv = os.path.join(d, "penv.json")
    with open(penv, "w") as fh:
        json.dump(dict(envs=[penv_obj(env)]), fh)
    checked, classes = vlib.tlc_validate("Trace_Xdg", [f], extra_env=dict(PENV=penv))
    for c in classes:
        print(c["c"], c["n"])
    if any(c["c"][0] == "BAD" for c in classes):
        print("VIOLATION property=%s replay=%s" % (rp["property"], path))
        raise SystemExit(1)
    raise SystemExit(0)
