"""C20 - the assert_vfs_* macros are sound and complete test oracles."""
import glob, json, os
from concurrent.futures import ThreadPoolExecutor
import vlib
from vlib import Outcome, Stall, sub, log
from props.common import replay_record

FINDINGS = os.path.join(os.path.dirname(os.path.abspath(__file__)), "c20_findings.json")
PENV = dict(vars=[dict(n=list("HOME"), v=list("/h"))])


def _penv(d):
    pe = os.path.join(d, "penv.json")
    with open(pe, "w") as fh:
        json.dump(PENV, fh)
    return pe


def run(tier, seed):
    out = Outcome("C20", tier, seed)
    # proposed known findings of this property (merged into known_findings.json later)
    if os.path.exists(FINDINGS):
        have = {f["id"] for f in out.findings}
        out.findings += [f for f in json.load(open(FINDINGS))["findings"]
                         if "C20" in f.get("properties", []) and f.get("status", "open") == "open" and f["id"] not in have]
    thorough = tier == "thorough"
    vlib.build("macros")

    # (a) design level, in the background while the driver runs: the macro suite as a machine over the reference
    #     filesystem; laws of the specification itself for every state x macro x argument of the bound
    cfgs = [("MC_VfsAssert", "MC_VfsAssert.cfg"), ("MC_VfsAssert_L1", "MC_VfsAssert_L1.cfg")]
    if thorough:
        cfgs += [("MC_VfsAssert_M", "MC_VfsAssert_M.cfg"), ("MC_VfsAssert_T", "MC_VfsAssert_T.cfg")]
    pool = ThreadPoolExecutor(max_workers=1)
    mcs = pool.submit(lambda: [(n, vlib.tlc_mc("MC_VfsAssert", c, workers=6 if not thorough else 8)) for n, c in cfgs])

    # (b) implementation -> specification: BFS over the real Memfs, every macro from the selected states with every
    #     argument, the same trees on a Stdfs sandbox; every invocation judged by TLC (Trace_Assert)
    d = sub("macros")
    pe = _penv(d)
    stride, sstride = (1, 2) if thorough else (12, 8)
    args = ["--names", "a,b", "--depth", "2", "--links", "1", "--stride", str(stride), "--stdfs-stride", str(sstride),
            "--threads", "16", "--sandbox", os.path.join(d, "sandbox"), "--tier", tier, "--seed", str(seed)]
    summary = None
    try:
        vlib.run_workers("macros", args, 1, d, "macros", stall_s=40, env={"HOME": "/h"}, clean_env=True)
        summary = json.load(open(os.path.join(d, "macros.w00.summary.json")))
    except Stall as s:
        vlib.stall_violation(out, s, "macros")
    files = sorted(glob.glob(os.path.join(d, "macros.w00.t*.ndjson")))
    chunks = vlib.split_chunks(files, d, "macrosc", 48 if thorough else 40)
    checked, classes = vlib.tlc_validate("Trace_Assert", chunks, extra_env=dict(PENV=pe))
    out.absorb("Trace_Assert", checked, classes, label="macros", grouped=True)
    if summary:
        out.cov["impl_bfs"] = [dict(label="macros", **summary)]
        log("[C20] driver: %s" % json.dumps(summary))
    if chunks:
        r = vlib.read_line(chunks[len(chunks) // 2], 1)
        if r:
            g = json.loads(r)
            for i in (3, 120, 200, 300):
                if i < len(g["steps"]):
                    out.sample(dict(be=g["be"], pre=g["pre"], step=g["steps"][i]))
    for n, res in mcs.result():
        out.add_mc(n, res)
    pool.shutdown()
    out.assumptions += [
        "a Memfs state is its projected representation (Debug rendering); it is re-created by replaying its BFS call path on a fresh instance for every acting-macro invocation",
        "the Stdfs sandbox lives on tmpfs below /dev/shm, umask 022, links are materialised with relative link text (the way Stdfs::symlink records them); "
        "the sandbox directory plays the role of the root and is itself never passed to a macro; arguments that lead THROUGH a link are not judged on Stdfs (C02)",
        "panic messages are inspected in the driver (TLC cannot search strings): flags 'contains assert_vfs_<macro>!' and 'contains the resolved path (Debug form or blank-delimited)'",
        "documentation-silent cases are DECISIONS in spec/VfsAssert.tla (both outcomes accepted, counted as decision-pass / decision-panic classes)",
    ]
    # beyond the listed property: the machinery the macro tests themselves rely on - testing::capture_panic as a concurrent
    # machine (PanicCapture.tla: count of captures in progress + process-wide hook), explored by TLC for all interleavings and
    # bound to the real function by nesting shapes executed sequentially (hook probed before / inside / after) and in parallel
    try:
        out.add_mc("MC_PanicCapture", vlib.tlc_mc("MC_PanicCapture", "MC_PanicCapture.cfg" if tier == "thorough" else "MC_PanicCapture_Q.cfg", workers=4, coverage=False))
        vlib.build("capture")
        dcap = vlib.sub("capture")
        fs1 = vlib.run_workers("capture", ["--mode", "seq", "--depth", "2", "--sandbox", dcap], 1, dcap, "seq")
        fs2 = vlib.run_workers("capture", ["--mode", "par", "--rounds", "400" if tier == "thorough" else "60", "--seed", str(seed), "--sandbox", dcap], 1, dcap, "par")
        checked, classes = vlib.tlc_validate("Trace_Capture", vlib.split_chunks(fs1 + fs2, dcap, "cap", 2000))
        out.absorb("Trace_Capture", checked, classes, label="capture_panic", beyond=True)
    except vlib.Stall as st:
        vlib.stall_beyond(out, st, "capture")
    out.finish(dict(rule="reachability fix-point of the real Memfs over names {a,b} x depth 2 x <=1 link x data {empty,'x'} (5415 states; %s); from each selected state all 19 macros x "
                         "every path of the namespace (+ the empty path and a relative unclean spelling) x every second path / data in {empty,'x'} / mode in {0o40755,0o40700,0o700} / "
                         "link-text expectation, on Memfs and (same trees, <=1 link) on Vfs::stdfs() in a sandbox; non-trivial = the macro passed, or it panicked about an existing entry / changed the state"
                         % ("every state" if thorough else "every %dth state in BFS order, offset by the seed; Stdfs: every %dth distinct tree" % (stride, sstride)),
                    exhaustive=thorough))


def replay(path):
    rp = json.load(open(path))
    d = sub("replay")
    pe = _penv(d)
    f = os.path.join(d, "replay.w00.ndjson")
    rec = rp["record"]
    # (replay files written by Outcome keep k / be / pre / the failing step; the owner given to new entries is the
    #  owner of the root entry: 1000:1000 in Memfs, the user who created the sandbox on Stdfs)
    root = next((e for e in rec["pre"]["e"] if e["p"] == []), None)
    rec.setdefault("own", dict(uid=root["uid"], gid=root["gid"]) if root else dict(uid=1000, gid=1000))
    with open(f, "w") as fh:
        fh.write(json.dumps(rec) + "\n")
    checked, classes = vlib.tlc_validate("Trace_Assert", [f], extra_env=dict(PENV=pe))
    for c in classes:
        print(list(c["c"]), c["n"])
    if any(c["c"][0] == "BAD" for c in classes):
        print("VIOLATION property=%s replay=%s" % (rp["property"], path))
        raise SystemExit(1)
    raise SystemExit(0)
