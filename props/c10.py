"""C10 - Symlinks record their target faithfully and are never mistaken for the target."""
import vlib
from vlib import Outcome
from props import vfsrun
from props.common import replay_record


def run(tier, seed):
    out = Outcome("C10", tier, seed)
    thorough = tier == "thorough"
    vfsrun.mc_vfs(out, "MC_Vfs_L1")             # SymlinkLaw, RemoveLaw (a link is removed, never its target) on every reachable state
    # the (link position, target position) grid: names {a,b}, depth <= 3, target file / dir / missing, absolute and relative
    # spelling; after symlink: readlink, readlink_abs, is_*, entry accessors incl. follow(true) twice, chmod/chown without
    # follow (target untouched), readlink on a non-link, remove of the link (target survives)
    vfsrun.hist(out, "links", "links", ["--seed", str(seed)], nworkers=12, recs_per_chunk=40)
    vfsrun.bfs(out, "link1", ["--links", "1"] + ([] if thorough else ["--maxstates", "700"]), groups_per_chunk=430 if thorough else 50)
    if thorough:
        vfsrun.bfs(out, "link2", ["--links", "2", "--maxstates", "8000"], groups_per_chunk=500)
    # both backends on trees where a link points to a LINK (a chain, outside C02's domain): the queries C10 names must agree
    # between the backends and with the reference (kind through the chain, own mode, target text)
    from props import c02
    c02.grid(out, "chains", tier, ["--chains", "--stride", "1" if thorough else "3"], nworkers=12, groups_per_chunk=40)
    # links whose target does not exist (on disk and in memory): the queries, and remove / remove_all / move_p / symlink on the link
    # "chmod and chown without follow act on the link itself and never on its target", on both backends: the permission grid of C11
    # (one layout), each side's modes and owners held to the reference
    c02.grid(out, "perm", tier, ["--perm", "2", "--stride", "5" if thorough else "13"], pairmode="ref")
    c02.grid(out, "dangling", tier, ["--dangling", "--stride", "1" if thorough else "2"], nworkers=12, groups_per_chunk=40)
    out.assumptions += ["the remaining Stdfs side of the same laws is decided by the backend comparison (C02)"]
    out.finish(dict(rule="all (link, target) position pairs over names {a,b} depth <= 3 that can coexist x target kind {file, dir, missing} x {absolute, relative} spelling, "
                         "each followed by 20 query / chmod / chown / remove steps; plus every reachable tree with <= 1 link x all queries; judged by TLC"))


def replay(path):
    replay_record(path, "Trace_Vfs")
