"""C16 - relative(path, base) is the navigation from base to path."""
import vlib
from vlib import Outcome
from props.common import strings_run, replay_record


def run(tier, seed):
    out = Outcome("C16", tier, seed)
    out.add_mc("MC_Relative", vlib.tlc_mc("MC_Relative", workers=8))
    strings_run(out, ["relative"], tier, seed, nworkers=8)
    out.finish(dict(rule="all ordered pairs of clean absolute paths with <= 4 components over {a,b,c} (14 641 pairs, exhaustive) + seeded random pairs up to depth 7 + "
                         "all pairs of clean relative paths <= 3 components over {a,b} (the rustdoc example's form); non-trivial = path differs from base",
                    exhaustive=True))


def replay(path):
    replay_record(path, "Trace_Strings")
