"""C12 - no call panics, hangs or wedges the filesystem, whatever its arguments (level: exploration).

TLA+ contributes the acceptance automaton (spec/Totality.tla: usable / wedged, Call(ok|err), Probe; no action for panic /
timeout / failed probe / poisoned lock), its design-level run (MC_Totality) and the judgement of every event the driver
logged (Trace_Totality); the detection of a panic is the driver's catch_unwind, the detection of a hang / runaway / abort
is the supervisor in vlib.run_workers (progress file, stall_s, RLIMIT_AS in the worker)."""
import json, os
import vlib
from vlib import Outcome, Stall, sub, log

HERE = os.path.dirname(os.path.abspath(__file__))
FINDINGS = os.path.join(HERE, "c12_findings.json")
NWORKERS = 12


def _own_findings(out):
    if os.path.exists(FINDINGS):
        have = {f["id"] for f in out.findings}
        out.findings += [f for f in json.load(open(FINDINGS))["findings"]
                         if "C12" in f.get("properties", []) and f.get("status", "open") == "open" and f["id"] not in have]


def _cls(s):
    f = []
    if s == "":
        f.append("empty")
    if any(ord(ch) > 127 for ch in s):
        f.append("mb")
    if any(ch in "~$:" for ch in s):
        f.append("sp")
    if any(ord(ch) < 32 or 127 <= ord(ch) < 160 for ch in s):
        f.append("ctl")
    if len(s.encode("utf-8")) > 255:
        f.append("long")
    return "+".join(f) or "plain"


def _in_flight(st, outdir, prefix):
    """The call a stalled / dead worker was executing: (fn, variant, [inputs])."""
    slot = next((x for x in st.progress.split("\n") if x.strip()), "")
    parts = slot.rstrip().split("\t")
    fn = parts[1] if len(parts) > 1 else "?"
    var = parts[2] if len(parts) > 2 else ""
    js = parts[3] if len(parts) > 3 else "[]"
    if js.strip() == "@FILE":
        try:
            js = open(os.path.join(outdir, "%s.w%02d.ndjson.inflight" % (prefix, st.worker))).read()
        except OSError:
            js = "[]"
    try:
        ins = json.loads(js)
    except ValueError:
        ins = []
    return fn, var, [str(x) for x in ins]


def _timeout_record(fn, var, ins, what):
    a = ins[0] if ins else ""
    b = ins[1] if len(ins) > 1 else ""
    cls = _cls(a) if len(ins) < 2 else _cls(a) + "|" + _cls(b)
    return dict(k="t", fn=fn, v=var, o="timeout", probe="-", poisoned="f", nw="t", a=list(a), b=list(b), e=what[:200], **{"in": cls})


def _judge_timeout(out, d, name, rec, label):
    f = os.path.join(d, "%s.w00.ndjson" % name)
    with open(f, "w") as fh:
        fh.write(json.dumps(rec) + "\n")
    checked, classes = vlib.tlc_validate("Trace_Totality", [f])
    out.absorb("Trace_Totality", checked, classes, label=label)


def _group(fn, ins, cls=""):
    if cls == "ints" or "mode" in cls or "HOME" in cls:
        return "misc"           # input-independent corners: re-run all of them
    pure = "::" in fn
    if len(ins) >= 2 and ins[1] != "":
        return "pure_pair" if pure else "vfs_pair"
    return "pure_single" if pure else "vfs_single"


def run(tier, seed):
    out = Outcome("C12", tier, seed, level="exploration")
    _own_findings(out)
    thorough = tier == "thorough"
    # (a) design level: the automaton composed with an environment that may issue any outcome
    out.add_mc("MC_Totality", vlib.tlc_mc("MC_Totality", "MC_Totality.cfg", workers=2))
    vlib.build("totality")
    d = sub("totality")
    # (b) listed hang / runaway classes: ONE representative in a separately supervised worker, the rest is skipped
    skip = []
    for f in out.findings:
        h = f.get("hang")
        if not h:
            continue
        skip.append("%s:%s" % (h["fn"], h["when"]))
        a, b = h["rep"].get("a", ""), h["rep"].get("b", "")
        try:
            vlib.run_workers("totality", ["--one", h["fn"], "--a", a, "--b", b], 1, d, "hang-" + f["id"], stall_s=5)
            log("[C12] listed hang %s did not reproduce on its representative (repaired?)" % f["id"])
        except Stall as st:
            _judge_timeout(out, d, "hangrep-" + f["id"], _timeout_record(h["fn"], "representative", [a, b], st.what), "hang:" + f["id"])
    # (c) the real code: every method / helper on every input of the bound, supervised
    args = ["--tier", tier, "--seed", str(seed)] + (["--skip-hang", ",".join(skip)] if skip else [])
    files = []
    try:
        files = vlib.run_workers("totality", args, NWORKERS, d, "tot", stall_s=10, total_s=1500)
    except Stall as st:
        # a hang, a runaway allocation (RLIMIT_AS -> abort) or any other death of a worker: the in-flight call is the finding
        vlib.stall_violation(out, st, "totality")
        fn, var, ins = _in_flight(st, d, "tot")
        _judge_timeout(out, d, "stall", _timeout_record(fn, var, ins, st.what), "stall")
    calls = 0
    main_checked = 0
    totals = dict(ok=0, err=0, panic=0, timeout=0, rebuilds=0, skipped=0)
    fns = set()
    if files:
        chunks = vlib.split_chunks(files, d, "tot", 30000)
        checked, classes = vlib.tlc_validate("Trace_Totality", chunks)
        out.absorb("Trace_Totality", checked, classes, label="totality")
        main_checked = checked
        for c in classes:
            if c["c"][0] == "ok":
                fns.add(c["c"][1])
        for f in files:
            last = None
            with open(f, "rb") as fh:
                for line in fh:
                    last = line
            m = json.loads(last) if last else {}
            if m.get("k") == "m":
                calls += m["calls"]
                for k in totals:
                    totals[k] += m.get(k, 0)
        if chunks:
            out.sample_from(chunks[0], (1, 37, 1500))
            out.sample_from(chunks[len(chunks) // 2], (11, 20000))
            out.sample_from(files[0], (vlib.count_lines([files[0]]) - 1,))
    # beyond the listed property: the values every failing call returns - the error algebra of src/errors (Errors.tla: twelve families,
    # one transparent wrapper; `is` / downcast / Display / source / From / `?` laws explored by TLC over every variant x payload, MC_Errors_N
    # MUST fail), bound to the code by every variant and constructor built for real with a payload alphabet (Trace_Errors).  A mismatch is
    # reported as BEYOND-PROPERTY, never as a violation of C12 (C12 speaks about returning, not about what the error says).
    try:
        out.add_mc("MC_Errors", vlib.tlc_mc("MC_Errors", workers=4))
        out.add_mc("MC_Errors_N(negative control)", vlib.tlc_mc("MC_Errors", "MC_Errors_N.cfg", workers=2, coverage=False, expect_violation=True))
        vlib.build("errs")
        derr = sub("errs")
        fe = vlib.run_workers("errs", ["--tier", tier], 1, derr, "errs", stall_s=30)
        checked_e, classes_e = vlib.tlc_validate("Trace_Errors", vlib.split_chunks(fe, derr, "errc", 4000))
        out.absorb("Trace_Errors", checked_e, classes_e, label="error algebra", beyond=True)
    except Stall as st:
        vlib.stall_beyond(out, st, "errs")
    out.assumptions += [
        "a hang is 'no progress for 10 s in a supervised worker'; a runaway allocation is the abort under RLIMIT_AS = 2 GiB; both are reported with the in-flight call",
        "instance = a small populated Memfs (directories, files, link to directory, link to file, dangling link, link to an ancestor, relative link), rebuilt after every "
        "mutating or failing call; HOME=/a, $a=a so that '~' and '$a' resolve into the tree",
        "pure helpers have no instance: every record is its own automaton (nw = t), the probe does not apply",
        "the expected ok/err outcome is compared with PathLex for the unary path helpers only (strings <= 3); the expected outcome of the Memfs methods is the subject of C01 (Trace_Vfs)",
    ]
    extra = dict(
        rule="every public Memfs method (all 51 VirtualFileSystem methods incl. handles from read/write/append driven with read/seek/write/flush/drop scripts, entries() with 17 "
             "option combinations, chmod_b/chown_b/copy_b builders with odd modes/ids/symbolic strings), every sys:: path helper and PathExt method, StringExt/ToStringExt/OptionExt/"
             "IteratorExt/PeekableExt: all strings <= 3 over {/ . ~ $ : e-acute CJK G-clef a} + %d hand-picked nasties (one record per call), every string <= 2 below each kind of "
             "existing entry, all pairs of a reduced list (%s strings) for the two-path methods and binary helpers, strings of length 4%s and seeded random long / mixed-width "
             "strings (aggregated per function x input class x outcome; every panic / failed probe / poisoning individually); indices -3..3 and extremes for slice/drop; "
             "every symbolic mode string <= 3 over its own alphabet; non-trivial = the call returned an error (Call(err) -> Probe path) or the input is not plain ASCII"
             % (127, "~145" if not thorough else "~250", " and 5" if thorough else ""),
        exhaustive=True,
        calls=calls, call_outcomes=totals, functions_covered=sorted(fns), functions_covered_n=len(fns))
    if calls:
        # evaluations = calls into rivia (the aggregated ones included), not records
        extra["evaluations"] = calls + out.cov["evaluations"] - main_checked
    log("[C12] %d calls (%s), %d functions" % (calls, totals, len(fns)))
    out.finish(extra)


def replay(path):
    """Re-judge the stored record (informational), then re-run every variant of that function group on the stored input
    under supervision on the current tree: exit 1 iff that still panics / stalls / wedges."""
    rp = json.load(open(path))
    rec = rp.get("record") or {}
    d = sub("replay")
    bad = False
    if rec.get("k") in ("t", "s"):
        f = os.path.join(d, "stored.w00.ndjson")
        with open(f, "w") as fh:
            fh.write(json.dumps(rec) + "\n")
        checked, classes = vlib.tlc_validate("Trace_Totality", [f])
        for c in classes:
            print("stored:", c["c"], c["n"])
        # (informational: the verdict of the replay is what the re-run on the current tree shows)
        fn, ins = rec.get("fn", "?"), ["".join(rec.get("a", [])), "".join(rec.get("b", []))]
    elif rec.get("in_flight"):
        parts = rec["in_flight"][0].split("\t")
        fn = parts[1] if len(parts) > 1 else "?"
        try:
            ins = [str(x) for x in json.loads(parts[3])] if len(parts) > 3 else []
        except ValueError:
            ins = []
        print("in flight when the worker stalled / died:", fn, parts[2] if len(parts) > 2 else "", ins)
    else:
        print("nothing to replay in", path)
        raise SystemExit(2)
    ins = (ins + ["", ""])[:2]
    vlib.build("totality")
    grp = _group(fn, ins, rec.get("in", "") + " " + rec.get("v", ""))
    try:
        files = vlib.run_workers("totality", ["--one", grp, "--a", ins[0], "--b", ins[1]], 1, d, "rerun", stall_s=10)
        checked, classes = vlib.tlc_validate("Trace_Totality", files)
        for c in classes:
            if c["c"][0] != "ok":
                print("rerun :", c["c"], c["n"])
        bad = bad or any(c["c"][0] == "BAD" for c in classes)
    except Stall as st:
        print("rerun : worker stalled / died again:", st.what, st.progress.strip()[:300])
        bad = True
    if bad:
        print("VIOLATION property=%s replay=%s" % (rp.get("property", "C12"), path))
        raise SystemExit(1)
    print("the stored input no longer fails")
    raise SystemExit(0)
