"""C01 - Memfs behaves as a tree filesystem for every operation history."""
import vlib
from vlib import Outcome
from props import vfsrun
from props.common import replay_record


def run(tier, seed):
    out = Outcome("C01", tier, seed)
    thorough = tier == "thorough"
    # (a) design level: the reference machine to its reachability fix-point with the C01 laws as action properties
    m0 = vfsrun.mc_vfs(out, "MC_Vfs")
    m1 = vfsrun.mc_vfs(out, "MC_Vfs_L1")
    if thorough:
        vfsrun.mc_vfs(out, "MC_Vfs_L1S")
        vfsrun.mc_vfs(out, "MC_Vfs_T")
    # (b) the real Memfs explored to ITS fix-point over the same alphabet; every transition judged by TLC
    s0 = vfsrun.bfs(out, "nolink", ["--links", "0"])
    vfsrun.crosscheck(out, "names{a,b} depth2 links0", s0, m0)
    # same fix-point with sibling names where one is a string prefix of the other and one is multi-byte: component-wise vs
    # string-wise path handling, byte vs character offsets
    sp = vfsrun.bfs(out, "names-a-ab", ["--links", "0", "--names", "a,ab"])
    vfsrun.crosscheck(out, "names{a,ab} depth2 links0", sp, m0)
    vfsrun.bfs(out, "names-e9", ["--links", "0", "--names", "\u00e9,a", "--maxstates", "200"])
    if thorough:
        s1 = vfsrun.bfs(out, "link1", ["--links", "1"], groups_per_chunk=430)
        vfsrun.crosscheck(out, "names{a,b} depth2 links<=1", s1, m1)
        vfsrun.bfs(out, "cwd", ["--links", "0", "--alpha", "cwd"], groups_per_chunk=100)
    else:
        vfsrun.bfs(out, "link1", ["--links", "1", "--maxstates", "1200"], groups_per_chunk=100)
    # (c) long random histories over a larger namespace with every argument respelled (relative, unclean, ~, $HOME, file://)
    n, ln = (400, 300) if thorough else (24, 150)
    vfsrun.hist(out, "rand", "rand", ["--n", str(n), "--len", str(ln), "--seed", str(seed)], recs_per_chunk=25 if thorough else 2)
    out.assumptions += ["the Debug rendering of Memfs is its complete state (projection parsed by harness/src/memproj.rs)",
                        "DECISIONS D1-D11 in spec/Vfs.tla / Trace_Vfs.tla: outcomes the documentation leaves open are accepted either way"]
    out.finish(dict(rule="reachability fix-point of the REAL Memfs over names {a,b} x depth 2 x data {empty,x} (links 0: complete; links<=1: %s) with 324-373 calls per state "
                         "(every mutating method x every path/pair + 25 query methods x every path), plus seeded random histories over names {a,b,c} depth 3 with respelled arguments; "
                         "every step judged by TLC against the reference operators; non-trivial = the call changed the state or failed" % ("complete" if thorough else "first 1200 states"),
                    exhaustive=True))


def replay(path):
    replay_record(path, "Trace_Vfs")
