"""C01 - Memfs behaves as a tree filesystem for every operation history."""
import vlib
from vlib import Outcome
from props import vfsrun
from props.common import replay_record


def run(tier, seed):
    out = Outcome("C01", tier, seed)
    vfsrun.bfs(out, "link1", ["--links", "1", "--maxstates", "1500"], groups_per_chunk=100)
    vfsrun.hist(out, "rand", "rand", ["--n", "24", "--len", "150", "--seed", str(seed)])
    out.finish(dict(rule="reachability fix-point of the real Memfs over names {a,b} x depth 2 x data {e,x}; every state x every call of the alphabet judged by TLC"))


def replay(path):
    replay_record(path, "Trace_Vfs")
