"""C14 - clean() returns the shortest lexically equivalent path."""
import vlib
from vlib import Outcome
from props.common import strings_run, replay_record


def run(tier, seed):
    out = Outcome("C14", tier, seed)
    thorough = tier == "thorough"
    # (a) design level: the six rules as a rewriting machine, from every string; confluence = Go's Clean
    out.add_mc("MC_Clean" + ("_T" if thorough else ""), vlib.tlc_mc("MC_Clean", "MC_Clean_T.cfg" if thorough else "MC_Clean.cfg", workers=8))
    # (b) implementation -> specification: every string over {/ . a b} up to the bound + random wide strings
    strings_run(out, ["clean"], tier, seed, nworkers=8)
    out.assumptions += ["PathLex.Clean is the reference (shown equal to the normal form of the six documented rules by MC_Clean)",
                        "strings are sequences of opaque characters; only / and . are interpreted"]
    out.finish(dict(rule="every string over {/ . a b} up to length %d (exhaustive) + seeded random strings <= 30 over a 15-token alphabet; "
                         "a record is non-trivial when clean changes the input" % (11 if thorough else 8),
                    exhaustive=True))


def replay(path):
    replay_record(path, "Trace_Strings")
