"""C07 - handles from read/write/append honour the std Read, Seek and Write contracts."""
import json, os
import vlib
from vlib import Outcome, Stall, sub
from props.common import replay_record

PROPOSED = os.path.join(os.path.dirname(os.path.abspath(__file__)), "c07_findings.json")


def run(tier, seed):
    out = Outcome("C07", tier, seed)
    # proposed known findings of this property (until they are merged into known_findings.json)
    have = {f["id"] for f in out.findings}
    out.findings += [f for f in json.load(open(PROPOSED))["findings"] if f["id"] not in have and f.get("status", "open") == "open"]
    out.add_mc("MC_Handle", vlib.tlc_mc("MC_Handle", "MC_Handle.cfg", workers=8))
    if tier == "thorough":
        out.add_mc("MC_Handle_T", vlib.tlc_mc("MC_Handle", "MC_Handle_T.cfg", workers=8))
    vlib.build("handles")
    d = sub("handles")
    nworkers = 8
    for st, label in (("rs", "read/seek sequences"), ("w", "write/flush/drop sequences, one handle"),
                      ("w2", "two append handles (real filesystem: append-only binding; Memfs informational)"),
                      ("wc", "flush while other threads keep the instance busy")):
        try:
            files = vlib.run_workers("handles", ["--set", st, "--tier", tier, "--seed", str(seed), "--sandbox", os.path.join(d, "sandbox-" + st)],
                                     nworkers if st not in ("w2", "wc") else 2, d, st)
        except Stall as s:
            vlib.stall_violation(out, s, "handles:" + st)
            continue
        chunks = vlib.split_chunks(files, d, st, 11000 if tier == "quick" else 40000)
        checked, classes = vlib.tlc_validate("Trace_Handle", chunks)
        out.absorb("Trace_Handle", checked, classes, label=label)
        if chunks:
            out.sample_from(chunks[0], (3, 4001))
    long = tier == "thorough"
    out.finish(dict(rule="REAL handles of Memfs (fresh instance per sequence) and Stdfs (sandbox on tmpfs), every call under catch_unwind, each sequence replayed step by step through Handle.tla. "
                         "read side: every sequence of %s over Read(0..4), Seek(Start 0..5 | Current | End) on files of length 0..3 (all shorter sequences are their prefixes) "
                         "+ seeded random sequences of up to %d operations with offsets up to +-10^6 and arbitrary bytes; "
                         "write side: write and append handles x file absent / empty / 1 byte / 3 bytes x every splitting of <= %d bytes into <= %d writes (empty writes included), "
                         "flush or not after each (and before the first), handle dropped after every prefix (crash points), content observed through an independent route "
                         "(std::fs::read / a fresh read handle) after every flush and after the drop + seeded random longer chunkings; "
                         "two append handles on one file: every interleaving of <= %d write/flush/drop calls (informational, outside the single-handle statement). "
                         "non-trivial = a read hit the end / a seek left [0, len] or failed (read side), at least one byte was written (write side)"
                         % ("3 operations from the full domain (offsets -5..5) and of 4 operations with offsets Current -3..3, End -4..2 (lengths 0 and 3)" if long
                            else "3 operations with offsets Current -3..3, End -4..2 and of 2 operations with offsets -5..5",
                            10 if long else 6, 6 if long else 4, 4 if long else 3, 6 if long else 4)))


def replay(path):
    replay_record(path, "Trace_Handle")
