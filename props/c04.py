"""C04 - Memfs operations are atomic and deadlock-free under concurrent use."""
import json, os
import vlib
from vlib import Outcome, Stall, sub
from props import vfsrun
from props.common import replay_record


def sched(out, label, args, nworkers=8, chunk=400, stall_s=30):
    vlib.build("sched")
    d = sub("sched-" + label)
    pe = os.path.join(d, "penv.json")
    json.dump(vfsrun.PENV, open(pe, "w"))
    try:
        files = vlib.run_workers("sched", list(args), nworkers, d, label, stall_s=stall_s, env={"HOME": "/h"}, clean_env=True)
    except Stall as s:
        vlib.stall_violation(out, s, "sched:" + label)
        return
    chunks = vlib.split_chunks(files, d, label + "c", chunk)
    checked, classes = vlib.tlc_validate("Trace_Conc", chunks, extra_env=dict(PENV=pe))
    out.absorb("Trace_Conc", checked, classes, label=label)
    out.cov["schedules"] = out.cov.get("schedules", 0) + checked
    if chunks:
        r = vlib.read_line(chunks[0], 3)
        if r:
            g = json.loads(r)
            if "prog" in g:
                out.sample(dict(prog=[[c["op"] + ":" + "".join(c["a"]) for c in t] for t in g["prog"]], sched=g["sched"], gates=g["gates"],
                                res=[[x["o"] for x in t] for t in g["res"]]))


def run(tier, seed):
    out = Outcome("C04", tier, seed)
    thorough = tier == "thorough"
    # (a) design level: every interleaving of Invoke / critical-section steps of every 2-thread program of the bound
    out.add_mc("MemfsConc" + ("" if thorough else "_Q"), vlib.tlc_mc("MemfsConc", "MemfsConc.cfg" if thorough else "MemfsConc_Q.cfg", workers=8, coverage=False))
    out.add_mc("LockProto", vlib.tlc_mc("LockProto", workers=4))
    # negative controls: the decomposition the unrepaired write_all/append_all had, and nested acquisition, MUST be rejected
    neg = [vlib.tlc_mc("MemfsConc", "MemfsConc_split.cfg", workers=4, coverage=False, expect_violation=True),
           vlib.tlc_mc("LockProto", "LockProto_nested.cfg", workers=4, coverage=False, expect_violation=True)]
    out.cov["negative_controls"] = [dict(config=c, violated=n["violated"]) for c, n in zip(["MemfsConc_split", "LockProto_nested"], neg)]
    # the safety half of the lock protocol for behaviours of ANY length (TLC bounds the number of critical sections): Apalache discharges
    # TypeOK /\ MutualExclusion /\ NoNestedAcquire /\ NoDeadlock as an inductive invariant of LockProtoInd (4 threads); LockProtoIndN
    # (a thread may re-acquire a read guard) MUST be rejected.  An extra: nothing else depends on it.
    out.cov["apalache_inductive"] = [vlib.apalache_inductive("LockProtoInd"), vlib.apalache_inductive("LockProtoIndN", expect_violation=True)]
    # (b) the real code under the controlled scheduler (hooks): guard sequence of every call alone, every interleaving of
    #     every 2-thread x 1-call program, sampled deeper programs (all their interleavings), uncontrolled stress
    sched(out, "guards", ["--mode", "guards"], nworkers=1)
    sched(out, "all2x1", ["--mode", "all2x1"], nworkers=8)
    n22, n31 = (1500, 600) if thorough else (96, 48)
    sched(out, "s2x2", ["--mode", "sample", "--shape", "2x2", "--n", str(n22), "--seed", str(seed)], nworkers=12, chunk=700)
    sched(out, "s3x1", ["--mode", "sample", "--shape", "3x1", "--n", str(n31), "--seed", str(seed)], nworkers=12, chunk=700)
    if thorough:
        sched(out, "s2x3", ["--mode", "sample", "--shape", "2x3", "--n", "60", "--cap", "2000", "--seed", str(seed)], nworkers=12, chunk=700)
    rounds, calls = (64, 400) if thorough else (8, 250)
    sched(out, "stress", ["--mode", "stress", "--threads", "12", "--calls", str(calls), "--rounds", str(rounds), "--seed", str(seed)], nworkers=8, chunk=1)
    out.assumptions += ["interleavings are enumerated at critical-section granularity: complete for the shared state because MemfsInner is reachable only through a guard (Rust's type system); "
                        "read-read orderings are not distinguished", "handles from write()/append() write back at flush/drop under their own guards: outside C04's single-step list (C07)"]
    out.finish(dict(rule="all 576 two-thread one-call programs over a 24-call alphabet (every interleaving of invoke and guard gates, on real threads sharing one real Memfs), "
                         "seeded 2x2 / 3x1%s programs with all their interleavings, free-running 12-thread stress runs ordered by stamps taken under the lock; "
                         "every schedule judged by TLC (one guard per single-step call, sequential outcome in critical-section order, well-formed quiescent state); non-trivial = all" % (" / 2x3" if thorough else "")))


def replay(path):
    replay_record(path, "Trace_Conc")
