"""C19 - core iterator, string, option and defer helpers match their plain definitions."""
import json, os
import vlib
from vlib import Outcome, Stall, sub
from props.common import replay_record

FINDINGS = os.path.join(os.path.dirname(os.path.abspath(__file__)), "c19_findings.json")


def run(tier, seed):
    out = Outcome("C19", tier, seed)
    # proposed known findings of this property (merged into known_findings.json later)
    if os.path.exists(FINDINGS):
        have = {f["id"] for f in out.findings}
        out.findings += [f for f in json.load(open(FINDINGS))["findings"]
                         if "C19" in f.get("properties", []) and f.get("status", "open") == "open" and f["id"] not in have]
    thorough = tier == "thorough"
    # (a) design level: laws of Slice/Drop/TrimSuffixStr/ToBool on all inputs of the bound + the take_while_p adaptor
    #     machine; the defer machine from every program shape of the bound
    out.add_mc("MC_CoreExt", vlib.tlc_mc("MC_CoreExt", "MC_CoreExt.cfg", workers=8))
    out.add_mc("MC_Defer", vlib.tlc_mc("MC_Defer", "MC_Defer.cfg", workers=8))
    out.add_mc("MC_Defer_W", vlib.tlc_mc("MC_Defer", "MC_Defer_W.cfg", workers=8))
    if thorough:
        out.add_mc("MC_Defer_T", vlib.tlc_mc("MC_Defer", "MC_Defer_T.cfg", workers=8))
    # (b) implementation -> specification: the real helpers over the same domains, every record judged by TLC
    vlib.build("coreext")
    d = sub("coreext")
    try:
        files = vlib.run_workers("coreext", ["--set", "all", "--tier", tier, "--seed", str(seed)], 8, d, "coreext", stall_s=30)
    except Stall as s:
        vlib.stall_violation(out, s, "coreext")
        files = []
    chunks = vlib.split_chunks(files, d, "coreext", 10000)
    checked, classes = vlib.tlc_validate("Trace_CoreExt", chunks)
    out.absorb("Trace_CoreExt", checked, classes, label="coreext")
    if chunks:
        out.sample_from(chunks[0], (1, 600, 1700, 2500, 6000, 9500))
    out.assumptions += ["sequences are Vec<i32>::into_iter() and Range<i32> (both double-ended and cloneable); elements are 0..len-1",
                        "a character is a Unicode scalar value (Rust char); the spec counts them from the UTF-8 bytes of the input",
                        "defer programs: <= 3 nesting levels written as real nested blocks of one function, guard 1 / nested scope 1 / guard 2 / nested scope 2 / exit per scope; "
                        "closures that themselves panic are not part of the property"]
    out.finish(dict(rule="slice/drop: lengths 0..8 x indices -10..10 (exhaustive, two iterator types) + seeded random lengths <= 40 with indices far beyond the ends; "
                         "first..consume: all sequences <= %d over 3 values; take_while_p: all sequences <= %d over 0..3 x 5 thresholds + a non-monotone predicate, next() and fold() routes; "
                         "size/to_bool: all strings <= 4 over 13 symbols (incl. e-acute and the letters of 'false' in both cases) + all 10^5 five-letter words over fFaAlLsSeE + special-casing characters + random strings with 2/3/4-byte characters, str and String impls; "
                         "trim_suffix: all pairs (<=4, <=2) over 5 symbols + constructed stem+suffix over 1..4-byte characters; "
                         "defer: every program shape with <=2/<=1 and <=1/<=2 nested scopes per level at depth <= 3 (81 099 programs) + seeded random shapes with <= 2 nested scopes everywhere, "
                         "run with real blocks / return / panic! through both defer() and defer!; "
                         "non-trivial = proper non-empty sub-sequence / >= 2 items / prefix and rest both non-empty / multi-byte or falsey string / suffix really present / >= 2 guards created"
                         % (4 if thorough else 3, 5 if thorough else 4),
                    exhaustive=True))


def replay(path):
    replay_record(path, "Trace_CoreExt")
