"""Building blocks shared by several property checks."""
import json, os
import vlib
from vlib import Outcome, Stall, sub, log


def strings_run(out, sets, tier, seed, nworkers=8, module="Trace_Strings", chunk=40000, extra_args=()):
    """Drive the pure-helper driver for the given input sets and judge every record with TLC."""
    vlib.build("strings")
    d = sub("strings")
    for st in sets:
        try:
            files = vlib.run_workers("strings", ["--set", st, "--tier", tier, "--seed", str(seed)] + list(extra_args), nworkers, d, st)
        except Stall as s:
            vlib.stall_violation(out, s, "strings:" + st)
            continue
        chunks = vlib.split_chunks(files, d, st, chunk)
        checked, classes = vlib.tlc_validate(module, chunks)
        out.absorb(module, checked, classes, label=st)
        if chunks:
            out.sample_from(chunks[0], (2, 500, 20000))


def replay_record(path, module):
    """Re-judge the record stored in a replay file with the trace validator."""
    rp = json.load(open(path))
    d = sub("replay")
    f = os.path.join(d, "replay.w00.ndjson")
    with open(f, "w") as fh:
        fh.write(json.dumps(rp["record"]) + "\n")
    pe = os.path.join(d, "penv.json")
    with open(pe, "w") as fh:
        json.dump(rp.get("penv") or dict(vars=[dict(n=list("HOME"), v=list("/h"))]), fh)
    checked, classes = vlib.tlc_validate(rp.get("validator") if rp.get("validator", "").startswith("Trace_") else module, [f], extra_env=dict(PENV=pe))
    for c in classes:
        print(c["c"], c["n"])
    bad = [c for c in classes if c["c"][0] == "BAD"]
    if bad:
        print("VIOLATION property=%s replay=%s" % (rp["property"], path))
        raise SystemExit(1)
    raise SystemExit(0)


def env_runs(out, mode, envs, args, module="Trace_Env", parallel=16, chunk=30000, label=None):
    """One driver process per environment (explicit, nothing inherited); chunks are judged with the
    environment handed to the validator through PENV."""
    from concurrent.futures import ThreadPoolExecutor
    vlib.build("envprobe")
    d = sub("env-" + mode)
    penv = {}

    def one(i):
        e = envs[i]
        od = os.path.join(d, "e%03d" % i)
        os.makedirs(od, exist_ok=True)
        pe = os.path.join(od, "penv.json")
        with open(pe, "w") as fh:
            json.dump(dict(vars=[dict(n=list(k), v=list(v)) for k, v in sorted(e.items())] or [dict(n=list("__NONE__"), v=[])]), fh)
        files = vlib.run_workers("envprobe", ["--mode", mode] + list(args) + ["--sandbox", os.path.join(od, "sb")], 1, od, "e%03d" % i, env=e, clean_env=True)
        chunks = vlib.split_chunks(files, od, "e%03d" % i, chunk)
        for c in chunks:
            penv[c] = pe
        # records written after the driver changed HOME inside the process (--rehome): judged with the changed environment
        for f in files:
            f2 = f + ".phase2"
            if os.path.exists(f2) and "--rehome" in args:
                e2 = dict(e, HOME=args[list(args).index("--rehome") + 1])
                pe2 = os.path.join(od, "penv2.json")
                with open(pe2, "w") as fh:
                    json.dump(dict(vars=[dict(n=list(k), v=list(v)) for k, v in sorted(e2.items())]), fh)
                c2 = os.path.join(od, "e%03d.phase2.ndjson" % i)
                os.rename(f2, c2)
                penv[c2] = pe2
                chunks.append(c2)
        return chunks

    allchunks = []
    try:
        with ThreadPoolExecutor(max_workers=parallel) as ex:
            for cs in ex.map(one, range(len(envs))):
                allchunks += cs
    except Stall as s:
        vlib.stall_violation(out, s, "envprobe:" + mode)
        return
    checked, classes = vlib.tlc_validate(module, allchunks, extra_env=lambda c: dict(PENV=penv[c]))
    out.absorb(module, checked, classes, label=label or mode)
    if allchunks:
        out.sample_from(allchunks[len(allchunks) // 2], (3, 700, 9000))
    out.cov["environments"] = out.cov.get("environments", 0) + len(envs)
