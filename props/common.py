"""Building blocks shared by several property checks."""
import json, os
import vlib
from vlib import Outcome, Stall, sub, log


def strings_run(out, sets, tier, seed, nworkers=8, module="Trace_Strings", chunk=40000, extra_args=()):
    """Drive the pure-helper driver for the given input sets and judge every record with TLC."""
    vlib.build("strings")
    d = sub("strings")
    for st in sets:
        try:
            files = vlib.run_workers("strings", ["--set", st, "--tier", tier, "--seed", str(seed)] + list(extra_args), nworkers, d, st)
        except Stall as s:
            vlib.stall_violation(out, s, "strings:" + st)
            continue
        chunks = vlib.split_chunks(files, d, st, chunk)
        checked, classes = vlib.tlc_validate(module, chunks)
        out.absorb(module, checked, classes, label=st)
        if chunks:
            out.sample_from(chunks[0], (2, 500, 20000))


def replay_record(path, module):
    """Re-judge the record stored in a replay file with the trace validator."""
    rp = json.load(open(path))
    d = sub("replay")
    f = os.path.join(d, "replay.w00.ndjson")
    with open(f, "w") as fh:
        fh.write(json.dumps(rp["record"]) + "\n")
    checked, classes = vlib.tlc_validate(module, [f])
    for c in classes:
        print(c["c"], c["n"])
    bad = [c for c in classes if c["c"][0] == "BAD"]
    if bad:
        print("VIOLATION property=%s replay=%s" % (rp["property"], path))
        raise SystemExit(1)
    raise SystemExit(0)
