"""C15 - path helpers obey their inverse and containment laws on all UTF-8 input."""
import vlib
from vlib import Outcome
from props.common import strings_run, replay_record


def run(tier, seed):
    out = Outcome("C15", tier, seed)
    out.add_mc("MC_PathLaws", vlib.tlc_mc("MC_PathLaws", "MC_PathLaws.cfg", workers=8))
    out.add_mc("MC_PathLaws_P", vlib.tlc_mc("MC_PathLaws", "MC_PathLaws_P.cfg", workers=8))
    strings_run(out, ["helpers", "protocol"], tier, seed, nworkers=12)
    out.finish(dict(rule="all strings/pairs up to the length bound over {/ . : a e-acute CJK} (exhaustive) + constructed prefix/suffix pairs + seeded random longer ones; "
                         "non-trivial = the operand actually occurs in the path (binary helpers) / the path has more than one component (unary helpers)"))


def replay(path):
    replay_record(path, "Trace_Strings")
