"""C17 - expand() substitutes ~ and environment variables exactly, in every environment."""
import itertools
import vlib
from vlib import Outcome
from props.common import env_runs, replay_record

VALUES = [None, "", "v", "/x/y"]


def envs():
    out = []
    for h, v, w in itertools.product(VALUES, VALUES, VALUES):
        e = {}
        if h is not None:
            e["HOME"] = h
        if v is not None:
            e["V"] = v
        if w is not None:
            e["W"] = w
        out.append(e)
    return out


def run(tier, seed):
    out = Outcome("C17", tier, seed)
    out.add_mc("MC_Expand", vlib.tlc_mc("MC_Expand", workers=8))
    env_runs(out, "expand", envs(), ["--tier", tier, "--seed", str(seed)])
    out.finish(dict(rule="64 environments (HOME, V, W each unset / empty / plain / with separators), each its own process with nothing inherited, x all templates of <= %d segments "
                         "from {a ~ $V ${V} $W $ / } { $HOME .} (exhaustive) + seeded random templates; non-trivial = the template contains ~ or $ or is not already clean" % (5 if tier == "thorough" else 4)))


def replay(path):
    replay_record(path, "Trace_Env")
