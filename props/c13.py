"""C13 - The Vfs and VfsEntry enums are transparent wrappers."""
import json, os, re
import vlib
from vlib import Outcome
from props import vfsrun
from props.common import replay_record


def trait_methods():
    src = open("/repo/src/sys/fs/vfs.rs").read()
    body = src[src.index("pub trait VirtualFileSystem"):]
    body = body[:body.index("\n}\n")]
    return sorted(set(re.findall(r"\n    fn (\w+)", body)))


PARTIAL_OPS = {"chmod", "chmod_b", "chown", "chown_b", "copy", "copy_b", "remove_all"}


def compare(out, label, fa, fb):
    """The two transcripts (direct / through the enum) must be equal event for event."""
    n = 0
    for a, b in zip(sorted(fa), sorted(fb)):
        with open(a) as x, open(b) as y:
            for la, lb in zip(x, y):
                ra, rb = json.loads(la), json.loads(lb)
                ra.pop("route", None); rb.pop("route", None)
                for i, (sa, sb) in enumerate(zip(ra["steps"], rb["steps"])):
                    n += 1
                    if sa != sb and sa["c"] == sb["c"] and sa["r"]["o"] not in ("ok", "panic") and sb["r"]["o"] not in ("ok", "panic") and sa["c"]["op"] in PARTIAL_OPS:
                        # a failing multi-entry call may stop at a different entry on the two instances (hash order decides which
                        # obstacle a traversal meets first: another error kind, another partial result):
                        # admissible for each route (judged by Trace_Vfs), but the two histories cannot be compared any further
                        out.cov["histories_cut_at_partial_result"] = out.cov.get("histories_cut_at_partial_result", 0) + 1
                        break
                    if (sa != sb and sa["c"] == sb["c"] and sa["r"] == sb["r"] and sa["c"]["op"] in ("copy", "copy_b", "copy_seq") and sa["same"] == sb["same"] == "f"
                            and sa["post"]["e"] == sb["post"]["e"] and [f["p"] for f in sa["post"]["f"]] == [f["p"] for f in sb["post"]["f"]]):
                        # a copy into the source's own subtree may read bytes it has just written (D12; which ones depends on the
                        # hash order of the instance): same entries, different bytes - each route is judged by Trace_Vfs, the two
                        # histories cannot be compared any further
                        out.cov["histories_cut_at_overlapping_copy"] = out.cov.get("histories_cut_at_overlapping_copy", 0) + 1
                        break
                    if sa != sb:
                        out.add_violation(["route-differs", label, sa["c"]["op"], "direct:" + sa["r"]["o"], "enum:" + sb["r"]["o"]],
                                          record=dict(direct=sa, enum=sb, history_calls=[s["c"] for s in ra["steps"][:i]][-30:]), validator="route-compare")
                        return n
    return n


def run(tier, seed):
    out = Outcome("C13", tier, seed)
    thorough = tier == "thorough"
    vfsrun.mc_vfs(out, "MC_Vfs")          # the specification has no notion of route: both transcripts are judged by the same operators
    n, ln = (200, 200) if thorough else (16, 120)
    total = 0
    for mode, args in (("rand", ["--n", str(n), "--len", str(ln), "--seed", str(seed)]), ("links", ["--seed", str(seed)]), ("data", ["--n", str(max(4, n // 4)), "--len", "40", "--seed", str(seed)])):
        fa = vfsrun.hist(out, mode + "-direct", mode, args, route="direct", recs_per_chunk=40 if mode == "links" else 3)
        fb = vfsrun.hist(out, mode + "-enum", mode, args, route="enum", recs_per_chunk=40 if mode == "links" else 3)
        total += compare(out, mode, fa, fb)
    out.cov["route_pairs_compared"] = total
    # the wrapper must also keep every single-step call ONE critical section: the controlled scheduler through Vfs::Memfs
    from props import c04
    c04.sched(out, "guards-enum", ["--mode", "guards", "--route", "enum"], nworkers=1)
    c04.sched(out, "all2x1-enum", ["--mode", "all2x1", "--route", "enum", "--stride", "3"], nworkers=8)
    # static table: every trait method must be exercised through both routes by some driver
    covered = {"mkfile", "mkfile_m", "mkdir_p", "mkdir_m", "write_all", "append_all", "write_lines", "append_lines", "append_line", "remove", "remove_all",
               "move_p", "copy", "copy_b", "symlink", "set_cwd", "chmod", "chmod_b", "chown", "chown_b", "abs", "cwd", "root", "exists", "is_dir", "is_file",
               "is_symlink", "is_symlink_dir", "is_symlink_file", "is_exec", "is_readonly", "mode", "uid", "gid", "owner", "read_all", "read_lines", "read",
               "readlink", "readlink_abs", "paths", "dirs", "files", "all_paths", "all_dirs", "all_files", "entry"}
    elsewhere = {"entries": "C08", "config_dir": "C18", "write": "C07", "append": "C07", "upcast": "this check (Vfs::memfs() is built by upcast)"}
    tm = trait_methods()
    missing = [m for m in tm if m not in covered and m not in elsewhere]
    out.cov["trait_methods"] = dict(total=len(tm), through_both_routes_here=len([m for m in tm if m in covered]), elsewhere=elsewhere, not_exercised=missing)
    if missing:
        out.add_violation(["trait-method-not-routed", ",".join(missing)], record=dict(methods=missing), validator="method-table")
    # handles through the enum: the same write/flush/drop and read/seek sequences on each backend directly and via Vfs::stdfs() /
    # Vfs::memfs(), observer readings after every write included; TLC requires identical transcripts
    try:
        vlib.build("handles")
        dh = vlib.sub("handles-route")
        fs = vlib.run_workers("handles", ["--set", "wr", "--tier", tier, "--seed", str(seed), "--sandbox", os.path.join(dh, "sb")], 4, dh, "wr")
        checked, classes = vlib.tlc_validate("Trace_Handle", vlib.split_chunks(fs, dh, "wrc", 2500))
        out.absorb("Trace_Handle", checked, classes, label="handles direct vs enum")
    except vlib.Stall as st:
        vlib.stall_violation(out, st, "handles:wr")
    # config_dir through the enum (xdgprobe asks Vfs::memfs() / Vfs::stdfs() and the backend directly): the environments in which
    # the user's directory cannot be determined but a system directory holds the file, and the ordinary ones
    from props import c18
    specs = [(dict(HOME=h, XDG_CONFIG_HOME=ch, XDG_CONFIG_DIRS=dirs), 1, "route")
             for h in (None, "@/home", "") for ch in (None, "@/ch", "rel/ch") for dirs in (None, "@/s1", "@/a::@/b:")]
    dx = vlib.sub("c13-xdg")
    try:
        envs, files = c18.drive(out, specs, dx, parallel=8)
        penv = os.path.join(dx, "penv.json")
        with open(penv, "w") as fh:
            json.dump(dict(envs=[c18.penv_obj(e) for e in envs]), fh)
        chunks, _n = c18.merge_chunks(files, dx, nchunks=4)
        checked, classes = vlib.tlc_validate("Trace_Xdg", chunks, extra_env=dict(PENV=penv))
        out.absorb("Trace_Xdg", checked, classes, label="config_dir direct and through the enum")
    except vlib.Stall as st:
        vlib.stall_violation(out, st, "xdgprobe")
    # every call of the C02 grid on a sample of its trees, once on the backend types and once through the Vfs enum (real filesystem
    # sandbox and Memfs): results - error kinds included - and the observed trees of the real-filesystem side must be identical
    try:
        vlib.build("grid")
        runs = {}
        for route in ("direct", "enum"):
            dg = vlib.sub("grid-route")            # the same sandbox path for both routes (absolute link texts contain it)
            runs[route] = vlib.run_workers("grid", ["--tier", tier, "--sandbox", os.path.join(dg, "sb"), "--stride", "7" if thorough else "37", "--route", route], 8, dg, route,
                                           stall_s=30, env={"HOME": "/h"}, clean_env=True)
        nsteps = 0
        done = False
        for fa, fb in zip(sorted(runs["direct"]), sorted(runs["enum"])):
            if done:
                break
            with open(fa) as x, open(fb) as y:
                for la, lb in zip(x, y):
                    ra, rb = json.loads(la), json.loads(lb)
                    for sa, sb in zip(ra["steps"], rb["steps"]):
                        nsteps += 1
                        if sa["c"] == sb["c"] and (sa["std"] != sb["std"] or sa["mem"]["r"] != sb["mem"]["r"]):
                            side = "stdfs" if sa["std"] != sb["std"] else "memfs"
                            a, b = (sa["std"], sb["std"]) if side == "stdfs" else (sa["mem"], sb["mem"])
                            out.add_violation(["route-differs", "grid:" + side, sa["c"]["op"], "direct:" + a["r"]["o"], "enum:" + b["r"]["o"]],
                                              record=dict(call=sa["c"], direct=a, enum=b, tree=ra.get("tree")), validator="route-compare")
                            done = True
                            break
                    if done:
                        break
        out.cov["grid_steps_compared_direct_vs_enum"] = nsteps
    except vlib.Stall as st:
        vlib.stall_violation(out, st, "grid:route")
    out.finish(dict(rule="the same seeded histories (random with respelled arguments, link grid, data) executed on Memfs directly and through Vfs::Memfs; both transcripts validated by "
                         "Trace_Vfs and compared event for event; every entry() result also carries the VfsEntry accessors vs the wrapped entry's accessors (wrap flag); "
                         "Vfs::Stdfs routing is compared in C02"))


def replay(path):
    replay_record(path, "Trace_Vfs")
