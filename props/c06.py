"""C06 - File contents round-trip exactly: write truncates, append extends, read agrees."""
import vlib
from vlib import Outcome
from props import vfsrun
from props.common import replay_record


def run(tier, seed):
    out = Outcome("C06", tier, seed)
    thorough = tier == "thorough"
    out.add_mc("MC_Data", vlib.tlc_mc("MC_Data", workers=8, coverage=False))       # line helpers round trip, append keeps prefix
    vfsrun.mc_vfs(out, "MC_Vfs")                                                   # WriteLaw / AppendLaw / files independent on every reachable state
    vfsrun.bfs(out, "data2", ["--links", "0", "--maxdata", "2"] + ([] if thorough else ["--maxstates", "700"]), groups_per_chunk=60)
    n, ln = (300, 120) if thorough else (24, 60)
    vfsrun.hist(out, "data", "data", ["--n", str(n), "--len", str(ln), "--seed", str(seed)], recs_per_chunk=19 if thorough else 2)
    out.finish(dict(rule="seeded histories interleaving write_all/append_all/write_lines/append_line(s)/copy/move_p/remove over four files with empty, multi-byte, invalid UTF-8, "
                         "newline-laden and multi-kilobyte data, reading two files back (read handle + read_all/read_lines) after every step; BFS with data up to 2 bytes; "
                         "handle-based writes are covered by C07; non-trivial = state changed or call failed"))


def replay(path):
    replay_record(path, "Trace_Vfs")
