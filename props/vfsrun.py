"""BFS / history drivers over the real Memfs + Trace_Vfs validation (shared by C01 C03 C06 C09 C10 C11 C13)."""
import glob, json, os
import vlib
from vlib import Stall, sub, log

PENV = dict(vars=[dict(n=list("HOME"), v=list("/h"))])


def bfs(out, label, args, threads=16, groups_per_chunk=12, stall_s=30):
    """Run the BFS driver, validate every step with Trace_Vfs; returns the driver's summary (or None)."""
    vlib.build("bfs")
    d = sub("bfs-" + label)
    pe = os.path.join(d, "penv.json")
    json.dump(PENV, open(pe, "w"))
    try:
        vlib.run_workers("bfs", list(args) + ["--threads", str(threads)], 1, d, label, stall_s=stall_s, env={"HOME": "/h"}, clean_env=True)
    except Stall as s:
        vlib.stall_violation(out, s, "bfs:" + label)
        return None
    files = sorted(glob.glob(os.path.join(d, label + ".w00.t*.ndjson")))
    summary = json.load(open(os.path.join(d, label + ".w00.summary.json")))
    chunks = vlib.split_chunks(files, d, label + "c", groups_per_chunk)
    checked, classes = vlib.tlc_validate("Trace_Vfs", chunks, extra_env=dict(PENV=pe))
    out.absorb("Trace_Vfs", checked, classes, label=label, grouped=True)
    out.cov.setdefault("impl_bfs", []).append(dict(label=label, **summary))
    if chunks:
        r = vlib.read_line(chunks[len(chunks) // 2], 1)
        if r:
            g = json.loads(r)
            for s in g["steps"]:
                if s["same"] == "f":
                    out.sample(dict(pre=g["pre"], step=s))
                    break
    return summary


def hist(out, label, mode, args, nworkers=12, recs_per_chunk=4, stall_s=30, home="/h", route="direct"):
    """Histories (chain records) on the real Memfs, judged step by step by Trace_Vfs."""
    vlib.build("hist")
    d = sub("hist-" + label)
    pe = os.path.join(d, "penv.json")
    json.dump(dict(vars=[dict(n=list("HOME"), v=list(home))]), open(pe, "w"))
    try:
        files = vlib.run_workers("hist", ["--mode", mode, "--route", route] + list(args), nworkers, d, label, stall_s=stall_s, env={"HOME": home}, clean_env=True)
    except Stall as s:
        vlib.stall_violation(out, s, "hist:" + label)
        return []
    chunks = vlib.split_chunks(files, d, label + "c", recs_per_chunk)
    checked, classes = vlib.tlc_validate("Trace_Vfs", chunks, extra_env=dict(PENV=pe))
    out.absorb("Trace_Vfs", checked, classes, label=label, grouped=True)
    out.cov["histories"] = out.cov.get("histories", 0) + vlib.count_lines(files)
    if files:
        r = vlib.read_line(files[0], 1)
        if r:
            g = json.loads(r)
            out.sample(dict(history_prefix=[s["c"]["op"] + ":" + "".join(s["c"]["a"]) for s in g["steps"][:12]]))
    return files


def mc_vfs(out, cfg, workers=8):
    res = vlib.tlc_mc("MC_Vfs", cfg + ".cfg", workers=workers, coverage=False)
    out.add_mc(cfg, res)
    return res


def crosscheck(out, label, summary, mc):
    """Reachable-set sandwich: every real transition was accepted by the specification (so real states are
    specification states by induction); equal counts then make the two reachable sets equal."""
    if summary is None:
        return
    cc = dict(label=label, real_states=summary["states"], spec_states=mc["distinct"], equal=summary["states"] == mc["distinct"])
    out.cov.setdefault("reachable_set_crosscheck", []).append(cc)
    if summary["states"] != mc["distinct"]:
        out.add_violation(["reachable-set", label, "real=%d" % summary["states"], "spec=%d" % mc["distinct"]], record=cc, validator="crosscheck")


def builder_programs(out, tier, seed):
    """every builder program of <= 3 (thorough 4) setter calls (chmod_b, chown_b, copy_b) on one fixed tree, judged through the folds"""
    vlib.build("chmoddrv")
    d = sub("prog")
    pe = os.path.join(d, "penv.json")
    json.dump(PENV, open(pe, "w"))
    try:
        files = vlib.run_workers("chmoddrv", ["--set", "prog", "--tier", tier, "--seed", str(seed)], 4, d, "prog", stall_s=30, env={"HOME": "/h"}, clean_env=True)
    except Stall as s:
        vlib.stall_violation(out, s, "chmoddrv:prog")
        return
    chunks = vlib.split_chunks(files, d, "progc", 2)
    checked, classes = vlib.tlc_validate("Trace_Vfs", chunks, extra_env=dict(PENV=pe))
    out.absorb("Trace_Vfs", checked, classes, label="builder programs (exhaustive)", grouped=True)
