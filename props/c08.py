"""C08 - traversal yields exactly the selected entries, once, in order, and terminates; listing helpers."""
import json, os
import vlib
from vlib import Outcome, Stall, sub
from props.common import replay_record

PROPOSED = os.path.join(os.path.dirname(os.path.abspath(__file__)), "c08_findings.json")
DEQUE = dict(JAVA_TOOL_OPTIONS="-Dtlc2.tool.queue.IStateQueue=StateDeque")


def run(tier, seed):
    out = Outcome("C08", tier, seed)
    # proposed known findings of this property (until they are merged into known_findings.json)
    have = {f["id"] for f in out.findings}
    out.findings += [f for f in json.load(open(PROPOSED))["findings"] if f["id"] not in have and f.get("status", "open") == "open"]
    long = tier == "thorough"

    # ---- design level: the DFS machine of Traversal.tla explored from every tree x root x options
    if long:
        out.add_mc("MC_Traversal_T", vlib.tlc_mc("MC_Traversal", "MC_Traversal_T.cfg", workers=8, coverage=False, extra_env=DEQUE, timeout=3000))
    else:
        out.add_mc("MC_Traversal", vlib.tlc_mc("MC_Traversal", "MC_Traversal.cfg", workers=8, coverage=False, extra_env=DEQUE))
    # the same model, thinned, with -coverage: per-action counts (coverage slows TLC 4x, hence the separate run)
    out.add_mc("MC_Traversal_C", vlib.tlc_mc("MC_Traversal", "MC_Traversal_C.cfg", workers=8, coverage=True, extra_env=DEQUE))

    # ---- binding: the real Entries iterator on Memfs and Stdfs, judged by Trace_Traversal
    vlib.build("traverse")
    d = sub("traverse")
    nworkers = 8
    sets = [("ex", "all trees {a,b} x depth 2, <= 2 links", []), ("rnd", "random trees <= 12 entries", []),
            ("wide", "one directory of 261 entries + link to it (scale: beyond 255 entries per listing)", [])]
    for st, label, extra in sets:
        try:
            files = vlib.run_workers("traverse", ["--set", st, "--tier", tier, "--seed", str(seed), "--sandbox", os.path.join(d, "sandbox-" + st)] + extra,
                                     nworkers, d, st, stall_s=30)
        except Stall as s:
            vlib.stall_violation(out, s, "traverse:" + st)
            continue
        chunks = vlib.split_chunks(files, d, st, 2 if st == "wide" else (6000 if not long else 25000))
        checked, classes = vlib.tlc_validate("Trace_Traversal", chunks)
        out.absorb("Trace_Traversal", checked, classes, label=label)
        if chunks:
            out.sample_from(chunks[0], (2, 40, 900))
    out.finish(dict(rule="REAL Entries iterator: every tree over names {a,b} x depth 2 with <= 2 links (targets: any namespace path incl. '/', itself, another link, a missing path; never through a link) "
                         "built on a fresh Memfs (mkdir_p/mkfile/symlink) AND materialised with std::fs in a tmpfs sandbox and traversed through Stdfs, x every existing root x the option cross-product "
                         "(4 filters incl. a custom filter_p x follow x min 0..2 x max {0,1,2,MAX} in both builder call orders x 4 sort modes x contents_first = 960 combinations, "
                         "thinned systematically: every %s combination for link-free / 1-link / 2-link trees, phase rotating with tree and root) x descriptor caps {1,2,50} (hook verif_max_descriptors), "
                         "iteration cap 10000 (=> hang), every call under catch_unwind; + seeded random trees of <= 12 entries (names of varying length incl. multi-byte, <= 3 links) x random roots/options; "
                         "listing helpers paths/dirs/files/all_* and exists/is_dir/is_file/is_symlink on every path of every tree on both backends. "
                         "Each sequence is accepted by TLC iff ValidOrder(seq, tree, root, opts) of Traversal.tla holds (bag = Selected, every subtree block contiguous, parent first / last, sibling blocks ordered); "
                         "fully sorted traversals must be one sequence over the three caps and both backends. non-trivial = a sequence of >= 2 items (traversals), a tree with >= 1 entry (listings)"
                         % ("2nd/12th/64th" if long else "16th/128th/1024th")))


def replay(path):
    replay_record(path, "Trace_Traversal")
