//! Common plumbing for the conformance drivers: ASCII-only ND-JSON output, result rendering,
//! panic capture, progress file for the supervisor, resource limits.
use std::{
    fs::File,
    io::{BufWriter, Write},
    os::unix::fs::FileExt,
    panic::{self, AssertUnwindSafe},
    path::{Path, PathBuf},
};

use rivia::prelude::*;
pub use serde_json::{json, Map, Value};

pub mod memproj;
pub mod ops;


/// A string as an array of 1-character strings (TLC cannot index into strings)
pub fn chars(s: &str) -> Value {
    Value::Array(s.chars().map(|c| Value::String(c.to_string())).collect())
}

pub fn pchars(p: &Path) -> Value {
    match p.to_str() {
        Some(s) => chars(s),
        None => json!(["<non-utf8>"]),
    }
}

pub fn bytes(b: &[u8]) -> Value {
    Value::Array(b.iter().map(|x| json!(*x)).collect())
}

/// Variant name of an error: `Path::IsNotDir`, `Io::NotFound`, `Var::NotPresent`, ...
pub fn err_kind(e: &RvError) -> String {
    fn head(s: String) -> String {
        s.split(|c: char| c == '(' || c == ' ' || c == '{').next().unwrap_or("").to_string()
    }
    match e {
        RvError::Core(x) => format!("Core::{}", head(format!("{:?}", x))),
        RvError::File(x) => format!("File::{}", head(format!("{:?}", x))),
        RvError::Io(x) => format!("Io::{:?}", x.kind()),
        RvError::Iter(x) => format!("Iter::{}", head(format!("{:?}", x))),
        RvError::Nix(x) => format!("Nix::{:?}", x),
        RvError::Path(x) => format!("Path::{}", head(format!("{:?}", x))),
        RvError::String(x) => format!("String::{}", head(format!("{:?}", x))),
        RvError::SystemTime(_) => "SystemTime".to_string(),
        RvError::User(x) => format!("User::{}", head(format!("{:?}", x))),
        RvError::Utf8(_) => "Utf8".to_string(),
        RvError::Var(x) => format!("Var::{}", head(format!("{:?}", x))),
        RvError::Vfs(x) => format!("Vfs::{}", head(format!("{:?}", x))),
    }
}

// RES = {"o": "ok" | "<error kind>" | "panic", "v": value ([] unless ok)} (+ "m": panic message)
pub fn r_ok(v: Value) -> Value {
    json!({"o": "ok", "v": v})
}
pub fn r_err(kind: &str) -> Value {
    json!({"o": kind, "v": []})
}
pub fn r_panic(msg: &str) -> Value {
    json!({"o": "panic", "v": [], "m": msg})
}

/// Render `RvResult<T>` with a value renderer
pub fn res<T, F: FnOnce(T) -> Value>(r: RvResult<T>, f: F) -> Value {
    match r {
        Ok(v) => r_ok(f(v)),
        Err(e) => r_err(&err_kind(&e)),
    }
}
pub fn res_path(r: RvResult<PathBuf>) -> Value {
    res(r, |p| pchars(&p))
}
pub fn res_str(r: RvResult<String>) -> Value {
    res(r, |s| chars(&s))
}
pub fn res_unit(r: RvResult<()>) -> Value {
    res(r, |_| json!([]))
}
pub fn res_bool(r: RvResult<bool>) -> Value {
    res(r, |b| json!([if b { "true" } else { "false" }]))
}
pub fn vbool(b: bool) -> Value {
    json!([if b { "true" } else { "false" }])
}

/// Run `f`; a panic becomes data
pub fn guard<R, F: FnOnce() -> R>(f: F) -> Result<R, String> {
    match panic::catch_unwind(AssertUnwindSafe(f)) {
        Ok(v) => Ok(v),
        Err(e) => {
            let msg = if let Some(s) = e.downcast_ref::<&str>() {
                s.to_string()
            } else if let Some(s) = e.downcast_ref::<String>() {
                s.clone()
            } else {
                "<non-string panic>".to_string()
            };
            Err(msg)
        },
    }
}

/// Result of a guarded call rendered through `f`; panic -> {"ok":"panic"}
pub fn gres<F: FnOnce() -> Value>(f: F) -> Value {
    match guard(f) {
        Ok(v) => v,
        Err(m) => r_panic(&m.chars().take(120).collect::<String>()),
    }
}

pub fn silence_panics() {
    if std::env::var("RVH_SHOW_PANICS").is_ok() {
        return; // debugging aid: keep the default hook
    }
    panic::set_hook(Box::new(|_| {}));
}

/// ASCII-only serialisation (non-ASCII as \uXXXX, astral as surrogate pairs)
pub fn to_ascii_json(v: &Value) -> String {
    let s = serde_json::to_string(v).unwrap();
    if s.is_ascii() {
        return s;
    }
    let mut out = String::with_capacity(s.len() + 16);
    for c in s.chars() {
        if c.is_ascii() {
            out.push(c);
        } else {
            let mut buf = [0u16; 2];
            for u in c.encode_utf16(&mut buf) {
                out.push_str(&format!("\\u{:04x}", u));
            }
        }
    }
    out
}

/// ND-JSON sink
pub struct Out {
    w: BufWriter<File>,
    pub n: u64,
}
impl Out {
    pub fn create<P: AsRef<Path>>(p: P) -> Out {
        Out { w: BufWriter::with_capacity(1 << 20, File::create(p).expect("create out")), n: 0 }
    }
    pub fn rec(&mut self, v: &Value) {
        let s = to_ascii_json(v);
        self.w.write_all(s.as_bytes()).unwrap();
        self.w.write_all(b"\n").unwrap();
        self.n += 1;
    }
    pub fn finish(mut self) -> u64 {
        self.w.flush().unwrap();
        self.n
    }
}

/// Progress marker read by the python supervisor: fixed-size slots "<id>\t<description>" (one per
/// worker thread); the supervisor kills the process when the whole file stops changing.
pub struct Progress {
    pub f: Option<File>,
}
pub const SLOT: usize = 1600;
impl Progress {
    pub fn from_env() -> Progress {
        match std::env::var("RVH_PROGRESS") {
            Ok(p) if !p.is_empty() => Progress { f: std::fs::OpenOptions::new().write(true).create(true).open(p).ok() },
            _ => Progress { f: None },
        }
    }
    pub fn mark(&self, id: u64, desc: &str) {
        self.mark_slot(0, id, desc)
    }
    pub fn mark_slot(&self, slot: usize, id: u64, desc: &str) {
        if let Some(f) = &self.f {
            let mut s = format!("{}\t{}", id, desc.replace('\n', " "));
            while s.len() > SLOT - 2 {
                s.pop();
            }
            let s = format!("{:<w$}\n", s, w = SLOT - 1);
            let _ = f.write_all_at(&s.as_bytes()[..SLOT], (slot * SLOT) as u64);
        }
    }
}

/// Address-space limit so that a runaway allocation kills the worker instead of the sandbox
pub fn limit_memory(bytes: u64) {
    unsafe {
        let lim = libc::rlimit { rlim_cur: bytes, rlim_max: bytes };
        libc::setrlimit(libc::RLIMIT_AS, &lim);
    }
}

/// Simple `--key value` argument access
pub fn arg(name: &str) -> Option<String> {
    let args: Vec<String> = std::env::args().collect();
    let key = format!("--{}", name);
    args.iter().position(|a| *a == key).and_then(|i| args.get(i + 1).cloned())
}
pub fn arg_or(name: &str, d: &str) -> String {
    arg(name).unwrap_or_else(|| d.to_string())
}
pub fn arg_u64(name: &str, d: u64) -> u64 {
    arg(name).and_then(|s| s.parse().ok()).unwrap_or(d)
}
pub fn flag(name: &str) -> bool {
    let key = format!("--{}", name);
    std::env::args().any(|a| a == key)
}

/// All strings over `alpha` with length in 0..=maxlen, in length-lexicographic order
pub fn all_strings(alpha: &[&str], maxlen: usize) -> Vec<String> {
    let mut out = vec![String::new()];
    let mut layer = vec![String::new()];
    for _ in 0..maxlen {
        let mut next = Vec::with_capacity(layer.len() * alpha.len());
        for s in &layer {
            for a in alpha {
                let mut t = s.clone();
                t.push_str(a);
                next.push(t);
            }
        }
        out.extend(next.iter().cloned());
        layer = next;
    }
    out
}
