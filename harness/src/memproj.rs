//! Projection of a Memfs instance to the abstract representation record (DESIGN 3.3) by parsing its
//! `Debug` rendering - complete internal state (three indexes, cwd, root, poisoned flag), no hook.
use serde_json::{json, Map, Value};

use crate::{bytes, chars};

/// Generic parser of Rust `{:?}` output into a JSON value:
/// struct `N { a: v }` -> object (+ "__name"), tuple struct `N(v, w)` -> {"__name","__args":[..]},
/// map `{k: v}` -> {"__map":[[k,v]..]}, set `{a, b}` -> {"__set":[..]}, `{}` -> {"__empty":true},
/// list -> array, string -> string, number -> number, identifiers (true/false/None/..) -> {"__id":name}
pub struct DebugParser<'a> {
    s: &'a [u8],
    i: usize,
}

impl<'a> DebugParser<'a> {
    pub fn new(s: &'a str) -> Self {
        DebugParser { s: s.as_bytes(), i: 0 }
    }
    fn ws(&mut self) {
        while self.i < self.s.len() && (self.s[self.i] == b' ' || self.s[self.i] == b'\n') {
            self.i += 1;
        }
    }
    fn peek(&mut self) -> u8 {
        self.ws();
        if self.i < self.s.len() { self.s[self.i] } else { 0 }
    }
    fn eat(&mut self, c: u8) -> bool {
        if self.peek() == c {
            self.i += 1;
            true
        } else {
            false
        }
    }
    fn string(&mut self) -> Result<String, String> {
        // at opening quote
        self.i += 1;
        let mut out = String::new();
        let src = std::str::from_utf8(&self.s[self.i..]).map_err(|e| e.to_string())?;
        let mut it = src.char_indices();
        while let Some((k, c)) = it.next() {
            match c {
                '"' => {
                    self.i += k + 1;
                    return Ok(out);
                },
                '\\' => {
                    let (_, e) = it.next().ok_or("bad escape")?;
                    match e {
                        'n' => out.push('\n'),
                        't' => out.push('\t'),
                        'r' => out.push('\r'),
                        '0' => out.push('\0'),
                        '\\' => out.push('\\'),
                        '"' => out.push('"'),
                        '\'' => out.push('\''),
                        'u' => {
                            // \u{XXXX}
                            let mut hex = String::new();
                            it.next();
                            for (_, h) in it.by_ref() {
                                if h == '}' {
                                    break;
                                }
                                hex.push(h);
                            }
                            let cp = u32::from_str_radix(&hex, 16).map_err(|e| e.to_string())?;
                            out.push(char::from_u32(cp).ok_or("bad codepoint")?);
                        },
                        'x' => {
                            let a = it.next().ok_or("bad \\x")?.1;
                            let b = it.next().ok_or("bad \\x")?.1;
                            let cp = u32::from_str_radix(&format!("{}{}", a, b), 16).map_err(|e| e.to_string())?;
                            out.push(char::from_u32(cp).ok_or("bad \\x")?);
                        },
                        _ => return Err(format!("unknown escape \\{}", e)),
                    }
                },
                _ => out.push(c),
            }
        }
        Err("unterminated string".into())
    }
    fn ident(&mut self) -> String {
        let st = self.i;
        while self.i < self.s.len() {
            let c = self.s[self.i];
            if c.is_ascii_alphanumeric() || c == b'_' || c == b'.' || c == b'-' {
                self.i += 1;
            } else if c == b':' && self.i + 1 < self.s.len() && self.s[self.i + 1] == b':' {
                self.i += 2;
            } else {
                break;
            }
        }
        String::from_utf8_lossy(&self.s[st..self.i]).to_string()
    }
    pub fn value(&mut self) -> Result<Value, String> {
        let c = self.peek();
        match c {
            b'"' => Ok(Value::String(self.string()?)),
            b'[' => {
                self.i += 1;
                let mut v = vec![];
                loop {
                    if self.eat(b']') {
                        break;
                    }
                    v.push(self.value()?);
                    self.eat(b',');
                }
                Ok(Value::Array(v))
            },
            b'{' => {
                self.i += 1;
                if self.eat(b'}') {
                    return Ok(json!({"__empty": true}));
                }
                let first = self.value()?;
                if self.eat(b':') {
                    let mut m = vec![json!([first, self.value()?])];
                    loop {
                        self.eat(b',');
                        if self.eat(b'}') {
                            break;
                        }
                        let k = self.value()?;
                        if !self.eat(b':') {
                            return Err("map: expected ':'".into());
                        }
                        m.push(json!([k, self.value()?]));
                    }
                    Ok(json!({"__map": m}))
                } else {
                    let mut v = vec![first];
                    loop {
                        self.eat(b',');
                        if self.eat(b'}') {
                            break;
                        }
                        v.push(self.value()?);
                    }
                    Ok(json!({"__set": v}))
                }
            },
            b'(' => {
                self.i += 1;
                let mut v = vec![];
                loop {
                    if self.eat(b')') {
                        break;
                    }
                    v.push(self.value()?);
                    self.eat(b',');
                }
                Ok(json!({"__args": v}))
            },
            _ if c.is_ascii_digit() || c == b'-' => {
                let id = self.ident();
                id.parse::<i64>().map(|n| json!(n)).map_err(|e| format!("{}: {}", id, e))
            },
            _ => {
                let id = self.ident();
                if id.is_empty() {
                    return Err(format!("unexpected byte {} at {}", c as char, self.i));
                }
                match self.peek() {
                    b'{' => {
                        self.i += 1;
                        let mut m = Map::new();
                        m.insert("__name".into(), json!(id));
                        loop {
                            if self.eat(b'}') {
                                break;
                            }
                            if self.peek() == b'.' {
                                // `..` of a non-exhaustive Debug
                                self.ident();
                                continue;
                            }
                            let k = self.ident();
                            if !self.eat(b':') {
                                return Err(format!("struct {}: expected ':' after {}", id, k));
                            }
                            m.insert(k, self.value()?);
                            self.eat(b',');
                        }
                        Ok(Value::Object(m))
                    },
                    b'(' => {
                        let args = self.value()?;
                        Ok(json!({"__name": id, "__args": args["__args"].clone()}))
                    },
                    _ => Ok(json!({"__id": id})),
                }
            },
        }
    }
}

fn tf(v: &Value) -> &'static str {
    if v["__id"] == "true" { "t" } else { "f" }
}
fn is_true(v: &Value) -> bool {
    v["__id"] == "true"
}
fn comps_of(s: &str) -> Vec<&str> {
    s.split('/').filter(|x| !x.is_empty()).collect()
}
fn canonical(s: &str) -> bool {
    s == format!("/{}", comps_of(s).join("/"))
}

/// The representation record of a Memfs (paths as component arrays, root = []):
/// {"cwd":[..],"cwdc":"t","root":[..],"rootc":"t","po":"f",
///  "e":[{"p":[..],"kc":"t","pk":"t","k":"d|f|ld|lf|l|..","alt":[..],"rel":[chars],"mode":n,"uid":n,"gid":n,"hf":"t","ch":[names],"fo":"f"}..],
///  "f":[{"p":[..],"kc":"t","d":[bytes]}..]}
/// kc = the map key is a canonical absolute path, pk = the entry's own path field equals its key.
pub fn project_debug(dbg: &str) -> Result<Value, String> {
    let v = DebugParser::new(dbg).value()?;
    // Memfs(RwLock { data: MemfsInner {..}, poisoned: false, .. })
    let lock = &v["__args"][0];
    let inner = &lock["data"];
    if !inner.is_object() {
        return Err("no data field (poisoned or changed shape)".into());
    }
    let mut ents: Vec<(String, Value)> = vec![];
    if let Some(m) = inner["entries"]["__map"].as_array() {
        for kv in m {
            let key = kv[0].as_str().ok_or("entry key")?.to_string();
            let e = &kv[1];
            let names: Vec<String> = match e["files"]["__args"][0]["__set"].as_array() {
                Some(a) => {
                    let mut n: Vec<String> = a.iter().map(|x| x.as_str().unwrap_or("?").to_string()).collect();
                    n.sort();
                    n
                },
                None => vec![],
            };
            let has = if e["files"]["__name"] == "Some" { "t" } else { "f" };
            let mut k = String::new();
            if is_true(&e["link"]) {
                k.push('l');
            }
            if is_true(&e["dir"]) {
                k.push('d');
            }
            if is_true(&e["file"]) {
                k.push('f');
            }
            let path = e["path"].as_str().unwrap_or("?");
            let alt = e["alt"].as_str().unwrap_or("?");
            ents.push((
                key.clone(),
                json!({
                    "p": comps_of(&key), "kc": if canonical(&key) { "t" } else { "f" }, "pk": if path == key { "t" } else { "f" },
                    "k": k, "alt": comps_of(alt), "altc": if alt.is_empty() || canonical(alt) { "t" } else { "f" },
                    "rel": chars(e["rel"].as_str().unwrap_or("?")),
                    "mode": e["mode"].as_i64().unwrap_or(-1), "uid": e["uid"].as_i64().unwrap_or(-1), "gid": e["gid"].as_i64().unwrap_or(-1),
                    "fo": tf(&e["follow"]), "hf": has, "ch": names,
                }),
            ));
        }
    } else {
        return Err("no entries map".into());
    }
    ents.sort_by(|a, b| a.0.cmp(&b.0));
    let mut files: Vec<(String, Value)> = vec![];
    if let Some(m) = inner["files"]["__map"].as_array() {
        for kv in m {
            let key = kv[0].as_str().ok_or("file key")?.to_string();
            let data: Vec<u8> = kv[1]["data"].as_array().map(|a| a.iter().map(|x| x.as_u64().unwrap_or(0) as u8).collect()).unwrap_or_default();
            files.push((key.clone(), json!({"p": comps_of(&key), "kc": if canonical(&key) { "t" } else { "f" }, "d": bytes(&data)})));
        }
    }
    files.sort_by(|a, b| a.0.cmp(&b.0));
    let cwd = inner["cwd"].as_str().unwrap_or("?");
    let root = inner["root"].as_str().unwrap_or("?");
    Ok(json!({
        "cwd": comps_of(cwd), "cwdc": if canonical(cwd) { "t" } else { "f" },
        "root": comps_of(root), "rootc": if canonical(root) { "t" } else { "f" },
        "po": tf(&lock["poisoned"]),
        "e": ents.into_iter().map(|x| x.1).collect::<Vec<_>>(),
        "f": files.into_iter().map(|x| x.1).collect::<Vec<_>>(),
    }))
}

/// Projection of a live instance; a poisoned / unparsable instance gives a record with "po":"t" / "err"
pub fn project(m: &rivia::prelude::Memfs) -> Value {
    let dbg = format!("{:?}", m);
    match project_debug(&dbg) {
        Ok(v) => v,
        Err(e) => json!({"cwd": [], "cwdc": "?", "root": [], "rootc": "?", "po": if dbg.contains("poisoned: true") { "t" } else { "?" }, "e": [], "f": [], "err": e}),
    }
}
