//! Operation histories on the real Memfs (directly or through the Vfs enum): seeded random histories with
//! respelled arguments, the symlink grid of C10 and the data round-trip histories of C06.
//! Output: chain records {"k":"h","be":"memfs","route":..,"init":REP,"steps":[{c,r,same,post}..]} judged by Trace_Vfs.
//!   hist --mode rand|links|data --route direct|enum --n N --len L --seed S --worker i --workers n --out F
use rand::{rngs::StdRng, seq::SliceRandom, Rng, SeedableRng};
use rivia::prelude::*;
use rvharness::ops::*;
use rvharness::*;

enum Fs {
    Direct(Memfs),
    Enum(Vfs),
}
impl Fs {
    fn new(route_enum: bool) -> Fs {
        if route_enum { Fs::Enum(Vfs::memfs()) } else { Fs::Direct(Memfs::new()) }
    }
    fn apply(&self, c: &Value) -> Value {
        match self {
            Fs::Direct(m) => apply(m, c),
            Fs::Enum(v) => apply(v, c),
        }
    }
    fn project(&self) -> Value {
        match self {
            Fs::Direct(m) => memproj::project(m),
            Fs::Enum(Vfs::Memfs(m)) => memproj::project(m),
            _ => json!({}),
        }
    }
}

struct Handle {
    w: Box<dyn std::io::Write>,
    path: String,
    append: bool,
    written: Vec<u8>,
    base: Vec<u8>,
    clean: bool,
}

struct Chain {
    fs: Fs,
    cur: Value,
    curkey: String,
    init: Value,
    steps: Vec<Value>,
    handles: Vec<Option<Handle>>,
    readers: Vec<Option<(Box<dyn ReadSeek>, String)>>,
    /// how the next h_open spells its path (the later records of the handle name the canonical path)
    open_as: Option<String>,
}
impl Chain {
    fn new(route_enum: bool) -> Chain {
        let fs = Fs::new(route_enum);
        let cur = fs.project();
        Chain { curkey: to_ascii_json(&cur), init: cur.clone(), cur, fs, steps: vec![], handles: vec![None, None], readers: vec![None, None], open_as: None }
    }
    fn log(&mut self, c: Value, r: Value) {
        let post = self.fs.project();
        let key = to_ascii_json(&post);
        if key == self.curkey {
            self.steps.push(json!({"c": c, "r": r, "same": "t", "post": []}));
        } else {
            self.steps.push(json!({"c": c, "r": r, "same": "f", "post": post.clone()}));
            self.cur = post;
            self.curkey = key;
        }
    }
    /// handle operations: open (write | append) / write / flush / drop on one of two slots.  The call of a flush / drop
    /// carries the content the file must have afterwards when nothing else touched the tree since the open ("c" flag).
    fn handle_op(&mut self, prog: &Progress, id: u64, what: &str, slot: usize, path: &str, data: &[u8], append: bool) {
        prog.mark(id, &format!("{} slot{} {}", what, slot, path));
        match what {
            "h_open" => {
                if self.handles[slot].is_some() {
                    return;
                }
                let base: Vec<u8> = match self.fs.apply(&call("read", path, ""))["v"].as_array() {
                    Some(a) => a.iter().map(|x| x.as_u64().unwrap_or(0) as u8).collect(),
                    None => vec![],
                };
                let spelled = self.open_as.take().unwrap_or_else(|| path.to_string());
                let spelled2 = spelled.clone();
                let r = gres(|| {
                    let h = match &self.fs {
                        Fs::Direct(m) => if append { m.append(&spelled2) } else { m.write(&spelled2) },
                        Fs::Enum(v) => if append { v.append(&spelled2) } else { v.write(&spelled2) },
                    };
                    match h {
                        Ok(w) => {
                            self.handles[slot] = Some(Handle { w, path: path.to_string(), append, written: vec![], base: base.clone(), clean: true });
                            r_ok(json!([]))
                        },
                        Err(e) => r_err(&err_kind(&e)),
                    }
                });
                // every other open handle is no longer alone
                for (i, h) in self.handles.iter_mut().enumerate() {
                    if i != slot {
                        if let Some(h) = h {
                            h.clean = false;
                        }
                    }
                }
                self.log(call_b("h_open", &spelled, "", slot as u32, 0, "", if append { "a" } else { "w" }), r);
            },
            // read handles: opening, reading and dropping one never changes anything, whatever happened to the file meanwhile
            "hr_open" => {
                if self.readers[slot].is_some() {
                    return;
                }
                let r = gres(|| {
                    let h = match &self.fs {
                        Fs::Direct(m) => m.read(path),
                        Fs::Enum(v) => v.read(path),
                    };
                    match h {
                        Ok(rd) => {
                            self.readers[slot] = Some((rd, path.to_string()));
                            r_ok(json!([]))
                        },
                        Err(e) => r_err(&err_kind(&e)),
                    }
                });
                self.log(call_b("hr_open", path, "", slot as u32, 0, "", ""), r);
            },
            "hr_read" => {
                if let Some((rd, p)) = self.readers[slot].as_mut() {
                    let mut buf = vec![];
                    let r = match guard(|| rd.read_to_end(&mut buf)) {
                        Ok(Ok(_)) => r_ok(json!([])),
                        Ok(Err(e)) => r_err(&format!("Io::{:?}", e.kind())),
                        Err(m) => r_panic(&m),
                    };
                    let p = p.clone();
                    self.log(call_b("hr_read", &p, "", slot as u32, 0, "", ""), r);
                }
            },
            "hr_drop" => {
                if let Some((rd, p)) = self.readers[slot].take() {
                    let r = match guard(move || drop(rd)) {
                        Ok(()) => r_ok(json!([])),
                        Err(m) => r_panic(&m),
                    };
                    self.log(call_b("hr_drop", &p, "", slot as u32, 0, "", ""), r);
                }
            },
            "h_write" => {
                if let Some(h) = self.handles[slot].as_mut() {
                    let r = match guard(|| h.w.write_all(data)) {
                        Ok(Ok(())) => {
                            h.written.extend_from_slice(data);
                            r_ok(json!([]))
                        },
                        Ok(Err(e)) => r_err(&format!("Io::{:?}", e.kind())),
                        Err(m) => r_panic(&m),
                    };
                    let p = h.path.clone();
                    let mut c = call_d("h_write", &p, data);
                    c["m"] = json!(slot);
                    self.log(c, r);
                }
            },
            "h_flush" => {
                if let Some(h) = self.handles[slot].as_mut() {
                    let mut content = if h.append { h.base.clone() } else { vec![] };
                    content.extend_from_slice(&h.written);
                    let r = match guard(|| h.w.flush()) {
                        Ok(Ok(())) => r_ok(json!([])),
                        Ok(Err(e)) => r_err(&format!("Io::{:?}", e.kind())),
                        Err(m) => r_panic(&m),
                    };
                    let (path, clean) = (h.path.clone(), h.clean);
                    let mut c = call_d("h_flush", &path, &content);
                    c["m"] = json!(slot);
                    c["f"] = chars(if clean { "c" } else { "x" });
                    for (i, o) in self.handles.iter_mut().enumerate() {
                        if let Some(o) = o {
                            if i != slot && o.path == path {
                                o.clean = false;
                            }
                        }
                    }
                    self.log(c, r);
                }
            },
            "h_drop" => {
                if let Some(h) = self.handles[slot].take() {
                    let mut content = if h.append { h.base.clone() } else { vec![] };
                    content.extend_from_slice(&h.written);
                    let (path, clean, w) = (h.path, h.clean, h.w);
                    let r = match guard(move || drop(w)) {
                        Ok(()) => r_ok(json!([])),
                        Err(m) => r_panic(&m),
                    };
                    let mut c = call_d("h_drop", &path, &content);
                    c["m"] = json!(slot);
                    c["f"] = chars(if clean { "c" } else { "x" });
                    for o in self.handles.iter_mut().flatten() {
                        if o.path == path {
                            o.clean = false;
                        }
                    }
                    self.log(c, r);
                }
            },
            _ => {},
        }
    }
    fn dirty_handles(&mut self) {
        for h in self.handles.iter_mut().flatten() {
            h.clean = false;
        }
    }
    fn step(&mut self, prog: &Progress, id: u64, c: Value) -> Value {
        prog.mark(id, &to_ascii_json(&c));
        let r = self.fs.apply(&c);
        let post = self.fs.project();
        let key = to_ascii_json(&post);
        if key == self.curkey {
            self.steps.push(json!({"c": c, "r": r.clone(), "same": "t", "post": []}));
        } else {
            self.steps.push(json!({"c": c, "r": r.clone(), "same": "f", "post": post.clone()}));
            // a handle stays "alone with its file" when only the working directory moved
            let tree_changed = post["e"] != self.cur["e"] || post["f"] != self.cur["f"];
            self.cur = post;
            self.curkey = key;
            if tree_changed {
                self.dirty_handles();
            }
        }
        r
    }
    fn cwd(&self) -> Vec<String> {
        self.cur["cwd"].as_array().map(|a| a.iter().map(|x| x.as_str().unwrap_or("").to_string()).collect()).unwrap_or_default()
    }
    fn existing(&self) -> Vec<String> {
        self.cur["e"].as_array().map(|a| a.iter().map(|e| format!("/{}", e["p"].as_array().unwrap().iter().map(|x| x.as_str().unwrap()).collect::<Vec<_>>().join("/"))).collect()).unwrap_or_default()
    }
    fn finish(mut self, out: &mut Out, route: &str) {
        let pr = Progress { f: None };
        for slot in 0..self.handles.len() {
            self.handle_op(&pr, 0, "h_drop", slot, "", &[], false);
            self.handle_op(&pr, 0, "hr_drop", slot, "", &[], false);
        }
        out.rec(&json!({"k": "h", "be": "memfs", "route": route, "init": self.init, "steps": self.steps}));
    }
}

/// another spelling of the absolute clean path `p` for a filesystem whose cwd is `cwd`
/// the spelling of the absolute clean path `p` relative to `cwd`
fn rel_spelling(p: &str, cwd: &[String]) -> String {
    let comps: Vec<&str> = p.split('/').filter(|x| !x.is_empty()).collect();
    let mut n = 0;
    while n < comps.len() && n < cwd.len() && comps[n] == cwd[n] {
        n += 1;
    }
    let mut parts: Vec<String> = (0..cwd.len() - n).map(|_| "..".to_string()).collect();
    parts.extend(comps[n..].iter().map(|x| x.to_string()));
    if parts.is_empty() { ".".to_string() } else { parts.join("/") }
}

fn respell(rng: &mut StdRng, p: &str, cwd: &[String], home: &str) -> String {
    let comps: Vec<&str> = p.split('/').filter(|x| !x.is_empty()).collect();
    match rng.gen_range(0..9) {
        0 | 1 => p.to_string(),
        2 => {
            // relative to the cwd
            let mut n = 0;
            while n < comps.len() && n < cwd.len() && comps[n] == cwd[n] {
                n += 1;
            }
            let mut parts: Vec<String> = (0..cwd.len() - n).map(|_| "..".to_string()).collect();
            parts.extend(comps[n..].iter().map(|x| x.to_string()));
            if parts.is_empty() { ".".to_string() } else { parts.join("/") }
        },
        3 => format!("/{}", comps.iter().map(|c| format!("./{}/", c)).collect::<String>()),
        4 => {
            if comps.is_empty() { "//".to_string() } else { format!("//{}//", comps.join("//")) }
        },
        5 => {
            // detour through a sibling that need not exist
            if comps.is_empty() { "/zz/..".to_string() } else { format!("/{}/zz/../{}", comps[..comps.len() - 1].join("/"), comps[comps.len() - 1]) }
        },
        6 => format!("file://{}", p),
        7 => {
            // through $HOME / ~ when the path lies below it
            if !home.is_empty() && (p == home || p.starts_with(&format!("{}/", home))) {
                let rest = &p[home.len()..];
                if rng.gen_bool(0.5) { format!("~{}", rest) } else { format!("${{HOME}}{}", rest) }
            } else {
                format!("/../..{}", p)
            }
        },
        _ => format!("{}/.", p.trim_end_matches('/')),
    }
}

fn chaos_path(rng: &mut StdRng, existing: &[String]) -> String {
    let odd = ["", "/", "..", "../..", "../../../../..", ".", "//", "/..", "~", "$", "${", "$NOPE/x", "~/~", "file://", "ftp:///a/../..", "\u{e9}", "/\u{65e5}\u{672c}/\u{1d11e}", "/a b", "/a/./../a//b/", "/a/f\u{ff}", "\u{ff}", "/\u{ff}/b", "/b/\u{ff}x"];
    let r = rng.gen_range(0..10);
    if r < 5 || existing.is_empty() {
        return odd[rng.gen_range(0..odd.len())].to_string();
    }
    // below / beside an existing entry, whatever its kind (through links, below files)
    let base = &existing[rng.gen_range(0..existing.len())];
    let tail = ["x", "a", "../a", "a/b", "\u{e9}", "..", "f\u{ff}"][rng.gen_range(0..7)];
    if base == "/" { format!("/{}", tail) } else { format!("{}/{}", base, tail) }
}

fn rand_path(rng: &mut StdRng, names: &[&str], maxdepth: usize, existing: &[String]) -> String {
    let r = rng.gen_range(0..10);
    if r < 4 && !existing.is_empty() {
        return existing[rng.gen_range(0..existing.len())].clone();
    }
    if r < 7 && !existing.is_empty() {
        // child of an existing entry
        let base = &existing[rng.gen_range(0..existing.len())];
        let n = names[rng.gen_range(0..names.len())];
        return if base == "/" { format!("/{}", n) } else { format!("{}/{}", base, n) };
    }
    let d = rng.gen_range(0..=maxdepth);
    if d == 0 {
        return "/".to_string();
    }
    format!("/{}", (0..d).map(|_| names[rng.gen_range(0..names.len())]).collect::<Vec<_>>().join("/"))
}

const QUERIES: [&str; 25] = [
    "exists", "is_dir", "is_file", "is_symlink", "is_symlink_dir", "is_symlink_file", "is_exec", "is_readonly", "mode", "owner", "uid", "gid",
    "read_all", "read_lines", "read", "readlink", "readlink_abs", "paths", "dirs", "files", "all_paths", "all_dirs", "all_files", "entry", "abs",
];

fn rand_data(rng: &mut StdRng) -> Vec<u8> {
    match rng.gen_range(0..9) {
        0 => vec![],
        1 => b"x".to_vec(),
        2 => "h\u{e9}llo \u{65e5}\u{672c}".as_bytes().to_vec(),
        3 => vec![0xff, 0xfe, b'a'],
        4 => b"l1\nl2\r\nl3".to_vec(),
        5 => b"\n\n".to_vec(),
        6 => (0..rng.gen_range(1..40)).map(|_| rng.gen_range(32..127) as u8).collect(),
        7 => vec![0xc3],
        _ => b"tail\n".to_vec(),
    }
}

fn main() {
    silence_panics();
    limit_memory(4 << 30);
    let mode = arg_or("mode", "rand");
    let route = arg_or("route", "direct");
    let route_enum = route == "enum";
    let n = arg_u64("n", 20);
    let len = arg_u64("len", 200) as usize;
    let seed = arg_u64("seed", 1);
    let worker = arg_u64("worker", 0);
    let workers = arg_u64("workers", 1);
    let home = std::env::var("HOME").unwrap_or_default();
    let chaos = flag("chaos");
    let mut out = Out::create(arg_or("out", "/dev/stdout"));
    let prog = Progress::from_env();
    let mut id = 0u64;
    match mode.as_str() {
        "rand" => {
            // "ab" is a string-prefix sibling of "a" and "\u{e9}" a multi-byte name: component-wise vs string-wise and
            // byte- vs character-offset mistakes need exactly such names
            let names = ["a", "b", "ab", "\u{e9}"];
            for h in 0..n {
                if h % workers != worker {
                    continue;
                }
                // the route must not influence the history: same seed for both routes
                let mut rng = StdRng::seed_from_u64(seed.wrapping_mul(1_000_003).wrapping_add(h));
                let mut ch = Chain::new(route_enum);
                // make $HOME exist in some histories so that ~ spellings resolve into the tree
                if !home.is_empty() && h % 2 == 0 {
                    id += 1;
                    ch.step(&prog, id, call("mkdir_p", &home, ""));
                }
                for _ in 0..len {
                    id += 1;
                    let ex = ch.existing();
                    let cwd = ch.cwd();
                    let mut ex_home = ex.clone();
                    if !home.is_empty() {
                        ex_home.push(home.clone());
                    }
                    let a0 = rand_path(&mut rng, &names, 3, &ex_home);
                    let b0 = rand_path(&mut rng, &names, 3, &ex_home);
                    let (a, b) = if chaos && rng.gen_bool(0.5) {
                        (chaos_path(&mut rng, &ex), chaos_path(&mut rng, &ex))
                    } else {
                        (respell(&mut rng, &a0, &cwd, &home), respell(&mut rng, &b0, &cwd, &home))
                    };
                    let c = match rng.gen_range(0..40) {
                        0 | 1 => call("mkfile", &a, ""),
                        2 | 3 | 4 => call("mkdir_p", &a, ""),
                        5 | 6 => call_d("write_all", &a, &rand_data(&mut rng)),
                        7 | 8 => call_d("append_all", &a, &rand_data(&mut rng)),
                        9 => call("remove", &a, ""),
                        10 => call("remove_all", &a, ""),
                        11 | 12 => call("symlink", &a, &b),
                        13 => {
                            // relative target spelling (taken relative to the link's directory)
                            let t = ["x", "../a", "./b/c", "..", "a/../b", "~/x", "~", "$HOME/y", "sub/~/x"][rng.gen_range(0..9)];
                            call("symlink", &a, t)
                        },
                        14 | 15 => call("move_p", &a, &b),
                        16 | 17 => call("copy", &a, &b),
                        18 => call_b("copy_b", &a, &b, [0o700, 0o640, 0o555][rng.gen_range(0..3)], 0, "", ["a", "d", "f", "aF", "F"][rng.gen_range(0..5)]),
                        19 | 20 => call("set_cwd", &a, ""),
                        21 => call_m("chmod", &a, [0o755, 0o500, 0o644, 0o600, 0o777, 0o464, 0o060, 0o575][rng.gen_range(0..8)], 0),
                        22 => call_m("chown", &a, rng.gen_range(1..5), rng.gen_range(1..5)),
                        23 => call_m("mkdir_m", &a, [0o700, 0o755, 0o511][rng.gen_range(0..3)], 0),
                        24 => call_m("mkfile_m", &a, [0o600, 0o644, 0o755][rng.gen_range(0..3)], 0),
                        25 => call_ls("write_lines", &a, &[["one", "two"].as_slice(), [""].as_slice(), ["", "x"].as_slice(), [].as_slice()][rng.gen_range(0..4)]),
                        26 => call_ls("append_lines", &a, &[["3", "4"].as_slice(), [""].as_slice(), [].as_slice(), ["5", "", "6"].as_slice()][rng.gen_range(0..4)]),
                        27 => call_ls("append_line", &a, &[["solo"].as_slice(), [""].as_slice()][rng.gen_range(0..2)]),
                        28 => call_b("chmod_b", &a, "", 0, 0, ["f:u+x", "a:go-rwx", "d:a=rx,f:a=r", "a:a+w"][rng.gen_range(0..4)], ["s", "sR", "sF"][rng.gen_range(0..3)]),
                        29 => call_b("chown_b", &a, "", rng.gen_range(1..5), rng.gen_range(1..5), "", ["u", "g", "o", "oR", "uF"][rng.gen_range(0..5)]),
                        34 => {
                            // a builder program: random sequence of builder calls, judged by its final options (last setter wins)
                            let n = rng.gen_range(1..5);
                            let modes = [0o755u32, 0o700, 0o640, 0o444];
                            // half of the programs run "late": paths spelled relative to the cwd, the cwd moved away between the
                            // creation of the builder and exec() (flag L, see ops::late_exec)
                            // (chmod_b / chown_b only: they document path resolution at creation; copy_b keeps its arguments as given
                            //  and both backends resolve them in exec())
                            let kind = rng.gen_range(0..3);
                            let late = kind < 2 && rng.gen_bool(0.5);
                            let (a, b) = if late { (rel_spelling(&a0, &ch.cwd()), rel_spelling(&b0, &ch.cwd())) } else { (a.clone(), b.clone()) };
                            let mut c = match kind {
                                0 => {
                                    let steps: Vec<(u8, u32)> = (0..n).map(|_| { let k = rng.gen_range(1..10u8); (k, if k == 7 { rng.gen_range(0..3) } else { modes[rng.gen_range(0..4)] }) }).filter(|s| s.0 != 4).collect();
                                    call_seq("chmod_seq", &a, "", &steps)
                                },
                                1 => {
                                    let steps: Vec<(u8, u32)> = (0..n).map(|_| (rng.gen_range(1..7u8), rng.gen_range(1..5u32) * 256 + rng.gen_range(1..5u32))).filter(|s| s.0 != 4).collect();
                                    call_seq("chown_seq", &a, "", &steps)
                                },
                                _ => {
                                    let steps: Vec<(u8, u32)> = (0..n).map(|_| (rng.gen_range(1..4u8), modes[rng.gen_range(0..4)])).collect();
                                    call_seq("copy_seq", &a, &b, &steps)
                                },
                            };
                            if late {
                                c["f"] = chars("L");
                            }
                            c
                        },
                        30 | 31 | 32 | 33 => {
                            // handle operations on one of two slots (stale handles included: the path may be removed or
                            // replaced by something else while the handle is open)
                            let slot = rng.gen_range(0..2);
                            let what = ["h_open", "h_write", "h_write", "h_flush", "h_drop", "hr_open", "hr_read", "hr_drop"][rng.gen_range(0..8)];
                            let data = rand_data(&mut rng);
                            let append = rng.gen_bool(0.4);
                            // opened under the respelled argument (relative to the cwd, unclean, ...): the handle is bound to what
                            // that resolves to NOW, whatever the cwd is when it is flushed or dropped
                            if what == "h_open" && !chaos {
                                ch.open_as = Some(respell(&mut rng, &a0, &cwd, &home));
                            }
                            ch.handle_op(&prog, id, what, slot, &a0, &data, append);
                            continue;
                        },
                        _ => call(QUERIES[rng.gen_range(0..QUERIES.len())], &a, ""),
                    };
                    ch.step(&prog, id, c);
                }
                ch.finish(&mut out, &route);
            }
        },
        "links" => {
            // C10 grid: (link position, target position) over names {a,b} depth <= 3, target file/dir/missing,
            // absolute and relative spelling of the target
            let names = ["a", "ab"];       // "ab" extends "a" character-wise (string-prefix vs component-wise mistakes)
            let mut pos: Vec<String> = vec![];
            for d in 1..=3 {
                let mut layer = vec![String::new()];
                for _ in 0..d {
                    layer = layer.iter().flat_map(|s| names.iter().map(move |n| format!("{}/{}", s, n))).collect();
                }
                pos.extend(layer);
            }
            let mut k = 0u64;
            for l in &pos {
                for t in &pos {
                    for kind in ["file", "dir", "none"] {
                        for spelling in ["abs", "rel"] {
                            k += 1;
                            if k % workers != worker {
                                continue;
                            }
                            if l == t || t.starts_with(&format!("{}/", l)) || l.starts_with(&format!("{}/", t)) {
                                continue; // link location and target location must be able to coexist
                            }
                            let mut ch = Chain::new(route_enum);
                            let ldir = &l[..l.rfind('/').unwrap()];
                            let tdir = &t[..t.rfind('/').unwrap()];
                            id += 1;
                            ch.step(&prog, id, call("mkdir_p", if ldir.is_empty() { "/" } else { ldir }, ""));
                            if kind != "none" {
                                ch.step(&prog, id, call("mkdir_p", if tdir.is_empty() { "/" } else { tdir }, ""));
                                ch.step(&prog, id, if kind == "file" { call_d("write_all", t, b"data") } else { call("mkdir_p", t, "") });
                            }
                            let tspell = if spelling == "abs" {
                                t.clone()
                            } else {
                                // navigation from dir(link) to target, computed here on the strings
                                let lc: Vec<&str> = ldir.split('/').filter(|x| !x.is_empty()).collect();
                                let tc: Vec<&str> = t.split('/').filter(|x| !x.is_empty()).collect();
                                let mut n = 0;
                                while n < lc.len() && n < tc.len() && lc[n] == tc[n] {
                                    n += 1;
                                }
                                let mut parts: Vec<String> = (0..lc.len() - n).map(|_| "..".to_string()).collect();
                                parts.extend(tc[n..].iter().map(|x| x.to_string()));
                                parts.join("/")
                            };
                            ch.step(&prog, id, call("symlink", l, &tspell));
                            for q in ["readlink", "readlink_abs", "is_symlink", "is_file", "is_dir", "is_symlink_dir", "is_symlink_file", "exists", "entry", "mode"] {
                                ch.step(&prog, id, call(q, l, ""));
                            }
                            // chmod / chown without follow act on the link itself, never on the target
                            ch.step(&prog, id, call_b("chmod_b", l, "", 0o700, 0o700, "", "aR"));
                            ch.step(&prog, id, call_b("chown_b", l, "", 7, 8, "", "oR"));
                            if kind != "none" {
                                ch.step(&prog, id, call("mode", t, ""));
                                ch.step(&prog, id, call("owner", t, ""));
                            }
                            // non-links: readlink fails
                            ch.step(&prog, id, call("readlink", if ldir.is_empty() { "/" } else { ldir }, ""));
                            ch.step(&prog, id, call("readlink_abs", if ldir.is_empty() { "/" } else { ldir }, ""));
                            // remove acts on the link itself
                            ch.step(&prog, id, call("remove", l, ""));
                            if kind != "none" {
                                ch.step(&prog, id, call("exists", t, ""));
                                if kind == "file" {
                                    ch.step(&prog, id, call("read_all", t, ""));
                                }
                            }
                            ch.finish(&mut out, &route);
                        }
                    }
                }
            }
        },
        "data" => {
            // C06: interleavings of write/append/line helpers/copy/move over four files, reading back after every step
            let files = ["/f", "/g", "/d/h", "/d/i"];
            // directed: how the file a handle is opened on CAME to be at its path - created there, moved there, copied there, and
            // every two-step combination of the two - x {write, append} handle x {flush, drop only}; everything is read back after
            // each step (a handle belongs to the path it was opened on, whatever history the bytes at that path have)
            if worker == 0 {
                let provs: [&[(&str, &str, &str)]; 7] = [
                    &[],
                    &[("move_p", "/f", "/g")],
                    &[("copy", "/f", "/g")],
                    &[("move_p", "/f", "/d/h"), ("copy", "/d/h", "/g")],
                    &[("copy", "/f", "/d/h"), ("move_p", "/d/h", "/g")],
                    &[("move_p", "/f", "/d/h"), ("move_p", "/d/h", "/g")],
                    &[("copy", "/f", "/d/h"), ("copy", "/d/h", "/g")],
                ];
                for prov in provs {
                    for append in [false, true] {
                        for flush in [false, true] {
                            let mut ch = Chain::new(route_enum);
                            id += 1;
                            ch.step(&prog, id, call("mkdir_p", "/d", ""));
                            ch.step(&prog, id, call_d("write_all", "/f", b"origin"));
                            let mut at = "/f";
                            for (op, a, b) in prov.iter() {
                                ch.step(&prog, id, call(op, a, b));
                                at = b;
                            }
                            ch.handle_op(&prog, id, "h_open", 0, at, &[], append);
                            ch.handle_op(&prog, id, "h_write", 0, at, b"NEW", append);
                            if flush {
                                ch.handle_op(&prog, id, "h_flush", 0, at, &[], append);
                            }
                            ch.handle_op(&prog, id, "h_drop", 0, at, &[], append);
                            for f in files {
                                ch.step(&prog, id, call("read_all", f, ""));
                            }
                            ch.finish(&mut out, &route);
                        }
                    }
                }
            }
            for h in 0..n {
                if h % workers != worker {
                    continue;
                }
                let mut rng = StdRng::seed_from_u64(seed.wrapping_mul(7_000_003).wrapping_add(h));
                let mut ch = Chain::new(route_enum);
                id += 1;
                ch.step(&prog, id, call("mkdir_p", "/d", ""));
                for _ in 0..len {
                    id += 1;
                    let a = files[rng.gen_range(0..files.len())];
                    let b = files[rng.gen_range(0..files.len())];
                    // mostly 1000..5000 bytes; every 8th history works at and around the usual buffer capacity instead (8190..8200)
                    let big: Vec<u8> = (0..if h % 8 == 7 { rng.gen_range(8190..8200) } else { rng.gen_range(1000..5000) }).map(|i| (i % 251) as u8).collect();
                    let pick = rng.gen_range(0..18);
                    if pick == 17 {
                        // a handle across a move of the working directory: opened under a relative spelling, written, the cwd moves
                        // away, then flushed and dropped - the bytes belong to the file the handle was opened on
                        let slot = rng.gen_range(0..2);
                        let append = rng.gen_bool(0.5);
                        if ch.handles[slot].is_none() {
                            ch.open_as = Some(rel_spelling(a, &ch.cwd()));
                            ch.handle_op(&prog, id, "h_open", slot, a, &[], append);
                            ch.handle_op(&prog, id, "h_write", slot, a, &rand_data(&mut rng), append);
                            let to = if ch.cwd().is_empty() { "/d" } else { "/" };
                            ch.step(&prog, id, call("set_cwd", to, ""));
                            ch.handle_op(&prog, id, "h_flush", slot, a, &[], append);
                            ch.handle_op(&prog, id, "h_write", slot, a, &rand_data(&mut rng), append);
                            ch.handle_op(&prog, id, "h_drop", slot, a, &[], append);
                        }
                        continue;
                    }
                    let c = match pick {
                        // the working directory moves between "/" and "/d": handles opened under a relative spelling stay bound to
                        // the file they were opened on
                        16 => call("set_cwd", ["/", "/d"][rng.gen_range(0..2)], ""),
                        0 | 1 => call_d("write_all", a, &rand_data(&mut rng)),
                        2 | 3 => call_d("append_all", a, &rand_data(&mut rng)),
                        4 => call_d("write_all", a, &big),
                        5 => call_d("append_all", a, &big[..200]),
                        6 => call_ls("write_lines", a, &[["alpha", "beta"].as_slice(), ["\u{e9}t\u{e9}", "x y", "z"].as_slice(), ["single"].as_slice(), ["p", "", "q"].as_slice()][rng.gen_range(0..4)]),
                        7 => call_ls("append_lines", a, &[["l1", "l2"].as_slice(), ["m"].as_slice(), ["a", "", "b"].as_slice(), ["", "c"].as_slice()][rng.gen_range(0..4)]),
                        8 => call_ls("append_line", a, &[["solo"].as_slice(), ["\u{65e5}"].as_slice()][rng.gen_range(0..2)]),
                        9 | 10 => call("copy", a, b),
                        11 => call("move_p", a, b),
                        12 => call("remove", a, ""),
                        _ => {
                            let slot = rng.gen_range(0..2);
                            let what = ["h_open", "h_write", "h_flush", "h_drop", "h_drop", "hr_open", "hr_read", "hr_drop"][rng.gen_range(0..8)];
                            let data = rand_data(&mut rng);
                            let append = rng.gen_bool(0.5);
                            if what == "h_open" && rng.gen_bool(0.5) {
                                ch.open_as = Some(rel_spelling(a, &ch.cwd()));
                            }
                            ch.handle_op(&prog, id, what, slot, a, &data, append);
                            continue;
                        },
                    };
                    ch.step(&prog, id, c);
                    // read everything back: contents must be exactly the model's byte vectors, files independent
                    let mut fs = files.to_vec();
                    fs.shuffle(&mut rng);
                    for f in &fs[..2] {
                        ch.step(&prog, id, call("read", f, ""));
                        ch.step(&prog, id, call(["read_all", "read_lines"][rng.gen_range(0..2)], f, ""));
                    }
                }
                ch.finish(&mut out, &route);
            }
        },
        _ => {
            eprintln!("unknown mode");
            std::process::exit(2);
        },
    }
    out.finish();
}
