//! Pure path helpers: exhaustive-then-random string inputs, one record per input (pair) holding the
//! output of every helper.  Usage: strings --set clean|relative|helpers|protocol --tier quick|thorough
//!   --seed N --out FILE [--worker i --workers n]
use rand::{rngs::StdRng, Rng, SeedableRng};
use rivia::prelude::*;
use rvharness::*;
use std::path::PathBuf;

fn unary_clean(a: &str) -> Value {
    let p = PathBuf::from(a);
    let mut o = Map::new();
    o.insert("clean".into(), gres(|| r_ok(pchars(&sys::clean(&p)))));
    o.insert("x_clean".into(), gres(|| r_ok(pchars(&p.clean()))));
    json!({"k": "c", "a": chars(a), "b": [], "o": Value::Object(o)})
}

fn unary(a: &str) -> Value {
    let p = PathBuf::from(a);
    let mut o = Map::new();
    o.insert("clean".into(), gres(|| r_ok(pchars(&sys::clean(&p)))));
    o.insert("base".into(), gres(|| res_str(sys::base(&p))));
    o.insert("last".into(), gres(|| res_str(sys::last(&p))));
    o.insert("dir".into(), gres(|| res_path(sys::dir(&p))));
    o.insert("first".into(), gres(|| res_str(sys::first(&p))));
    o.insert("trim_first".into(), gres(|| r_ok(pchars(&sys::trim_first(&p)))));
    o.insert("trim_last".into(), gres(|| r_ok(pchars(&sys::trim_last(&p)))));
    o.insert("ext".into(), gres(|| res_str(sys::ext(&p))));
    o.insert("trim_ext".into(), gres(|| res_path(sys::trim_ext(&p))));
    o.insert("name".into(), gres(|| res_str(sys::name(&p))));
    o.insert("trim_protocol".into(), gres(|| r_ok(pchars(&sys::trim_protocol(&p)))));
    o.insert("is_empty".into(), gres(|| r_ok(vbool(sys::is_empty(&p)))));
    o.insert(
        "parse_paths".into(),
        gres(|| res(sys::parse_paths(a), |v| Value::Array(v.iter().map(|x| pchars(x)).collect()))),
    );
    // the PathExt trait route must agree with the free function (same record, second opinion)
    o.insert("x_clean".into(), gres(|| r_ok(pchars(&p.clean()))));
    o.insert("x_trim_protocol".into(), gres(|| r_ok(pchars(&p.trim_protocol()))));
    o.insert("x_base".into(), gres(|| res_str(p.base())));
    o.insert("x_name".into(), gres(|| res_str(p.name())));
    json!({"k": "u", "a": chars(a), "b": [], "o": Value::Object(o)})
}

fn binary(a: &str, b: &str) -> Value {
    let p = PathBuf::from(a);
    let q = PathBuf::from(b);
    let mut o = Map::new();
    o.insert("mash".into(), gres(|| r_ok(pchars(&sys::mash(&p, &q)))));
    o.insert("trim_prefix".into(), gres(|| r_ok(pchars(&sys::trim_prefix(&p, &q)))));
    o.insert("trim_suffix".into(), gres(|| r_ok(pchars(&sys::trim_suffix(&p, &q)))));
    o.insert("has".into(), gres(|| r_ok(vbool(sys::has(&p, &q)))));
    o.insert("has_prefix".into(), gres(|| r_ok(vbool(sys::has_prefix(&p, &q)))));
    o.insert("has_suffix".into(), gres(|| r_ok(vbool(sys::has_suffix(&p, &q)))));
    o.insert("concat".into(), gres(|| res_path(sys::concat(&p, b))));
    o.insert("x_mash".into(), gres(|| r_ok(pchars(&p.mash(&q)))));
    o.insert("x_trim_prefix".into(), gres(|| r_ok(pchars(&p.trim_prefix(&q)))));
    o.insert("x_trim_suffix".into(), gres(|| r_ok(pchars(&p.trim_suffix(&q)))));
    o.insert("s_trim_suffix".into(), gres(|| r_ok(chars(&a.to_string().trim_suffix(b)))));
    json!({"k": "b", "a": chars(a), "b": chars(b), "o": Value::Object(o)})
}

fn rel(a: &str, b: &str) -> Value {
    let p = PathBuf::from(a);
    let q = PathBuf::from(b);
    let mut o = Map::new();
    o.insert("relative".into(), gres(|| res_path(sys::relative(&p, &q))));
    o.insert("x_relative".into(), gres(|| res_path(p.relative(&q))));
    json!({"k": "r", "a": chars(a), "b": chars(b), "o": Value::Object(o)})
}

fn rand_string(rng: &mut StdRng, alpha: &[&str], maxlen: usize) -> String {
    let n = rng.gen_range(0..=maxlen);
    (0..n).map(|_| alpha[rng.gen_range(0..alpha.len())]).collect()
}

fn clean_paths(names: &[&str], maxc: usize) -> Vec<String> {
    let mut out = vec!["/".to_string()];
    let mut layer = vec![String::new()];
    for _ in 0..maxc {
        let mut next = vec![];
        for s in &layer {
            for n in names {
                next.push(format!("{}/{}", s, n));
            }
        }
        out.extend(next.iter().cloned());
        layer = next;
    }
    out
}

fn main() {
    silence_panics();
    let set = arg_or("set", "clean");
    let tier = arg_or("tier", "quick");
    let seed = arg_u64("seed", 1);
    let worker = arg_u64("worker", 0);
    let workers = arg_u64("workers", 1);
    let thorough = tier == "thorough";
    let mut out = Out::create(arg_or("out", "/dev/stdout"));
    let prog = Progress::from_env();
    let mut rng = StdRng::seed_from_u64(seed.wrapping_mul(1000003).wrapping_add(worker));
    let mut id: u64 = 0;
    let mut mine = |id: &mut u64| -> bool {
        *id += 1;
        (*id - 1) % workers == worker
    };
    match set.as_str() {
        "clean" => {
            let n = arg_u64("len", if thorough { 11 } else { 8 }) as usize;
            for s in all_strings(&["/", ".", "a", "b"], n) {
                if mine(&mut id) {
                    prog.mark(id, &s);
                    out.rec(&unary_clean(&s));
                }
            }
            // scale: component counts around the widths a narrowed counter would have (u8), far beyond what the exhaustive
            // strings reach: n names, then k '..' (cancelling none, one, two, all-but-one, all, one more than all of them)
            for n in [120usize, 254, 255, 256, 257, 258, 300, 511, 512, 513] {
                for k in [0usize, 1, 2, n - 1, n, n + 1] {
                    for root in ["/", ""] {
                        if mine(&mut id) {
                            let s = format!("{}{}{}", root, vec!["a"; n].join("/"), "/..".repeat(k));
                            prog.mark(id, "long path");
                            out.rec(&unary_clean(&s));
                        }
                    }
                }
            }
            let wide = ["/", ".", "a", "b", "..", "//", "\u{e9}", "\u{65e5}", "~", "$", ":", " ", "ab", "./", "../"];
            let nr = if thorough { 400_000 } else { 40_000 };
            for _ in 0..nr / workers {
                let s = rand_string(&mut rng, &wide, 30);
                prog.mark(id, &s);
                out.rec(&unary_clean(&s));
            }
        },
        "protocol" => {
            let mut ins = all_strings(&["/", ":", "f", "i", "l", "e", "F", "a"], if thorough { 6 } else { 5 });
            for sch in ["file", "ftp", "http", "https", "FILE", "Ftp", "hTTp", "HTTPS", "sftp", "files", "xfile", ""] {
                for sep in ["://", ":/", ":///", "//", ":"] {
                    for rest in ["", "a", "/a", "a/b", "file://a", "ftp://", "//a", "a//b", "\u{e9}"] {
                        ins.push(format!("{}{}{}", sch, sep, rest));
                    }
                }
            }
            for s in ins {
                if mine(&mut id) {
                    prog.mark(id, &s);
                    out.rec(&unary(&s));
                }
            }
        },
        "relative" => {
            // "ab" extends "a" character-wise: a string-prefix test instead of a component-wise one shows up only then
            let ps = clean_paths(&["a", "ab", "c"], 4);
            for p in &ps {
                for b in &ps {
                    if mine(&mut id) {
                        prog.mark(id, p);
                        out.rec(&rel(p, b));
                    }
                }
            }
            let deep = clean_paths(&["a", "ab"], 7);
            let nr = if thorough { 200_000 } else { 20_000 };
            for _ in 0..nr / workers {
                let p = &deep[rng.gen_range(0..deep.len())];
                let b = &deep[rng.gen_range(0..deep.len())];
                out.rec(&rel(p, b));
            }
            // very deep operands (up to 14 components, short common prefixes): long runs of ".." and names with '~' / '$' in them,
            // which relative() must treat as ordinary characters
            let names = ["a", "ab", "c", "n~", "p$q", "\u{e9}"];
            for _ in 0..(if thorough { 40_000 } else { 4_000 }) / workers {
                let mk = |rng: &mut StdRng, pre: &[&str]| -> String {
                    let n = rng.gen_range(0..13usize);
                    let mut v: Vec<&str> = pre.to_vec();
                    for _ in 0..n {
                        v.push(names[rng.gen_range(0..names.len())]);
                    }
                    format!("/{}", v.join("/"))
                };
                let shared: Vec<&str> = (0..rng.gen_range(0..3)).map(|_| names[rng.gen_range(0..names.len())]).collect();
                let (p, b) = (mk(&mut rng, &shared), mk(&mut rng, &shared));
                out.rec(&rel(&p, &b));
            }
            // scale: operands of 255..300 components (shared prefix of 0 / 3 / all-but-one / all components of the shorter one)
            for n in [255usize, 256, 257, 300] {
                for m in [1usize, 255, 256, 257] {
                    for shared in [0usize, 3, n.min(m) - 1, n.min(m)] {
                        if mine(&mut id) {
                            let mk = |len: usize, tail: &str| -> String {
                                let mut v: Vec<&str> = vec!["s"; shared.min(len)];
                                while v.len() < len {
                                    v.push(tail);
                                }
                                format!("/{}", v.join("/"))
                            };
                            let (p, b) = (mk(n, "p"), mk(m, "b"));
                            prog.mark(id, "relative long");
                            out.rec(&rel(&p, &b));
                        }
                    }
                }
            }
            // relative (non-absolute) clean operands, as in the rustdoc example
            let relp: Vec<String> = clean_paths(&["a", "ab"], 3).iter().filter(|x| x.len() > 1).map(|x| x[1..].to_string()).collect();
            for p in &relp {
                for b in &relp {
                    if mine(&mut id) {
                        out.rec(&rel(p, b));
                    }
                }
            }
        },
        "helpers" => {
            let alpha = ["/", ".", ":", "a", "\u{e9}", "\u{65e5}"];
            let (la, lb) = if thorough { (5, 3) } else { (4, 2) };
            let as_ = all_strings(&alpha, la);
            let bs = all_strings(&alpha, lb);
            for a in &as_ {
                if mine(&mut id) {
                    prog.mark(id, a);
                    out.rec(&unary(a));
                }
            }
            for a in &as_ {
                for b in &bs {
                    if mine(&mut id) {
                        prog.mark(id, a);
                        out.rec(&binary(a, b));
                    }
                }
            }
            // constructed prefix / suffix pairs (the inverse laws need matching operands)
            let parts = all_strings(&alpha, 3);
            for s in &parts {
                for p in &parts {
                    if mine(&mut id) {
                        out.rec(&binary(&format!("{}{}", s, p), s));
                        out.rec(&binary(&format!("{}{}", p, s), s));
                    }
                }
            }
            let wide = ["/", ".", ":", "a", "b", "\u{e9}", "\u{65e5}", "\u{1d11e}", "..", "//", ".x", "x.", " "];
            let nr = if thorough { 300_000 } else { 30_000 };
            for _ in 0..nr / workers {
                let a = rand_string(&mut rng, &wide, 24);
                let b = if rng.gen_bool(0.5) {
                    // a real prefix or suffix of a
                    let cs: Vec<char> = a.chars().collect();
                    let k = rng.gen_range(0..=cs.len());
                    if rng.gen_bool(0.5) { cs[..k].iter().collect() } else { cs[k..].iter().collect() }
                } else {
                    rand_string(&mut rng, &wide, 6)
                };
                out.rec(&unary(&a));
                out.rec(&binary(&a, &b));
            }
        },
        _ => {
            eprintln!("unknown set");
            std::process::exit(2);
        },
    }
    let n = out.finish();
    eprintln!("strings: {} records", n);
}
