//! C11 driver: chmod / chown on the real Memfs, logged as GROUP records for spec/Trace_Vfs.tla
//! (`{"k":"g","be":"memfs","pre":REP,"steps":[{"c":CALL,"r":RES,"same":"t|f","post":REP|[]}]}`; every step of a
//! group is issued from the group's pre-state on a FRESH Memfs that replays the building calls).
//!
//!   chmoddrv --set sym|tree --tier quick|thorough --seed N --out FILE [--worker i --workers n]
//!
//! set `sym`  : a one-entry tree (file / dir / link->file) x start permissions x symbolic expressions
//!              (all 945 well-formed single clauses, seeded double clauses, every string up to length 4 over the
//!              grammar's alphabet, hand-written edge cases) through `chmod_b(p).no_recurse().sym(expr).exec()`.
//! set `tree` : every tree over names {a,b} x depth 2 with files, dirs and links (to dir / file / root / dangling)
//!              x every path x the builder option cross product of chmod_b and chown_b + chmod, chown, mkfile_m, mkdir_m.
//! After every call that changed the state, `mode`, `is_exec`, `is_readonly`, `owner` and `entry` are asked on the
//! same (mutated) instance; they are logged as a group of their own whose pre-state is that post-state (set sym: every
//! entry, once per distinct post-state and worker; set tree: the entries that changed, every 4th / 6th new post-state -
//! the observers are also asked on every pre-state).
use std::collections::HashSet;

use rand::{rngs::StdRng, seq::SliceRandom, Rng, SeedableRng};
use rivia::prelude::*;
use rvharness::ops::*;
use rvharness::*;

const MAX_STEPS: usize = 400; // Trace_Vfs encodes the example as group * 1000 + step

struct Ctx {
    out: Out,
    prog: Progress,
    id: u64,
    seen_post: HashSet<String>,
    steps: u64,
    qgroups: u64,
    qops: Vec<&'static str>,
    query_all: bool, // observers on every entry of a new post-state (else only on the entries that changed)
    post_every: u64, // observers on every n-th new post-state
}

fn build(calls: &[Value]) -> Memfs {
    let m = Memfs::new();
    for c in calls {
        let _ = apply(&m, c);
    }
    m
}

/// paths of all entries of a projected state (as "/a/b" strings)
fn entry_paths(rep: &Value) -> Vec<String> {
    let mut v = vec![];
    if let Some(es) = rep["e"].as_array() {
        for e in es {
            let cs: Vec<&str> = e["p"].as_array().map(|a| a.iter().map(|x| x.as_str().unwrap_or("")).collect()).unwrap_or_default();
            v.push(format!("/{}", cs.join("/")));
        }
    }
    v.sort();
    v
}

fn query_steps(cx: &mut Ctx, m: &Memfs, paths: &[String], what: &str) -> Vec<Value> {
    let mut steps = vec![];
    for p in paths {
        for q in cx.qops.clone() {
            let c = call(q, p, "");
            cx.id += 1;
            cx.prog.mark(cx.id, &format!("{} query {} {}", what, q, p));
            let r = apply(m, &c);
            steps.push(json!({"c": c, "r": r, "same": "t", "post": []}));
        }
    }
    steps
}

/// paths whose entry record differs between two projections (or exists in one only)
fn changed_paths(pre: &Value, post: &Value) -> Vec<String> {
    let idx = |rep: &Value| -> std::collections::HashMap<String, String> {
        let mut h = std::collections::HashMap::new();
        if let Some(es) = rep["e"].as_array() {
            for e in es {
                let cs: Vec<&str> = e["p"].as_array().map(|a| a.iter().map(|x| x.as_str().unwrap_or("")).collect()).unwrap_or_default();
                h.insert(format!("/{}", cs.join("/")), to_ascii_json(e));
            }
        }
        h
    };
    let (a, b) = (idx(pre), idx(post));
    let mut v: Vec<String> = b.iter().filter(|(p, e)| a.get(*p) != Some(*e)).map(|(p, _)| p.clone()).collect();
    v.sort();
    v
}

/// One pre-state (given by its building calls) x a list of calls; each call on a fresh instance.
fn run_group(cx: &mut Ctx, what: &str, setup: &[Value], calls: &[Value], with_pre_queries: bool) {
    let pre_m = build(setup);
    let pre = memproj::project(&pre_m);
    let prekey = to_ascii_json(&pre);
    let paths = entry_paths(&pre);
    let mut steps: Vec<Value> = vec![];
    if with_pre_queries {
        steps = query_steps(cx, &pre_m, &paths, what);
        let after = memproj::project(&pre_m);
        if to_ascii_json(&after) != prekey {
            steps.push(json!({"c": call("queries-changed-state", "", ""), "r": r_ok(json!([])), "same": "f", "post": after}));
        }
    }
    let flush = |cx: &mut Ctx, steps: &mut Vec<Value>| {
        if !steps.is_empty() {
            cx.steps += steps.len() as u64;
            cx.out.rec(&json!({"k": "g", "be": "memfs", "route": "direct", "pre": pre, "steps": steps}));
            steps.clear();
        }
    };
    for c in calls {
        let m = build(setup);
        cx.id += 1;
        cx.prog.mark(cx.id, &format!("{} setup={} call={}", what, setup.len(), to_ascii_json(c)));
        let r = apply(&m, c);
        let post = memproj::project(&m);
        let key = to_ascii_json(&post);
        if key == prekey {
            steps.push(json!({"c": c, "r": r, "same": "t", "post": []}));
        } else {
            // the observers on the mutated instance, judged against its own projection
            if cx.seen_post.insert(key.clone()) && (cx.seen_post.len() as u64) % cx.post_every == 0 {
                let qp = if cx.query_all { entry_paths(&post) } else { changed_paths(&pre, &post) };
                let qs = query_steps(cx, &m, &qp, what);
                let after = memproj::project(&m);
                let mut qs = qs;
                if to_ascii_json(&after) != key {
                    qs.push(json!({"c": call("queries-changed-state", "", ""), "r": r_ok(json!([])), "same": "f", "post": after}));
                }
                cx.steps += qs.len() as u64;
                cx.qgroups += 1;
                cx.out.rec(&json!({"k": "g", "be": "memfs", "route": "post-queries", "pre": post, "steps": qs}));
            }
            steps.push(json!({"c": c, "r": r, "same": "f", "post": post}));
        }
        if steps.len() >= MAX_STEPS {
            flush(cx, &mut steps);
        }
    }
    flush(cx, &mut steps);
}

// ------------------------------------------------------------------------------------------------ expressions

fn subseqs(base: &[&str]) -> Vec<String> {
    let n = base.len();
    (1..(1u32 << n)).map(|mask| (0..n).filter(|i| mask & (1 << i) != 0).map(|i| base[i]).collect::<String>()).collect()
}
fn singles() -> Vec<String> {
    let mut v = vec![];
    for t in ["d", "f", "a"] {
        for g in subseqs(&["u", "g", "o", "a"]) {
            for o in ["-", "+", "="] {
                for p in subseqs(&["r", "w", "x"]) {
                    v.push(format!("{}:{}{}{}", t, g, o, p));
                }
            }
        }
    }
    v
}
fn shuffled(rng: &mut StdRng, s: &str) -> String {
    let mut cs: Vec<char> = s.chars().collect();
    cs.shuffle(rng);
    cs.into_iter().collect()
}
/// a random well-formed clause, letters in any order, occasionally repeated
fn rand_clause(rng: &mut StdRng, sg: &[String], sp: &[String]) -> String {
    let t = ["d", "f", "a"][rng.gen_range(0..3)];
    let mut g = sg[rng.gen_range(0..sg.len())].clone();
    let mut p = sp[rng.gen_range(0..sp.len())].clone();
    if rng.gen_range(0..8) == 0 {
        g = shuffled(rng, &format!("{}{}", g, &g[..1]));
        p = shuffled(rng, &format!("{}{}", p, &p[..1]));
    }
    format!("{}:{}{}{}", t, g, ["-", "+", "="][rng.gen_range(0..3)], p)
}
fn edge_cases() -> Vec<String> {
    [
        "", "f:a+", ":a=r", ":a=rwx", ":u+x", "d:a+", "a:a=", "f", "f:", "f:a", "a:+x", "a:u", "a:ux", "au+x", "u+x", "+x", "a:u+x,", ",a:u+x", "a:u+x,,a:u+r",
        "a:u+x,f", "a:u+x,f:a+", "a:u+x,:a=r", "a:u+x,q", "d:a+x,f:a+w", "f:a+w,d:a+x", "d:u-r,a:oa+w", "a:a=rwx,f:a-x,d:o-w", "f:a+r,f:a-wx", "a:go-rwx",
        "ff:u+x", "dd:u+x", "df:a+r", "fd:a+r", "fa:u+x", "af:u+x", "da:u+x", "a::u+x", "a:u++x", "a:u+-x", "a:u+x+w", "a:u+x-w", "a:u+x:", "a:u=", "a:=r",
        "a: u+x", " a:u+x", "a:u+x ", "A:u+x", "a:U+x", "a:u+X", "a:u*x", "a:u+q", "q:u+x", "a;u+x", "a:u+x;a:g+x", "a:u+x, a:g+x", "a:ugoa=rwx", "a:aaaa=rrrr",
        "a:a-rwx,a:u+r,a:g+w,a:o+x", "d:a=rwx,d:g-w,d:o-rwx,f:a=rw,f:go-w", "f:u+x,f:u-x", "f:u-x,f:u+x", "a:a=r,a:a=r", "a:a+rwx,a:a=w", "a:u+s", "a:u+t", "a:u+\u{e9}",
        "\u{e9}:u+x", "a:u+x,\u{e9}", "755", "0755", "u+x", "a+x", "f:755", "a:u=rwx,g=rx", "a:u=rwx,g=rx,o=rx",
    ]
    .iter()
    .map(|s| s.to_string())
    .collect()
}

fn sym_call(path: &str, expr: &str) -> Value {
    call_b("chmod_b", path, "", 0, 0, expr, "Rs")
}

fn set_sym(cx: &mut Ctx, thorough: bool, seed: u64, worker: u64, workers: u64) {
    // start permissions: every value in the thorough tier; in the quick tier all-off, all-on, each group alone, each
    // permission alone and mixed values (every bit is seen on and off next to both states of its neighbours)
    let perms: Vec<u32> = if thorough {
        (0..512).collect()
    } else {
        vec![0o000, 0o777, 0o644, 0o755, 0o700, 0o070, 0o007, 0o444, 0o222, 0o111, 0o421, 0o124, 0o652, 0o250, 0o507, 0o136]
    };
    // a link itself never changes: fewer start permissions (they are the permissions of its target)
    let link_perms: Vec<u32> = if thorough { (0..512).filter(|p| p % 8 == (p >> 3) % 8).collect() } else { vec![0o644, 0o000, 0o777, 0o250] };
    let kinds = ["file", "dir", "link"];
    let sg = subseqs(&["u", "g", "o", "a"]);
    let sp = subseqs(&["r", "w", "x"]);
    let single = singles();
    let ndouble = if thorough { 150 } else { 250 };
    let mut unit: u64 = 0;
    let setup_of = |kind: &str, perm: u32| -> (Vec<Value>, &'static str) {
        match kind {
            "file" => (vec![call_m("mkfile_m", "/f", perm, 0)], "/f"),
            "dir" => (vec![call_m("mkdir_m", "/d", perm, 0)], "/d"),
            _ => (vec![call_m("mkfile_m", "/f", perm, 0), call("symlink", "/l", "/f")], "/l"),
        }
    };
    // (a) well-formed single clauses + seeded double clauses, from every start permission
    for (ki, kind) in kinds.iter().enumerate() {
        for &perm in if *kind == "link" { &link_perms } else { &perms } {
            unit += 1;
            if (unit - 1) % workers != worker {
                continue;
            }
            let (setup, path) = setup_of(kind, perm);
            let mut rng = StdRng::seed_from_u64(seed.wrapping_mul(7919).wrapping_add((perm as u64) * 3 + ki as u64));
            let mut calls: Vec<Value> = single.iter().map(|e| sym_call(path, e)).collect();
            for i in 0..ndouble {
                // half of the double clauses start with a clause of the "other" kind (the interesting case of C11)
                let c1 = if i % 2 == 0 { single[rng.gen_range(0..single.len())].clone() } else { rand_clause(&mut rng, &sg, &sp) };
                let c2 = rand_clause(&mut rng, &sg, &sp);
                let mut e = format!("{},{}", c1, c2);
                if i % 10 == 9 {
                    e = format!("{},{}", e, rand_clause(&mut rng, &sg, &sp));
                }
                calls.push(sym_call(path, &e));
            }
            run_group(cx, "sym", &setup, &calls, true);
        }
    }
    // (b) malformed and raw strings: every string up to length 4 over the grammar's alphabet (+ one foreign letter),
    //     the hand-written edge cases, random strings up to length 9
    let alpha: Vec<&str> = if thorough {
        vec!["d", "f", "a", ":", "u", "g", "o", "+", "-", "=", "r", "w", "x", ",", "q"]
    } else {
        vec!["d", "f", "a", ":", "u", "+", "=", "r", "x", ",", "q"]
    };
    let mut raw = all_strings(&alpha, 4);
    let (n3, nexh) = (all_strings(&alpha, 3).len(), raw.len());
    raw.extend(edge_cases());
    let mut rng = StdRng::seed_from_u64(seed.wrapping_mul(104729).wrapping_add(17));
    let full = ["d", "f", "a", ":", "u", "g", "o", "+", "-", "=", "r", "w", "x", ",", ":", ","];
    let nraw = raw.len();
    for _ in 0..(if thorough { 15_000 } else { 2_000 }) {
        // random strings biased towards the shape of a clause
        let n = rng.gen_range(5..=9);
        let mut s = String::new();
        for i in 0..n {
            let c = match (i, rng.gen_range(0..4)) {
                (0, 0..=2) => ["d", "f", "a"][rng.gen_range(0..3)],
                (1, 0..=2) => ":",
                (2, 0..=2) => ["u", "g", "o", "a"][rng.gen_range(0..4)],
                _ => full[rng.gen_range(0..full.len())],
            };
            s.push_str(c);
        }
        raw.push(s);
    }
    // the exhaustive strings from one start permission, the edge cases and random strings from a second one as well
    let raw_perms: Vec<u32> = if thorough { vec![0o644, 0o070] } else { vec![0o644, 0o070] };
    for kind in kinds.iter() {
        for (pi, &perm) in raw_perms.iter().enumerate() {
            // quick tier: a link accepts everything (one class): exhaustive part only up to length 3 there
            let list: Vec<String> = if pi > 0 && !thorough {
                raw[nexh..nraw].to_vec()
            } else if !thorough && *kind == "link" {
                raw[..n3].iter().chain(raw[nexh..].iter()).cloned().collect()
            } else {
                raw.clone()
            };
            for block in list.chunks(2000) {
                unit += 1;
                if (unit - 1) % workers != worker {
                    continue;
                }
                let (setup, path) = setup_of(kind, perm);
                let calls: Vec<Value> = block.iter().map(|e| sym_call(path, e)).collect();
                run_group(cx, "sym-raw", &setup, &calls, false);
            }
        }
    }
}

// ------------------------------------------------------------------------------------------------ trees

const NS: [&str; 6] = ["/a", "/b", "/a/a", "/a/b", "/b/a", "/b/b"];
const TARGETS: [&str; 7] = ["/", "/a", "/b", "/a/a", "/a/b", "/b/a", "/b/b"];

/// every assignment none / file / dir / link(target) to the six paths with: a child only under a directory,
/// at most `maxlinks` links, no link to itself; `deep` = top-level names that may have children
fn trees(maxlinks: usize, deep: &[&str]) -> Vec<Vec<(String, String)>> {
    // kind strings: "-", "f", "d", "l:<target>"
    fn rec(i: usize, cur: &mut Vec<String>, nl: usize, maxlinks: usize, deep: &[&str], out: &mut Vec<Vec<(String, String)>>) {
        if i == NS.len() {
            out.push(NS.iter().zip(cur.iter()).filter(|(_, k)| *k != "-").map(|(p, k)| (p.to_string(), k.clone())).collect());
            return;
        }
        let p = NS[i];
        let mut opts: Vec<String> = vec!["-".to_string()];
        let parent_ok = if i < 2 {
            true
        } else {
            let par = if p.starts_with("/a/") { 0 } else { 1 };
            cur[par] == "d" && deep.contains(&&NS[par][1..])
        };
        if parent_ok {
            opts.push("f".to_string());
            opts.push("d".to_string());
            if nl < maxlinks {
                for t in TARGETS {
                    if t != p {
                        opts.push(format!("l:{}", t));
                    }
                }
            }
        }
        for o in opts {
            let isl = o.starts_with("l:");
            cur.push(o);
            rec(i + 1, cur, nl + isl as usize, maxlinks, deep, out);
            cur.pop();
        }
    }
    let mut out = vec![];
    rec(0, &mut vec![], 0, maxlinks, deep, &mut out);
    out
}

/// building calls of a tree; variant 0 = default modes, 1 = odd modes (files 0o624 / 0o644, dirs 0o721 / 0o741) and
/// owners changed on files, 2 = restrictive modes (files 0o400, dirs 0o500)
fn tree_setup(t: &[(String, String)], variant: u32) -> Vec<Value> {
    let mut v = vec![];
    let depth = |p: &str| p.matches('/').count() as u32;
    for (p, k) in t.iter().filter(|(_, k)| k == "d") {
        let _ = k;
        v.push(match variant {
            0 => call("mkdir_p", p, ""),
            1 => call_m("mkdir_m", p, 0o701 + 16 * depth(p), 0),
            _ => call_m("mkdir_m", p, 0o500, 0),
        });
    }
    for (p, k) in t.iter().filter(|(_, k)| k == "f") {
        let _ = k;
        v.push(match variant {
            0 => call("mkfile", p, ""),
            1 => call_m("mkfile_m", p, 0o604 + 16 * depth(p), 0),
            _ => call_m("mkfile_m", p, 0o400, 0),
        });
        if variant == 1 {
            v.push(call_b("chown_b", p, "", 1, 2, "", "oR"));
        }
    }
    for (p, k) in t.iter().filter(|(_, k)| k.starts_with("l:")) {
        v.push(call("symlink", p, &k[2..]));
    }
    v
}

/// calls issued from one pre-state on path `p`; `full` = the complete cross product of the builder options,
/// otherwise every symbolic expression without octal + every octal selector with {no, one good, one malformed} expression
fn tree_calls(p: &str, full: bool, thorough: bool) -> Vec<Value> {
    let mut v = vec![];
    let recs: &[&str] = if thorough && full { &["", "r", "R"] } else { &["", "R"] };
    let syms: Vec<(&str, &str)> = vec![
        ("", ""),
        ("s", "f:u+x"),
        ("s", "f:a+"),
        ("s", "d:o-rx,f:g+w"),
        ("s", "a:a-w"),
        ("s", "a:a+x,d:g=rwx"),
        ("s", "d:u+q"),
        ("s", "a:u+x,f"),
        ("o", ""),
        ("S", ""),
    ];
    // (flags, m, n)
    let octals: Vec<(&str, u32, u32)> = vec![("", 0, 0), ("a", 0o500, 0), ("d", 0o510, 0), ("f", 0, 0o620), ("df", 0o710, 0o602)];
    for r in recs {
        for fo in ["", "F"] {
            for (oi, (of, m, n)) in octals.iter().enumerate() {
                for (si, (sf, sym)) in syms.iter().enumerate() {
                    if full || oi == 0 || si < if thorough { 3 } else { 2 } || (si == 2 && oi == 2) {
                        v.push(call_b("chmod_b", p, "", *m, *n, sym, &format!("{}{}{}{}", r, fo, of, sf)));
                    }
                }
            }
            for (wi, who) in ["u", "o", "g", "ug"].iter().enumerate() {
                if full || thorough || wi < 2 {
                    v.push(call_b("chown_b", p, "", 5, 7, "", &format!("{}{}{}", r, fo, who)));
                }
            }
            v.push(call_b("chown_b", p, "", 5, 7, "", &format!("{}{}", r, fo))); // nothing to set
        }
    }
    v.push(call_m("chmod", p, 0o500, 0));
    v.push(call_m("chmod", p, 0o777, 0));
    v.push(call_m("chown", p, 5, 7));
    if p != "/" {
        // creation on the root itself belongs to C01 (A21)
        v.push(call_m("mkfile_m", p, 0o600, 0));
        v.push(call_m("mkdir_m", p, 0o700, 0));
    }
    if thorough {
        v.push(call_b("chmod_b", p, "", 0o1777, 0o4755, "", "df")); // special bits through the octal options
        v.push(call_b("chmod_b", p, "", 0, 0, "a:a=r", "rFs"));
    }
    v
}

fn set_tree(cx: &mut Ctx, thorough: bool, seed: u64, worker: u64, workers: u64) {
    let mut rng = StdRng::seed_from_u64(seed.wrapping_mul(15485863).wrapping_add(3));
    let nlinks = |t: &Vec<(String, String)>| t.iter().filter(|(_, k)| k.starts_with("l:")).count();
    // (tree, variant of the modes, full option product)
    let mut work: Vec<(Vec<(String, String)>, u32, bool)> = vec![];
    let narrow = trees(1, &["a"]); // children only below /a: 33 trees without and ~200 with one link
    for t in &narrow {
        if nlinks(t) == 0 {
            work.push((t.clone(), 0, true));
            work.push((t.clone(), 1, thorough));
            work.push((t.clone(), 2, false));
        } else {
            work.push((t.clone(), 1, false));
        }
    }
    let wide: Vec<_> = trees(1, &["a", "b"]).into_iter().filter(|t| t.iter().any(|(p, _)| p.starts_with("/b/"))).collect();
    let mut two: Vec<_> = trees(2, &["a", "b"]).into_iter().filter(|t| nlinks(t) == 2).collect();
    two.shuffle(&mut rng);
    if thorough {
        let mut wide = wide;
        wide.shuffle(&mut rng);
        for t in wide.into_iter().take(500) {
            work.push((t, 1, false));
        }
        for t in two.into_iter().take(400) {
            work.push((t, 1, false));
        }
    } else {
        // a seeded sample of the rest: children on both sides, two links
        let mut wide = wide;
        wide.shuffle(&mut rng);
        for t in wide.into_iter().take(12).chain(two.into_iter().take(24)) {
            work.push((t, 1, false));
        }
    }
    let mut unit: u64 = 0;
    for (t, variant, full) in &work {
        let setup = tree_setup(t, *variant);
        // every existing path, the root, and one (thorough: two) missing paths - all missing paths fail alike
        let mut missing_done = 0;
        let mut first = true;
        for p in TARGETS.iter() {
            let exists = *p == "/" || t.iter().any(|(q, _)| q == p);
            if !exists {
                if missing_done >= if thorough { 2 } else { 1 } {
                    continue;
                }
                missing_done += 1;
            }
            unit += 1;
            let was_first = first;
            first = false;
            if (unit - 1) % workers != worker {
                continue;
            }
            let calls = tree_calls(p, *full, thorough);
            run_group(cx, "tree", &setup, &calls, was_first);
        }
    }
}

/// set `prog`: EVERY builder program of up to 3 (thorough: 4) setter calls - chmod_b (all / dirs / files / sym / follow / recurse /
/// no_recurse / readonly / secure), chown_b (uid / gid / owner / follow / recurse), copy_b (chmod_all / chmod_dirs / chmod_files /
/// follow) - executed on one fixed tree with directories, files of different modes and a link; last setter wins
fn set_prog(cx: &mut Ctx, thorough: bool, worker: u64, workers: u64) {
    let setup = vec![
        call("mkdir_p", "/s/d", ""),
        call_d("write_all", "/s/f", b"x"),
        call_d("write_all", "/s/d/g", b"y"),
        call_m("chmod", "/s/d", 0o750, 0),
        call_m("chmod", "/s/d/g", 0o604, 0),
        call("symlink", "/s/l", "/s/d"),
        call("mkdir_p", "/t", ""),
        // chains of links (a link to a link to a directory / to a file) outside /s
        call("symlink", "/c1", "/s/l"),
        call("symlink", "/c2", "/c1"),
        call("symlink", "/m1", "/s/f"),
        call("symlink", "/m2", "/m1"),
    ];
    let maxlen = if thorough { 4 } else { 3 };
    fn seqs(alpha: &[(u8, u32)], maxlen: usize) -> Vec<Vec<(u8, u32)>> {
        let mut out: Vec<Vec<(u8, u32)>> = vec![vec![]];
        let mut layer: Vec<Vec<(u8, u32)>> = vec![vec![]];
        for _ in 0..maxlen {
            let mut next = vec![];
            for s in &layer {
                for a in alpha {
                    let mut t = s.clone();
                    t.push(*a);
                    next.push(t);
                }
            }
            out.extend(next.iter().cloned());
            layer = next;
        }
        out
    }
    // codes as in ops::apply ("chmod_seq" / "chown_seq" / "copy_seq")
    let chmod_alpha: Vec<(u8, u32)> = vec![(1, 0o700), (2, 0o711), (3, 0o640), (5, 0), (6, 0), (7, 0), (7, 2), (8, 0), (9, 0)];
    let chown_alpha: Vec<(u8, u32)> = vec![(1, 5 * 256 + 7), (2, 5 * 256 + 7), (3, 6 * 256 + 8), (5, 0), (6, 0)];
    let copy_alpha: Vec<(u8, u32)> = vec![(1, 0o700), (2, 0o711), (3, 0o640), (4, 0), (5, 0)];
    let mut calls: Vec<Value> = vec![];
    for p in seqs(&chmod_alpha, maxlen) {
        calls.push(call_seq("chmod_seq", "/s", "", &p));
    }
    for p in seqs(&chown_alpha, maxlen) {
        calls.push(call_seq("chown_seq", "/s", "", &p));
    }
    for p in seqs(&copy_alpha, maxlen) {
        calls.push(call_seq("copy_seq", "/s", "/t/c", &p));
    }
    // with follow on chains of links: where the change lands is judged only as far as it is settled, but no link's own mode
    // may ever change (VfsJudge!LinkModesKept)
    for target in ["/c2", "/c1", "/m2", "/m1", "/s/l"] {
        for p in [vec![(4u8, 0u32), (1, 0o700)], vec![(4, 0), (7, 0)], vec![(4, 0), (3, 0o640)], vec![(4, 0), (2, 0o711), (6, 0)], vec![(4, 0), (7, 2), (6, 0)]] {
            calls.push(call_seq("chmod_seq", target, "", &p));
        }
    }
    let mine: Vec<Value> = calls.into_iter().enumerate().filter(|(i, _)| (*i as u64) % workers == worker).map(|(_, c)| c).collect();
    for chunk in mine.chunks(MAX_STEPS / 2) {
        run_group(cx, "prog", &setup, chunk, false);
    }
}

fn main() {
    silence_panics();
    limit_memory(4 << 30);
    let set = arg_or("set", "sym");
    let tier = arg_or("tier", "quick");
    let seed = arg_u64("seed", 1);
    let worker = arg_u64("worker", 0);
    let workers = arg_u64("workers", 1);
    let thorough = tier == "thorough";
    let mut cx = Ctx { out: Out::create(arg_or("out", "/dev/stdout")), prog: Progress::from_env(), id: 0, seen_post: HashSet::new(), steps: 0, qgroups: 0,
        qops: if set == "sym" { vec!["mode", "is_exec", "is_readonly", "owner", "entry"] } else { vec!["mode", "is_exec", "is_readonly", "owner"] },
        query_all: set == "sym",
        post_every: if set == "sym" { 1 } else if thorough { 6 } else { 4 } };
    match set.as_str() {
        "sym" => set_sym(&mut cx, thorough, seed, worker, workers),
        "tree" => set_tree(&mut cx, thorough, seed, worker, workers),
        "prog" => set_prog(&mut cx, thorough, worker, workers),
        _ => {
            eprintln!("unknown --set {}", set);
            std::process::exit(2);
        },
    }
    eprintln!("chmoddrv {}: worker {}/{}: {} groups, {} steps, {} post-query groups", set, worker, workers, cx.out.n, cx.steps, cx.qgroups);
    cx.out.finish();
}
