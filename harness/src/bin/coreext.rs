//! C19 - core helpers (IteratorExt, StringExt, OptionExt, PeekableExt, defer): the REAL functions driven
//! exhaustively over small domains, then seeded random beyond; one ND-JSON record per case, every call
//! under gres()/guard() (a panic is data).  Judged by spec/Trace_CoreExt.tla against spec/CoreExt.tla.
//! Usage: coreext --set iter|str|defer|all --tier quick|thorough --seed N --out FILE [--worker i --workers n]
//!
//! Record kinds
//!   sl  slice(l, r) on 0..len-1        {len, l, r, o:{slice (Vec), x_slice (Range)}}
//!   dr  drop(n) on 0..len-1            {len, n, o:{drop, x_drop}}
//!   it  first .. consume on a sequence {s, o:{first, first_result, last_result, single, some, consume}}
//!   oh  Option::has                    {opt, x, o:{has, has_s}}
//!   tw  take_while_p                   {s, p, t, o:{next, fold}}   value = [taken, following next(), rest]
//!   st  size / to_bool                 {a (chars), ab (UTF-8 bytes), o:{size, S_size, to_bool, S_to_bool}}
//!   ts  trim_suffix                    {a, b, o:{trim_suffix, S_trim_suffix}}
//!   df  defer on a program shape       {p: shape, o:{func:{log, how}, mac:{log, how}}}
use rand::{rngs::StdRng, Rng, SeedableRng};
use rivia::prelude::*;
use rvharness::*;
use std::cell::RefCell;

fn ints<I: IntoIterator<Item = i32>>(it: I) -> Value {
    Value::Array(it.into_iter().map(|x| json!(x)).collect())
}
fn opt_int(o: Option<i32>) -> Value {
    match o {
        Some(x) => json!([x]),
        None => json!([]),
    }
}
fn res_int(r: RvResult<i32>) -> Value {
    res(r, |x| json!([x]))
}

// ------------------------------------------------------------------------------------------------ iterators
fn rec_slice(len: i32, l: isize, r: isize) -> Value {
    let v: Vec<i32> = (0..len).collect();
    let mut o = Map::new();
    o.insert("slice".into(), gres(|| r_ok(ints(v.clone().into_iter().slice(l, r)))));
    o.insert("x_slice".into(), gres(|| r_ok(ints((0..len).slice(l, r)))));
    json!({"k": "sl", "len": len, "l": l, "r": r, "o": Value::Object(o)})
}

fn rec_drop(len: i32, n: isize) -> Value {
    let v: Vec<i32> = (0..len).collect();
    let mut o = Map::new();
    o.insert("drop".into(), gres(|| r_ok(ints(v.clone().into_iter().drop(n)))));
    o.insert("x_drop".into(), gres(|| r_ok(ints((0..len).drop(n)))));
    json!({"k": "dr", "len": len, "n": n, "o": Value::Object(o)})
}

fn rec_iter(s: &[i32]) -> Value {
    let mut o = Map::new();
    o.insert("first".into(), gres(|| r_ok(opt_int(s.to_vec().into_iter().first()))));
    o.insert("first_result".into(), gres(|| res_int(s.to_vec().into_iter().first_result())));
    o.insert("last_result".into(), gres(|| res_int(s.to_vec().into_iter().last_result())));
    o.insert("single".into(), gres(|| res_int(s.to_vec().into_iter().single())));
    o.insert("some".into(), gres(|| r_ok(vbool(s.to_vec().into_iter().some()))));
    // what the caller still gets after consume(): the following next() and everything after it
    o.insert(
        "consume".into(),
        gres(|| {
            let mut it = s.to_vec().into_iter().consume();
            let nx = it.next();
            r_ok(ints(nx.into_iter().chain(it)))
        }),
    );
    json!({"k": "it", "s": ints(s.iter().cloned()), "o": Value::Object(o)})
}

fn rec_has(opt: Option<i32>, x: i32) -> Value {
    let mut o = Map::new();
    o.insert("has".into(), gres(|| r_ok(vbool(opt.has(x)))));
    // a second element type: Option<String> asked with a &str
    o.insert(
        "has_s".into(),
        gres(|| {
            let os: Option<String> = opt.map(|v| format!("v{}", v));
            let xs = format!("v{}", x);
            r_ok(vbool(os.has(xs.as_str())))
        }),
    );
    json!({"k": "oh", "opt": opt_int(opt), "x": x, "o": Value::Object(o)})
}

fn pred(p: &str, t: i32, x: i32) -> bool {
    match p {
        "le" => x <= t,
        _ => x % 2 == 0,
    }
}

fn rec_tw(s: &[i32], p: &'static str, t: i32) -> Value {
    let mut o = Map::new();
    o.insert(
        "next".into(),
        gres(|| {
            let mut it = s.to_vec().into_iter().peekable();
            let mut taken = vec![];
            {
                let mut tw = it.take_while_p(|x| pred(p, t, *x));
                while let Some(x) = tw.next() {
                    taken.push(x);
                }
                // asking again after the end must not consume anything either
                if tw.next().is_some() {
                    taken.push(-999);
                }
            }
            let nx = it.next();
            let rest: Vec<i32> = it.collect();
            r_ok(json!([ints(taken), opt_int(nx), ints(rest)]))
        }),
    );
    o.insert(
        "fold".into(),
        gres(|| {
            let mut it = s.to_vec().into_iter().peekable();
            let taken = it.take_while_p(|x| pred(p, t, *x)).fold(Vec::new(), |mut a, x| {
                a.push(x);
                a
            });
            let nx = it.next();
            let rest: Vec<i32> = it.collect();
            r_ok(json!([ints(taken), opt_int(nx), ints(rest)]))
        }),
    );
    json!({"k": "tw", "s": ints(s.iter().cloned()), "p": p, "t": t, "o": Value::Object(o)})
}

fn all_seqs(vals: &[i32], maxlen: usize) -> Vec<Vec<i32>> {
    let mut out = vec![vec![]];
    let mut layer: Vec<Vec<i32>> = vec![vec![]];
    for _ in 0..maxlen {
        let mut next = vec![];
        for s in &layer {
            for v in vals {
                let mut t = s.clone();
                t.push(*v);
                next.push(t);
            }
        }
        out.extend(next.iter().cloned());
        layer = next;
    }
    out
}

// ------------------------------------------------------------------------------------------------ strings
fn rec_str(a: &str) -> Value {
    let owned = a.to_string();
    let mut o = Map::new();
    o.insert("size".into(), gres(|| r_ok(json!([<str as StringExt>::size(a)]))));
    o.insert("S_size".into(), gres(|| r_ok(json!([<String as StringExt>::size(&owned)]))));
    o.insert("to_bool".into(), gres(|| r_ok(vbool(<str as StringExt>::to_bool(a)))));
    o.insert("S_to_bool".into(), gres(|| r_ok(vbool(<String as StringExt>::to_bool(&owned)))));
    json!({"k": "st", "a": chars(a), "ab": bytes(a.as_bytes()), "o": Value::Object(o)})
}

fn rec_trim(a: &str, b: &str) -> Value {
    let owned = a.to_string();
    let mut o = Map::new();
    o.insert("trim_suffix".into(), gres(|| r_ok(chars(&<str as StringExt>::trim_suffix(a, b)))));
    o.insert("S_trim_suffix".into(), gres(|| r_ok(chars(&<String as StringExt>::trim_suffix(&owned, b.to_string())))));
    json!({"k": "ts", "a": chars(a), "b": chars(b), "o": Value::Object(o)})
}

fn rand_string(rng: &mut StdRng, alpha: &[&str], maxlen: usize) -> String {
    let n = rng.gen_range(0..=maxlen);
    (0..n).map(|_| alpha[rng.gen_range(0..alpha.len())]).collect()
}

// ------------------------------------------------------------------------------------------------ defer
/// A program shape: `g` guards, up to two nested scopes, exit 0 = fall through, 1 = return, 2 = panic.
/// Statement order inside a scope: guard 1, nested scope 1, guard 2, nested scope 2, exit marker, exit.
#[derive(Clone, Debug)]
struct Scope {
    g: u8,
    kids: Vec<Scope>,
    x: u8,
}
type Log = RefCell<Vec<i64>>;

fn shape_json(s: &Scope) -> Value {
    let x = ["fall", "return", "panic"][s.x as usize];
    json!({"g": s.g, "x": x, "kids": Value::Array(s.kids.iter().map(shape_json).collect())})
}
fn depth(s: &Scope) -> usize {
    1 + s.kids.iter().map(depth).max().unwrap_or(0)
}

/// every shape with the given maximal number of nested scopes per level (kids_at[0] = root)
fn shapes(kids_at: &[usize]) -> Vec<Scope> {
    if kids_at.is_empty() {
        return vec![];
    }
    let below = shapes(&kids_at[1..]);
    let mut kidseqs: Vec<Vec<Scope>> = vec![vec![]];
    let mut layer: Vec<Vec<Scope>> = vec![vec![]];
    for _ in 0..kids_at[0] {
        let mut next = vec![];
        for ks in &layer {
            for b in &below {
                let mut t = ks.clone();
                t.push(b.clone());
                next.push(t);
            }
        }
        kidseqs.extend(next.iter().cloned());
        layer = next;
    }
    let mut out = vec![];
    for g in 0..=2u8 {
        for ks in &kidseqs {
            for x in 0..=2u8 {
                out.push(Scope { g, kids: ks.clone(), x });
            }
        }
    }
    out
}

fn rand_shape(rng: &mut StdRng, level: usize) -> Scope {
    let nk = if level >= 3 { 0 } else { rng.gen_range(0..=2) };
    Scope { g: rng.gen_range(0..=2), kids: (0..nk).map(|_| rand_shape(rng, level + 1)).collect(), x: rng.gen_range(0..=2) }
}

// The program text: three levels of REAL nested blocks in one function.  Every scope is a block (a match arm
// chosen by its number of guards) whose guards are ordinary `let` bindings of rivia's defer guard; a nested
// scope is a block inside it; "return" is a real `return` out of all enclosing blocks, "panic" a real panic!.
macro_rules! mk_guard {
    (func, $log:expr, $id:expr) => {
        let id: i64 = $id;
        $log.borrow_mut().push(id);
        let _guard = defer(|| $log.borrow_mut().push(-id));
    };
    (mac, $log:expr, $id:expr) => {
        let id: i64 = $id;
        $log.borrow_mut().push(id);
        defer!($log.borrow_mut().push(-id));
    };
}
macro_rules! leave {
    ($s:expr, $code:expr, $log:expr) => {
        $log.borrow_mut().push($code * 10);
        match $s.x {
            0 => {},
            1 => return,
            _ => panic!("shape"),
        }
    };
}
macro_rules! kid {
    ($route:ident, $s:expr, $i:expr, $code:expr, $log:expr, []) => {};
    ($route:ident, $s:expr, $i:expr, $code:expr, $log:expr, [$h:tt $($more:tt)*]) => {
        if let Some(k) = $s.kids.get($i) {
            scope!($route, k, $code * 10 + $i + 1, $log, [$($more)*]);
        }
    };
}
macro_rules! scope {
    ($route:ident, $s:expr, $code:expr, $log:expr, [$($more:tt)*]) => {{
        let s: &Scope = $s;
        let code: i64 = $code;
        match s.g {
            0 => {
                kid!($route, s, 0, code, $log, [$($more)*]);
                kid!($route, s, 1, code, $log, [$($more)*]);
                leave!(s, code, $log);
            },
            1 => {
                mk_guard!($route, $log, code * 10 + 1);
                kid!($route, s, 0, code, $log, [$($more)*]);
                kid!($route, s, 1, code, $log, [$($more)*]);
                leave!(s, code, $log);
            },
            _ => {
                mk_guard!($route, $log, code * 10 + 1);
                kid!($route, s, 0, code, $log, [$($more)*]);
                mk_guard!($route, $log, code * 10 + 2);
                kid!($route, s, 1, code, $log, [$($more)*]);
                leave!(s, code, $log);
            },
        }
    }};
}

/// guards made with the `defer(..)` function
fn prog_func(root: &Scope, log: &Log) {
    scope!(func, root, 1, log, [l2 l3]);
}
/// guards made with the `defer!` macro
fn prog_mac(root: &Scope, log: &Log) {
    scope!(mac, root, 1, log, [l2 l3]);
}

fn run_prog(f: fn(&Scope, &Log), s: &Scope) -> Value {
    let log: Log = RefCell::new(vec![]);
    let how = match guard(|| f(s, &log)) {
        Ok(()) => "returned".to_string(),
        Err(m) if m == "shape" => "panicked".to_string(),
        Err(m) => format!("panicked:{}", m.chars().take(60).collect::<String>()),
    };
    let l = log.borrow();
    json!({"log": Value::Array(l.iter().map(|x| json!(*x)).collect()), "how": how})
}

/// A deferred closure is a scope of its own: guards it creates while it runs (at scope exit - possibly during an unwind) run when
/// IT ends, last created first.  Log: 11 guard created, 10 leaving, -11 closure starts, 111.. inner guards created, -119 closure
/// body ends, -(11k) inner closures.  x: how the outer scope is left (0 fall through, 1 return, 2 panic).
fn nested_prog(route: u8, n: u8, x: u8, log: &Log) {
    let body = || {
        log.borrow_mut().push(-11);
        let _g1;
        let _g2;
        if n >= 1 {
            log.borrow_mut().push(111);
            _g1 = defer(|| log.borrow_mut().push(-111));
        }
        if n >= 2 {
            log.borrow_mut().push(112);
            _g2 = defer(|| log.borrow_mut().push(-112));
        }
        log.borrow_mut().push(-119);
    };
    log.borrow_mut().push(11);
    if route == 0 {
        let _guard = defer(body);
        log.borrow_mut().push(10);
        match x {
            0 => {},
            1 => return,
            _ => panic!("shape"),
        }
    } else {
        defer!(body());
        log.borrow_mut().push(10);
        match x {
            0 => {},
            1 => return,
            _ => panic!("shape"),
        }
    }
}
fn rec_nested(n: u8, x: u8) -> Value {
    let run = |route: u8| -> Value {
        let log: Log = RefCell::new(vec![]);
        let how = match guard(|| nested_prog(route, n, x, &log)) {
            Ok(()) => "returned".to_string(),
            Err(m) if m == "shape" => "panicked".to_string(),
            Err(m) => format!("panicked:{}", m.chars().take(60).collect::<String>()),
        };
        let l = log.borrow();
        json!({"log": Value::Array(l.iter().map(|x| json!(*x)).collect()), "how": how})
    };
    let xs = ["fall", "return", "panic"][x as usize];
    json!({"k": "dn", "n": n, "x": xs, "o": {"func": run(0), "mac": run(1)}})
}

fn rec_defer(s: &Scope) -> Value {
    json!({"k": "df", "p": shape_json(s), "o": {"func": run_prog(prog_func, s), "mac": run_prog(prog_mac, s)}})
}

fn main() {
    silence_panics();
    let set = arg_or("set", "all");
    let tier = arg_or("tier", "quick");
    let seed = arg_u64("seed", 1);
    let worker = arg_u64("worker", 0);
    let workers = arg_u64("workers", 1);
    let thorough = tier == "thorough";
    let mut out = Out::create(arg_or("out", "/dev/stdout"));
    let prog = Progress::from_env();
    let mut rng = StdRng::seed_from_u64(seed.wrapping_mul(1000003).wrapping_add(worker).wrapping_add(19_000_000));
    let mut id: u64 = 0;
    let mine = |id: &mut u64| -> bool {
        *id += 1;
        (*id - 1) % workers == worker
    };
    let all = set == "all";
    if !["all", "iter", "str", "defer"].contains(&set.as_str()) {
        eprintln!("unknown set");
        std::process::exit(2);
    }

    if all || set == "iter" {
        // slice / drop: lengths 0..=8 x indices -10..=10 (exhaustive)
        for len in 0..=8 {
            for l in -10..=10isize {
                for r in -10..=10isize {
                    if mine(&mut id) {
                        prog.mark(id, &format!("slice len={} l={} r={}", len, l, r));
                        out.rec(&rec_slice(len, l, r));
                    }
                }
                if mine(&mut id) {
                    prog.mark(id, &format!("drop len={} n={}", len, l));
                    out.rec(&rec_drop(len, l));
                }
            }
        }
        // scale: lengths and indices at and around 127/128 and 255/256 (where a narrowed index type would wrap or saturate)
        let edge: [isize; 18] = [0, 1, -1, 2, 126, 127, 128, 129, 254, 255, 256, 257, -127, -128, -129, -255, -256, -257];
        for len in [255, 256, 257, 300] {
            for l in edge {
                for r in edge {
                    if mine(&mut id) {
                        prog.mark(id, &format!("slice len={} l={} r={}", len, l, r));
                        out.rec(&rec_slice(len, l, r));
                    }
                }
                if mine(&mut id) {
                    prog.mark(id, &format!("drop len={} n={}", len, l));
                    out.rec(&rec_drop(len, l));
                }
            }
        }
        // first .. consume: every sequence over three values up to length 3 (4 in the thorough tier)
        for s in all_seqs(&[7, 8, 9], if thorough { 4 } else { 3 }) {
            if mine(&mut id) {
                prog.mark(id, &format!("iter {:?}", s));
                out.rec(&rec_iter(&s));
            }
        }
        for opt in [None, Some(0), Some(1), Some(2)] {
            for x in 0..=2 {
                if mine(&mut id) {
                    prog.mark(id, &format!("has {:?} {}", opt, x));
                    out.rec(&rec_has(opt, x));
                }
            }
        }
        // take_while_p: sequences over 0..3 up to length 4 (5) x thresholds, and a non-monotone predicate
        for s in all_seqs(&[0, 1, 2, 3], if thorough { 5 } else { 4 }) {
            for t in -1..=3 {
                if mine(&mut id) {
                    prog.mark(id, &format!("tw {:?} le {}", s, t));
                    out.rec(&rec_tw(&s, "le", t));
                }
            }
            if mine(&mut id) {
                prog.mark(id, &format!("tw {:?} even", s));
                out.rec(&rec_tw(&s, "even", 0));
            }
        }
        // beyond the exhaustive bound: longer sequences, indices around and far beyond the ends
        let nr = if thorough { 200_000 } else { 8_000 };
        for _ in 0..nr / workers {
            let len = rng.gen_range(0..=40);
            let span = if rng.gen_bool(0.8) { len as isize + 3 } else { 1000 };
            let l = rng.gen_range(-span..=span);
            let r = if rng.gen_bool(0.15) { 0 } else { rng.gen_range(-span..=span) };
            prog.mark(id, &format!("slice len={} l={} r={}", len, l, r));
            out.rec(&rec_slice(len, l, r));
            out.rec(&rec_drop(len, l));
            let n = rng.gen_range(0..=9);
            let s: Vec<i32> = (0..n).map(|_| rng.gen_range(0..=5)).collect();
            out.rec(&rec_iter(&s));
            out.rec(&rec_tw(&s, "le", rng.gen_range(-1..=5)));
        }
    }

    if all || set == "str" {
        // size / to_bool: every string up to length 4 over the 13 symbols, every 5-letter word over the
        // letters of "false" in both cases, near misses, then random long strings with 2/3/4-byte characters
        let a13 = ["a", "F", "0", "\u{e9}", " ", "f", "l", "s", "e", "A", "L", "S", "E"];
        for s in all_strings(&a13, 4) {
            if mine(&mut id) {
                prog.mark(id, &s);
                out.rec(&rec_str(&s));
            }
        }
        // thorough: all 10^5 words over fFaAlLsSeE; quick: per position the right letter in both cases and two wrong ones (4^5)
        let fl = ["f", "a", "l", "s", "e", "F", "A", "L", "S", "E"];
        let mut five = vec![String::new()];
        for i in 0..5 {
            let pick: Vec<&str> = if thorough { fl.to_vec() } else { vec![fl[i], fl[i + 5], fl[(i + 1) % 5], fl[(i + 3) % 5 + 5]] };
            five = five.iter().flat_map(|p| pick.iter().map(move |c| format!("{}{}", p, c)).collect::<Vec<_>>()).collect();
        }
        for s in &five {
            if mine(&mut id) {
                prog.mark(id, s);
                out.rec(&rec_str(s));
            }
        }
        let mut near: Vec<String> = vec![];
        for w in ["false", "FALSE", "False", "fAlSe", "0", "true", "no", "off"] {
            for pre in ["", " ", "0", "\u{e9}", "f"] {
                for post in ["", " ", "0", "\u{e9}", "e", "\n", "\u{0}"] {
                    near.push(format!("{}{}{}", pre, w, post));
                }
            }
        }
        // characters whose case mapping is special: long s, dotted capital I, sharp s, Kelvin sign, fullwidth F
        for w in ["fal\u{17f}e", "FAL\u{17f}E", "\u{130}", "fa\u{130}se", "\u{df}", "\u{212a}", "\u{ff26}alse", "\u{ff46}\u{ff41}\u{ff4c}\u{ff53}\u{ff45}", "00", "0.0", "\u{660}", "\u{ff10}"] {
            near.push(w.to_string());
        }
        for s in &near {
            if mine(&mut id) {
                prog.mark(id, s);
                out.rec(&rec_str(s));
            }
        }
        // trim_suffix: all pairs (a <= 4, b <= 2) over five symbols; constructed stem+suffix over multi-byte symbols
        let a5 = ["a", "F", "0", "\u{e9}", " "];
        let bs = all_strings(&a5, 2);
        for a in all_strings(&a5, 4) {
            for b in &bs {
                if mine(&mut id) {
                    prog.mark(id, &a);
                    out.rec(&rec_trim(&a, b));
                }
            }
        }
        let mb = ["a", "\u{e9}", "\u{65e5}", "\u{1d11e}"];
        let sufs = all_strings(&mb, 2);
        for stem in all_strings(&mb, 3) {
            for suf in &sufs {
                if mine(&mut id) {
                    prog.mark(id, &stem);
                    out.rec(&rec_trim(&format!("{}{}", stem, suf), suf));
                    out.rec(&rec_trim(&format!("{}{}{}", stem, suf, suf), suf));
                }
            }
        }
        let wide = ["a", "F", "0", " ", "false", "FALSE", "\u{e9}", "\u{a9}", "\u{65e5}", "\u{20ac}", "\u{1d11e}", "\u{1f600}", "\u{17f}", "e\u{301}", "\t"];
        let nr = if thorough { 300_000 } else { 12_000 };
        for _ in 0..nr / workers {
            let a = rand_string(&mut rng, &wide, 24);
            let b = if rng.gen_bool(0.6) {
                let cs: Vec<char> = a.chars().collect();
                let k = rng.gen_range(0..=cs.len());
                cs[k..].iter().collect()
            } else {
                rand_string(&mut rng, &wide, 4)
            };
            prog.mark(id, &a);
            out.rec(&rec_str(&a));
            out.rec(&rec_trim(&a, &b));
        }
    }

    if all || set == "defer" {
        for n in 0..=2u8 {
            for x in 0..=2u8 {
                if mine(&mut id) {
                    prog.mark(id, &format!("nested defer n={} x={}", n, x));
                    out.rec(&rec_nested(n, x));
                }
            }
        }
        // every program of the two bounded families, then random programs of the full family (<= 2 nested scopes everywhere)
        let mut progs = shapes(&[2, 1, 0]);
        progs.extend(shapes(&[1, 2, 0]));
        for s in &progs {
            if mine(&mut id) {
                prog.mark(id, &format!("defer {:?}", s));
                out.rec(&rec_defer(s));
            }
        }
        let nr = if thorough { 400_000 } else { 16_000 };
        for _ in 0..nr / workers {
            let s = rand_shape(&mut rng, 1);
            if depth(&s) > 3 {
                continue;
            }
            prog.mark(id, "defer random");
            out.rec(&rec_defer(&s));
        }
    }
    let n = out.finish();
    eprintln!("coreext: {} records", n);
}
