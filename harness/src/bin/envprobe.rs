//! Environment-dependent functions, one process per environment (started by the check with an
//! explicit environment): expand, abs (both backends), XDG lookups.
//!   envprobe --mode expand --maxseg N --out F
//!   envprobe --mode abs --len N --sandbox DIR --out F
use rand::{rngs::StdRng, Rng, SeedableRng};
use rivia::prelude::*;
use rvharness::*;
use std::path::PathBuf;

fn main() {
    silence_panics();
    let mode = arg_or("mode", "expand");
    let worker = arg_u64("worker", 0);
    let workers = arg_u64("workers", 1);
    let seed = arg_u64("seed", 1);
    let tier = arg_or("tier", "quick");
    let thorough = tier == "thorough";
    let mut out = Out::create(arg_or("out", "/dev/stdout"));
    let prog = Progress::from_env();
    let mut rng = StdRng::seed_from_u64(seed.wrapping_mul(7919).wrapping_add(worker));
    let mut id = 0u64;
    match mode.as_str() {
        "expand" => {
            // templates: sequences of segments
            let segs = ["a", "~", "$V", "${V}", "$W", "$", "/", "}", "{"];
            let n = arg_u64("maxseg", if thorough { 5 } else { 4 }) as usize;
            let memfs = Memfs::new();
            for t in all_strings(&segs, n) {
                id += 1;
                if (id - 1) % workers != worker {
                    continue;
                }
                prog.mark(id, &t);
                let p = PathBuf::from(&t);
                let mut o = Map::new();
                o.insert("expand".into(), gres(|| res_path(sys::expand(&p))));
                o.insert("x_expand".into(), gres(|| res_path(p.expand())));
                o.insert("abs".into(), gres(|| res_path(memfs.abs(&p))));
                out.rec(&json!({"k": "x", "a": chars(&t), "cwd": ["/"], "o": Value::Object(o)}));
            }
            let wide = ["a", "~", "$V", "${V}", "$W", "${W}", "$", "/", "}", "{", "$HOME", "${HOME}", ".", "..", "b", "\u{e9}", "$\u{e9}", "//", "~/", " "];
            let nr = if thorough { 100_000 } else { 3_000 };
            for _ in 0..nr / workers {
                let k = rng.gen_range(1..=10);
                let t: String = (0..k).map(|_| wide[rng.gen_range(0..wide.len())]).collect();
                let p = PathBuf::from(&t);
                let mut o = Map::new();
                o.insert("expand".into(), gres(|| res_path(sys::expand(&p))));
                o.insert("x_expand".into(), gres(|| res_path(p.expand())));
                o.insert("abs".into(), gres(|| res_path(memfs.abs(&p))));
                out.rec(&json!({"k": "x", "a": chars(&t), "cwd": ["/"], "o": Value::Object(o)}));
            }
        },
        "abs" => {
            let n = arg_u64("len", if thorough { 6 } else { 4 }) as usize;
            let sandbox = PathBuf::from(arg_or("sandbox", "/dev/shm/rvh-abs"));
            let cwds = ["/", "/a", "/a/b", "/\u{e9}"];
            // Memfs instances, one per cwd; a second populated instance for the cwd "/" ("no IO": the
            // answer must not depend on what exists)
            let mut mems: Vec<(String, Memfs)> = vec![];
            for c in cwds.iter() {
                let m = Memfs::new();
                m.mkdir_p(c).unwrap();
                m.set_cwd(c).unwrap();
                mems.push((c.to_string(), m));
            }
            let pop = Memfs::new();
            pop.mkdir_p("/a/b").unwrap();
            pop.mkfile("/a/a").unwrap();
            pop.symlink("/b", "/a").unwrap();
            mems.push(("/".to_string(), pop));
            let std = Stdfs::new();
            let _ = std::fs::remove_dir_all(&sandbox);
            let mut scwds: Vec<PathBuf> = vec![];
            for c in cwds.iter() {
                let d = if *c == "/" { sandbox.clone() } else { sandbox.join(&c[1..]) };
                std::fs::create_dir_all(&d).unwrap();
                scwds.push(std::fs::canonicalize(&d).unwrap());
            }
            let alpha = ["/", ".", "~", "$", "{", "}", ":", "a", "\u{e9}"];
            let mut inputs = all_strings(&alpha, n);
            for pre in ["file://", "FTP://", "http://", "hTTps://", "file:/", "sftp://"] {
                for rest in ["", "a", "/a", "a/../b", "../x", "~", "./a/", "//a//b"] {
                    inputs.push(format!("{}{}", pre, rest));
                }
            }
            let wide = ["/", ".", "~", "$", "{", "}", ":", "a", "\u{e9}", "..", "../", "./", "//", "\u{65e5}", "\u{1d11e}", "$a", "${a}", "file://", " "];
            let nr = if thorough { 60_000 } else { 6_000 };
            for _ in 0..nr {
                let k = rng.gen_range(1..=12);
                inputs.push((0..k).map(|_| wide[rng.gen_range(0..wide.len())]).collect());
            }
            for t in inputs {
                id += 1;
                if (id - 1) % workers != worker {
                    continue;
                }
                prog.mark(id, &t);
                let p = PathBuf::from(&t);
                for (c, m) in mems.iter() {
                    let r = gres(|| res_path(m.abs(&p)));
                    out.rec(&json!({"k": "a", "be": "memfs", "a": chars(&t), "cwd": chars(c), "o": {"abs": r}}));
                }
                for d in scwds.iter() {
                    std::env::set_current_dir(d).unwrap();
                    let r = gres(|| res_path(std.abs(&p)));
                    let r2 = gres(|| res_path(Stdfs::abs(&p)));
                    out.rec(&json!({"k": "a", "be": "stdfs", "a": chars(&t), "cwd": pchars(d), "o": {"abs": r, "abs_assoc": r2}}));
                }
            }
            // the process' working directory has been removed: arguments that do not need it (rooted, ~, $HOME, scheme-prefixed)
            // resolve as ever - only a relative argument may fail
            let dead = sandbox.join("dead");
            if std::fs::create_dir_all(&dead).is_ok() && std::env::set_current_dir(&dead).is_ok() && std::fs::remove_dir(&dead).is_ok() {
                for t in ["/", "/a/b", "/a//b/../c/", "~", "~/x", "$HOME/y", "${HOME}/../z", "file:///z", "/\u{e9}/."] {
                    let p = PathBuf::from(t);
                    prog.mark(0, &format!("abs with a removed cwd {}", t));
                    let r = gres(|| res_path(std.abs(&p)));
                    let r2 = gres(|| res_path(Stdfs::abs(&p)));
                    out.rec(&json!({"k": "a", "be": "stdfs", "a": chars(t), "cwd": chars("/"), "o": {"abs": r, "abs_assoc": r2}}));
                }
            }
            std::env::set_current_dir("/").unwrap();
            let _ = std::fs::remove_dir_all(&sandbox);
            // phase 2: HOME changes inside the running process - "~" must follow it (no cached home directory);
            // these records go to a second file that is judged with the new environment
            if let Some(h2) = arg("rehome") {
                std::env::set_var("HOME", &h2);
                let mut out2 = Out::create(format!("{}.phase2", arg_or("out", "/dev/stdout")));
                let m = Memfs::new();
                for t in ["~", "~/x", "~/a/../b", "$HOME/x", "${HOME}", "~/", "a/~"] {
                    let p = PathBuf::from(t);
                    let r = gres(|| res_path(m.abs(&p)));
                    out2.rec(&json!({"k": "a", "be": "memfs", "a": chars(t), "cwd": chars("/"), "o": {"abs": r}}));
                    let r = gres(|| res_path(Stdfs::abs(&p)));
                    out2.rec(&json!({"k": "a", "be": "stdfs", "a": chars(t), "cwd": chars("/"), "o": {"abs": r.clone(), "abs_assoc": r}}));
                    let mut o = Map::new();
                    o.insert("expand".into(), gres(|| res_path(sys::expand(&p))));
                    o.insert("x_expand".into(), gres(|| res_path(p.expand())));
                    o.insert("abs".into(), gres(|| res_path(m.abs(&p))));
                    out2.rec(&json!({"k": "x", "a": chars(t), "cwd": ["/"], "o": Value::Object(o)}));
                }
                out2.finish();
            }
        },
        _ => {
            eprintln!("unknown mode");
            std::process::exit(2);
        },
    }
    out.finish();
}
