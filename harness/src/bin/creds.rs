//! rivia's privilege functions (sys::user: sudo_down / sudo_up / drop_sudo / setuid / seteuid / setgid / setegid / switchuser)
//! executed for real: every program (call sequence) runs in its OWN forked child - credentials are per process and dropping
//! them is irreversible - which sets SUDO_UID / SUDO_GID as the program's environment says, optionally first becomes an
//! ordinary user, then performs the calls and records after each one the six credentials as the kernel reports them
//! (getresuid / getresgid, an observer independent of rivia) next to what rivia's own getters say.
//! Needs a real-root parent with CAP_SETUID/CAP_SETGID; otherwise one {"k":"cr-skip"} record is written.
//! One record per program: {"k":"cr","sudo":{"set","uid","gid"},"init":[6],"steps":[{"op","a":[..],"r","post":[6],"obs":[..]}]}
use rand::{rngs::StdRng, Rng, SeedableRng};
use rivia::prelude::*;
use rvharness::*;
use serde_json::{json, Value};
use std::io::Write;

fn creds() -> Vec<u32> {
    let (mut r, mut e, mut s, mut rg, mut eg, mut sg) = (0u32, 0u32, 0u32, 0u32, 0u32, 0u32);
    unsafe {
        libc::getresuid(&mut r, &mut e, &mut s);
        libc::getresgid(&mut rg, &mut eg, &mut sg);
    }
    vec![r, e, s, rg, eg, sg]
}

#[derive(Clone)]
struct Call {
    op: &'static str,
    a: Vec<u32>,
}

fn alphabet(ids: &[u32]) -> Vec<Call> {
    let mut v = vec![Call { op: "sudo_down", a: vec![] }, Call { op: "sudo_up", a: vec![] }, Call { op: "drop_sudo", a: vec![] }];
    for op in ["setuid", "seteuid", "setgid", "setegid"] {
        for &i in ids {
            v.push(Call { op, a: vec![i] });
        }
    }
    v
}

fn exec(c: &Call) -> Value {
    let r = guard(|| match c.op {
        "sudo_down" => user::sudo_down(),
        "sudo_up" => user::sudo_up(),
        "drop_sudo" => user::drop_sudo(),
        "setuid" => user::setuid(c.a[0]),
        "seteuid" => user::seteuid(c.a[0]),
        "setgid" => user::setgid(c.a[0]),
        "setegid" => user::setegid(c.a[0]),
        "switchuser" => user::switchuser(c.a[0], c.a[1], c.a[2], c.a[3], c.a[4], c.a[5]),
        _ => Ok(()),
    });
    match r {
        Ok(Ok(())) => json!("ok"),
        Ok(Err(_)) => json!("Err"),
        Err(_) => json!("panic"),
    }
}

/// SUDO_UID / SUDO_GID situations: (uid text, gid text, usable pair?, uid, gid)
const SUDOS: [(Option<&str>, Option<&str>, bool, u32, u32); 9] = [
    (None, None, false, 0, 0),
    (Some("1"), Some("2"), true, 1, 2),
    (Some("2"), Some("2"), true, 2, 2),
    (Some("2"), Some("0"), true, 2, 0),
    (Some("0"), Some("1"), true, 0, 1),
    (Some("junk"), Some("2"), false, 0, 0),
    (Some("1"), None, false, 0, 0),
    (Some("4242"), Some("4242"), true, 4242, 4242),
    (Some("2"), Some("4242"), true, 2, 4242),
];

/// /etc/passwd as the independent reference for user::from_uid (uid, gid, name, home, shell), file order
fn passwd() -> Vec<Value> {
    let txt = std::fs::read_to_string("/etc/passwd").unwrap_or_default();
    txt.lines()
        .filter_map(|l| {
            let f: Vec<&str> = l.split(':').collect();
            if f.len() < 7 || l.starts_with('#') {
                return None;
            }
            Some(json!({"uid": f[2].parse::<u32>().ok()?, "gid": f[3].parse::<u32>().ok()?, "name": chars(f[0]), "home": chars(f[5]), "shell": chars(f[6])}))
        })
        .collect()
}

fn user_val(r: Result<RvResult<user::User>, String>) -> Value {
    let empty = user::User::default();
    let (o, u) = match &r {
        Ok(Ok(u)) => ("ok".to_string(), u),
        Ok(Err(e)) => (err_kind(e), &empty),
        Err(_) => ("panic".to_string(), &empty),
    };
    json!({"o": o, "v": {"uid": u.uid, "gid": u.gid, "name": chars(&u.name), "home": pchars(&u.home), "shell": pchars(&u.shell), "ruid": u.ruid, "rgid": u.rgid,
        "realname": chars(&u.realname), "realhome": pchars(&u.realhome), "realshell": pchars(&u.realshell), "is_root": vbool(u.is_root())}})
}

/// user::from_uid / current / name in a forked child with the given SUDO situation, optionally as an ordinary user
fn users_child(path: &str, id: u64, sudo: usize, start_user: Option<(u32, u32)>, uids: &[u32]) -> bool {
    let pid = unsafe { libc::fork() };
    if pid < 0 {
        return false;
    }
    if pid == 0 {
        let (su, sg, set, u, g) = SUDOS[sudo];
        let mut f = std::fs::OpenOptions::new().append(true).create(true).open(path).unwrap();
        match su {
            Some(x) => std::env::set_var("SUDO_UID", x),
            None => std::env::remove_var("SUDO_UID"),
        }
        match sg {
            Some(x) => std::env::set_var("SUDO_GID", x),
            None => std::env::remove_var("SUDO_GID"),
        }
        let pw = passwd();
        if let Some((uu, gg)) = start_user {
            unsafe {
                libc::setresgid(gg, gg, gg);
                libc::setresuid(uu, uu, uu);
            }
        }
        let q: Vec<Value> = uids.iter().map(|&x| json!({"uid": x, "r": user_val(guard(|| user::from_uid(x)))})).collect();
        let cur = user_val(guard(|| user::current()));
        let name = match guard(|| user::name()) {
            Ok(Ok(n)) => json!({"o": "ok", "v": chars(&n)}),
            Ok(Err(e)) => json!({"o": err_kind(&e), "v": chars("")}),
            Err(_) => json!({"o": "panic", "v": chars("")}),
        };
        let rec = json!({"k": "fu", "id": id, "sudo": {"set": vbool(set), "uid": u, "gid": g}, "pw": pw, "q": q, "cur": cur, "name": name, "me": creds()});
        let ok = writeln!(f, "{}", to_ascii_json(&rec)).is_ok();
        unsafe { libc::_exit(if ok { 0 } else { 3 }) };
    }
    let mut st = 0;
    unsafe { libc::waitpid(pid, &mut st, 0) };
    libc::WIFEXITED(st) && libc::WEXITSTATUS(st) == 0
}

/// run one program in a forked child; the child appends its record to `path`
fn run_child(path: &str, id: u64, sudo: usize, start_user: Option<(u32, u32)>, prog: &[Call]) -> bool {
    let pid = unsafe { libc::fork() };
    if pid < 0 {
        return false;
    }
    if pid == 0 {
        let (su, sg, set, u, g) = SUDOS[sudo];
        // opened while still privileged: the program may drop the right to open it
        let mut f = std::fs::OpenOptions::new().append(true).create(true).open(path).unwrap();
        match su {
            Some(x) => std::env::set_var("SUDO_UID", x),
            None => std::env::remove_var("SUDO_UID"),
        }
        match sg {
            Some(x) => std::env::set_var("SUDO_GID", x),
            None => std::env::remove_var("SUDO_GID"),
        }
        if let Some((uu, gg)) = start_user {
            unsafe {
                libc::setresgid(gg, gg, gg);
                libc::setresuid(uu, uu, uu);
            }
        }
        let init = creds();
        let mut steps = vec![];
        for c in prog {
            let r = exec(c);
            let post = creds();
            let rids = user::getrids(user::getuid(), user::getgid());
            let obs = vec![user::getuid(), user::geteuid(), user::getgid(), user::getegid(), user::is_root() as u32, rids.0, rids.1];
            steps.push(json!({"op": c.op, "a": c.a, "r": r, "post": post, "obs": obs}));
        }
        let rec = json!({"k": "cr", "id": id, "sudo": {"set": vbool(set), "uid": u, "gid": g}, "init": init, "steps": steps});
        let ok = writeln!(f, "{}", to_ascii_json(&rec)).is_ok();
        unsafe { libc::_exit(if ok { 0 } else { 3 }) };
    }
    let mut st = 0;
    unsafe { libc::waitpid(pid, &mut st, 0) };
    libc::WIFEXITED(st) && libc::WEXITSTATUS(st) == 0
}

fn main() {
    silence_panics();
    let out = arg("out").expect("--out");
    let worker = arg_u64("worker", 0);
    let workers = arg_u64("workers", 1);
    let seed = arg_u64("seed", 1);
    let thorough = arg_or("tier", "quick") == "thorough";
    let prog = Progress::from_env();
    let _ = std::fs::remove_file(&out);
    let me = creds();
    if me != vec![0, 0, 0, 0, 0, 0] {
        let mut o = Out::create(&out);
        o.rec(&json!({"k": "cr-skip", "why": chars("not started as real root")}));
        o.finish();
        return;
    }
    let ids = [0u32, 1, 2];
    let alpha = alphabet(&ids);
    let mut id = 0u64;
    let mut crashed = 0u64;
    let mut n = 0u64;
    let starts: [Option<(u32, u32)>; 3] = [None, Some((1, 1)), Some((2, 1))];
    // user::from_uid / current / name for every SUDO situation, as root and as two ordinary users
    if worker == 0 {
        let pwuids: Vec<u32> = passwd().iter().map(|e| e["uid"].as_u64().unwrap() as u32).collect();
        let mut uids: Vec<u32> = vec![0, 1, 2, 4242, 4243];
        uids.extend(pwuids.iter().copied().filter(|u| *u > 2).take(if thorough { 100 } else { 6 }));
        for sudo in 0..SUDOS.len() {
            for st in &starts {
                id += 1;
                prog.mark(id, "users");
                n += 1;
                if !users_child(&out, id, sudo, *st, &uids) {
                    crashed += 1;
                }
            }
        }
    }
    let mut go = |sudo: usize, start: Option<(u32, u32)>, p: &[Call]| {
        id += 1;
        if id % workers != worker {
            return;
        }
        prog.mark(id, "creds");
        n += 1;
        if !run_child(&out, id, sudo, start, p) {
            crashed += 1;
        }
    };
    // every program of length <= 2 (thorough: 3) over the alphabet, for every SUDO situation, from root; length <= 2 from users
    let maxlen = if thorough { 3 } else { 2 };
    for sudo in 0..SUDOS.len() {
        for len in 1..=maxlen {
            let mut idx = vec![0usize; len];
            loop {
                let p: Vec<Call> = idx.iter().map(|&i| alpha[i].clone()).collect();
                go(sudo, None, &p);
                let mut k = len;
                while k > 0 {
                    k -= 1;
                    idx[k] += 1;
                    if idx[k] < alpha.len() {
                        break;
                    }
                    idx[k] = 0;
                    if k == 0 {
                        k = usize::MAX;
                        break;
                    }
                }
                if k == usize::MAX {
                    break;
                }
            }
        }
    }
    for sudo in [0usize, 1] {
        for st in &starts[1..] {
            for a in &alpha {
                for b in &alpha {
                    go(sudo, *st, &[a.clone(), b.clone()]);
                }
            }
        }
    }
    // seeded random programs, switchuser with arbitrary id sextuples included
    let mut rng = StdRng::seed_from_u64(seed * 1000 + 77);
    for _ in 0..(if thorough { 20000 } else { 1500 }) {
        let len = rng.gen_range(3..9);
        let p: Vec<Call> = (0..len)
            .map(|_| {
                if rng.gen_bool(0.3) {
                    Call { op: "switchuser", a: (0..6).map(|_| ids[rng.gen_range(0..3)]).collect() }
                } else {
                    alpha[rng.gen_range(0..alpha.len())].clone()
                }
            })
            .collect();
        let sudo = rng.gen_range(0..SUDOS.len());
        let st = starts[if rng.gen_bool(0.8) { 0 } else { rng.gen_range(1..3) }];
        go(sudo, st, &p);
    }
    if crashed > 0 {
        let mut f = std::fs::OpenOptions::new().append(true).create(true).open(&out).unwrap();
        let _ = writeln!(f, "{}", to_ascii_json(&json!({"k": "cr-crash", "n": crashed})));
    }
    println!("creds: {} programs, {} crashed children", n, crashed);
}
