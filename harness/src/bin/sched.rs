//! Controlled scheduler for C04 (hooks: rivia::sys::verif).  Every thread parks at an explicit invoke
//! gate before each call and at every `BeforeAcquire` guard event; the scheduler releases exactly one
//! parked thread at a time and enumerates (DFS, stateless re-execution) EVERY interleaving of the gates
//! of a small multi-threaded program on real threads sharing one real Memfs.
//! One record per schedule:
//!   {"k":"s","prog":[[CALL..]..],"sched":[tid..],"gates":[[n per call]..],"kinds":[[["W"|"R"..]..]..],
//!    "res":[[RES..]..],"final":REP,"nested":"t|f","deadlock":"t|f","poisoned":"t|f"}
//! Modes: --mode all2x1 | sample --n N --shape 2x2|3x1|2x3|3x2 | guards (guard sequence of every call alone)
//!        | stress --threads T --calls N (free running, critical sections stamped under the lock)
use std::collections::HashMap;
use std::sync::atomic::{AtomicBool, AtomicU64, Ordering};
use std::sync::{Arc, Condvar, Mutex};
use std::time::{Duration, Instant};

use rand::{rngs::StdRng, Rng, SeedableRng};
use rivia::prelude::*;
use rivia::sys::verif::{set_guard_hook, GuardEvent, GuardKind};
use rvharness::ops::*;
use rvharness::*;

thread_local! {
    static TID: std::cell::Cell<usize> = std::cell::Cell::new(usize::MAX);
}

#[derive(Default)]
struct Ctl {
    parked: Vec<bool>,       // thread is waiting at a gate
    granted: Vec<bool>,      // scheduler released the thread
    finished: Vec<bool>,
    holding: Vec<u32>,       // guards currently held per thread
    nested: bool,
    gates: Vec<Vec<u32>>,    // guard acquisitions per thread per call
    kinds: Vec<Vec<Vec<&'static str>>>,
    curcall: Vec<usize>,
}

struct Shared {
    m: Mutex<Ctl>,
    cv: Condvar,
    active: AtomicBool, // hook does something only while a controlled run is active
}

fn gate(sh: &Shared, t: usize) {
    let mut c = sh.m.lock().unwrap();
    c.parked[t] = true;
    sh.cv.notify_all();
    while !c.granted[t] {
        c = sh.cv.wait(c).unwrap();
    }
    c.granted[t] = false;
    c.parked[t] = false;
}

/// the shared filesystem: a Memfs, directly or wrapped in the Vfs enum (C13)
enum Sfs {
    Direct(Memfs),
    Enum(Vfs),
}
impl Sfs {
    fn new(route_enum: bool) -> Sfs {
        if route_enum { Sfs::Enum(Vfs::memfs()) } else { Sfs::Direct(Memfs::new()) }
    }
    fn call(&self, c: &Value) -> Value {
        match self {
            Sfs::Direct(m) => apply(m, c),
            Sfs::Enum(v) => apply(v, c),
        }
    }
    fn mem(&self) -> &Memfs {
        match self {
            Sfs::Direct(m) => m,
            Sfs::Enum(Vfs::Memfs(m)) => m,
            _ => unreachable!(),
        }
    }
}
static ROUTE_ENUM: AtomicBool = AtomicBool::new(false);

fn default_tree(m: &Memfs) {
    m.mkdir_p("/a/c").unwrap();
    m.write_all("/f", b"0").unwrap();
}

fn alphabet() -> Vec<Value> {
    vec![
        call("mkdir_p", "/a/b", ""),
        call("mkdir_p", "/a", ""),
        call_m("mkdir_m", "/d", 0o700, 0),
        call("mkfile", "/a/f", ""),
        call("mkfile", "/g", ""),
        call("remove", "/f", ""),
        call("remove", "/a", ""),
        call("remove_all", "/a", ""),
        call("move_p", "/f", "/a"),
        call("move_p", "/a", "/d"),
        call("copy", "/f", "/g"),
        call("copy", "/a", "/c"),
        call("symlink", "/l", "/f"),
        call("set_cwd", "/a", ""),
        call_d("write_all", "/f", b"W"),
        call_d("write_all", "/g", b"X"),
        call_d("append_all", "/f", b"1"),
        call_d("append_all", "/f", b"2"),
        call("read_all", "/f", ""),
        call("exists", "/a", ""),
        call("is_file", "/g", ""),
        call("cwd", "", ""),
        call("mode", "/f", ""),
        call("readlink_abs", "/l", ""),
        call("paths", "/a", ""),
        call("all_paths", "/", ""),
        call("files", "/", ""),
        call_ls("append_line", "/f", &["L"]),
        call_ls("write_lines", "/g", &["a", "b"]),
        // composite calls (several guards by design): only used by directed programs, judged by the linearizability search
        call_b("chown_b", "/a", "", 5, 0, "", "u"),
        call_b("chown_b", "/a", "", 0, 7, "", "g"),
        call_b("chmod_b", "/a", "", 0o700, 0, "", "d"),
        call_b("chmod_b", "/", "", 0, 0o600, "", "f"),
    ]
}

/// run the program following `prefix`, then always the lowest parked thread; returns the record and, for
/// every decision point, the set of threads that were parked (to enumerate alternatives)
fn run_schedule(sh: &Arc<Shared>, prog: &[Vec<Value>], prefix: &[usize]) -> (Value, Vec<Vec<usize>>) {
    let n = prog.len();
    {
        let mut c = sh.m.lock().unwrap();
        *c = Ctl {
            parked: vec![false; n],
            granted: vec![false; n],
            finished: vec![false; n],
            holding: vec![0; n],
            nested: false,
            gates: prog.iter().map(|p| vec![0; p.len()]).collect(),
            kinds: prog.iter().map(|p| vec![vec![]; p.len()]).collect(),
            curcall: vec![0; n],
        };
    }
    let memfs = Arc::new(Sfs::new(ROUTE_ENUM.load(Ordering::SeqCst)));
    default_tree(memfs.mem());
    sh.active.store(true, Ordering::SeqCst);
    let results: Arc<Mutex<Vec<Vec<Value>>>> = Arc::new(Mutex::new(prog.iter().map(|_| vec![]).collect()));
    let mut handles = vec![];
    for t in 0..n {
        let (sh2, m2, calls, res2) = (sh.clone(), memfs.clone(), prog[t].clone(), results.clone());
        handles.push(std::thread::spawn(move || {
            TID.with(|x| x.set(t));
            for (i, c) in calls.iter().enumerate() {
                {
                    sh2.m.lock().unwrap().curcall[t] = i;
                }
                gate(&sh2, t); // invoke gate
                let r = m2.call(c);
                res2.lock().unwrap()[t].push(r);
            }
            TID.with(|x| x.set(usize::MAX));
            let mut c = sh2.m.lock().unwrap();
            c.finished[t] = true;
            sh2.cv.notify_all();
        }));
    }
    let mut sched: Vec<usize> = vec![];
    let mut choices: Vec<Vec<usize>> = vec![];
    let mut deadlock = false;
    loop {
        // wait until every live thread is parked
        let deadline = Instant::now() + Duration::from_secs(5);
        let mut c = sh.m.lock().unwrap();
        loop {
            let quiet = (0..n).all(|t| c.finished[t] || (c.parked[t] && !c.granted[t]));
            if quiet {
                break;
            }
            let (g, to) = sh.cv.wait_timeout(c, Duration::from_millis(200)).unwrap();
            c = g;
            if to.timed_out() && Instant::now() > deadline {
                deadlock = true;
                break;
            }
        }
        if deadlock {
            break;
        }
        let parked: Vec<usize> = (0..n).filter(|&t| !c.finished[t] && c.parked[t]).collect();
        if parked.is_empty() {
            break;
        }
        let pick = if sched.len() < prefix.len() && parked.contains(&prefix[sched.len()]) { prefix[sched.len()] } else { parked[0] };
        choices.push(parked);
        sched.push(pick);
        c.granted[pick] = true;
        sh.cv.notify_all();
    }
    sh.active.store(false, Ordering::SeqCst);
    if deadlock {
        // cannot join: leak the threads, mark and return
        let c = sh.m.lock().unwrap();
        let rec = json!({"k": "s", "prog": prog, "sched": sched.iter().map(|x| x + 1).collect::<Vec<_>>(), "gates": c.gates, "kinds": c.kinds,
            "res": [], "final": [], "nested": if c.nested { "t" } else { "f" }, "deadlock": "t", "poisoned": "?"});
        return (rec, choices);
    }
    for h in handles {
        let _ = h.join();
    }
    let c = sh.m.lock().unwrap();
    let fin = memproj::project(memfs.mem());
    let res = results.lock().unwrap().clone();
    let rec = json!({"k": "s", "prog": prog, "sched": sched.iter().map(|x| x + 1).collect::<Vec<_>>(), "gates": c.gates, "kinds": c.kinds,
        "res": res, "final": fin.clone(), "nested": if c.nested { "t" } else { "f" }, "deadlock": "f", "poisoned": fin["po"]});
    (rec, choices)
}

/// every interleaving of the gates of `prog` (DFS over the decision points)
/// composite programs (C03): the quiescent state must be well formed; no claim that a several-guard call is atomic
static WF_ONLY: AtomicBool = AtomicBool::new(false);

fn explore(sh: &Arc<Shared>, prog: &[Vec<Value>], out: &mut Out, prog_id: u64, pr: &Progress, cap: usize) -> usize {
    let mut count = 0;
    let mut stack: Vec<Vec<usize>> = vec![vec![]];
    while let Some(prefix) = stack.pop() {
        pr.mark(prog_id, &format!("prog#{} prefix={:?} {}", prog_id, prefix, to_ascii_json(&json!(prog))));
        let (mut rec, choices) = run_schedule(sh, prog, &prefix);
        rec["judge"] = json!(if WF_ONLY.load(Ordering::SeqCst) { "wf" } else { "lin" });
        let sched: Vec<usize> = rec["sched"].as_array().unwrap().iter().map(|x| x.as_u64().unwrap() as usize - 1).collect();
        out.rec(&rec);
        count += 1;
        if rec["deadlock"] == "t" || count >= cap {
            break;
        }
        // alternatives at decision points beyond the given prefix
        for i in (prefix.len()..sched.len()).rev() {
            for &alt in &choices[i] {
                if alt > sched[i] {
                    let mut p = sched[..i].to_vec();
                    p.push(alt);
                    stack.push(p);
                }
            }
        }
    }
    count
}

fn main() {
    silence_panics();
    limit_memory(4 << 30);
    let mode = arg_or("mode", "all2x1");
    ROUTE_ENUM.store(arg_or("route", "direct") == "enum", Ordering::SeqCst);
    let stride = arg_u64("stride", 1);
    let seed = arg_u64("seed", 1);
    let worker = arg_u64("worker", 0);
    let workers = arg_u64("workers", 1);
    let mut out = Out::create(arg_or("out", "/dev/stdout"));
    let pr = Progress::from_env();
    let sh = Arc::new(Shared { m: Mutex::new(Ctl::default()), cv: Condvar::new(), active: AtomicBool::new(false) });
    let stamp = Arc::new(AtomicU64::new(0));
    let stress_log: Arc<Mutex<HashMap<usize, Vec<u64>>>> = Arc::new(Mutex::new(HashMap::new()));
    let stress = mode == "stress";
    {
        let (sh2, stamp2, log2) = (sh.clone(), stamp.clone(), stress_log.clone());
        set_guard_hook(Some(Arc::new(move |e: GuardEvent| {
            let t = TID.with(|x| x.get());
            if t == usize::MAX {
                return;
            }
            if stress {
                if let GuardEvent::Acquired(_) = e {
                    // sequence number taken while holding the lock
                    let s = stamp2.fetch_add(1, Ordering::SeqCst);
                    log2.lock().unwrap().entry(t).or_default().push(s);
                }
                return;
            }
            if !sh2.active.load(Ordering::SeqCst) {
                return;
            }
            match e {
                GuardEvent::BeforeAcquire(k) => {
                    {
                        let mut c = sh2.m.lock().unwrap();
                        if c.holding[t] > 0 {
                            c.nested = true; // acquiring while already holding a guard
                        }
                        let i = c.curcall[t];
                        c.gates[t][i] += 1;
                        c.kinds[t][i].push(if k == GuardKind::Write { "W" } else { "R" });
                    }
                    gate(&sh2, t);
                },
                GuardEvent::Acquired(_) => {
                    sh2.m.lock().unwrap().holding[t] += 1;
                },
                GuardEvent::Releasing(_) => {
                    let mut c = sh2.m.lock().unwrap();
                    if c.holding[t] > 0 {
                        c.holding[t] -= 1;
                    }
                },
            }
        })));
    }
    let alpha = alphabet();
    let nsingle = alpha.len() - 4; // the composite calls at the end are for directed programs only
    let mut rng = StdRng::seed_from_u64(seed.wrapping_mul(31).wrapping_add(7));
    let mut pid = 0u64;
    let mut total = 0usize;
    match mode.as_str() {
        "guards" => {
            // every call of the alphabet alone - and one call of EVERY method the property lists as a single step, whether or not
            // it is in the interleaving alphabet: its guard sequence (kinds) and count, nesting
            let mut every: Vec<Value> = alpha[..nsingle].to_vec();
            for q in ["read_all", "read_lines", "read", "exists", "is_dir", "is_file", "is_symlink", "is_symlink_dir", "is_symlink_file", "is_exec", "is_readonly",
                      "mode", "owner", "uid", "gid", "readlink", "readlink_abs", "entry", "abs", "paths", "dirs", "files", "all_paths", "all_dirs", "all_files"] {
                for p in ["/f", "/a", "/", "/missing", "rel/../a"] {
                    every.push(call(q, p, ""));
                }
            }
            every.push(call("cwd", "", ""));
            every.push(call("root", "", ""));
            every.push(call_ls("append_lines", "/f", &["x", "y"]));
            every.push(call_ls("append_lines", "/new", &["x"]));
            every.push(call_ls("write_lines", "/f", &["x", "", "y"]));
            every.push(call_ls("append_line", "/new2", &["z"]));
            every.push(call("symlink", "/l2", "a"));
            every.push(call("set_cwd", "a/c", ""));
            every.push(call("mkdir_p", "x/y/z", ""));
            every.push(call("copy", "/a", "/a/c"));
            every.push(call("move_p", "/a/c", "/"));
            every.push(call("remove_all", "/", ""));
            for c in &every {
                pid += 1;
                total += explore(&sh, &[vec![c.clone()]], &mut out, pid, &pr, 10);
            }
        },
        "all2x1" => {
            for a in &alpha[..nsingle] {
                for b in &alpha[..nsingle] {
                    pid += 1;
                    if (pid - 1) % stride != 0 || ((pid - 1) / stride) % workers != worker {
                        continue;
                    }
                    total += explore(&sh, &[vec![a.clone()], vec![b.clone()]], &mut out, pid, &pr, 5000);
                }
            }
        },
        "sample" => {
            let n = arg_u64("n", 200);
            let shape = arg_or("shape", "2x2");
            let (th, len): (usize, usize) = match shape.as_str() {
                "3x1" => (3, 1),
                "2x3" => (2, 3),
                "3x2" => (3, 2),
                _ => (2, 2),
            };
            for k in 0..n {
                // same programs whatever the worker split
                let prog: Vec<Vec<Value>> = (0..th).map(|_| (0..len).map(|_| alpha[rng.gen_range(0..nsingle)].clone()).collect()).collect();
                pid += 1;
                if k % workers != worker {
                    continue;
                }
                total += explore(&sh, &prog, &mut out, pid, &pr, arg_u64("cap", 3000) as usize);
            }
        },
        "prog" => {
            // one given program (JSON array of arrays of call indices into the alphabet): all its interleavings
            let spec: Vec<Vec<usize>> = serde_json::from_str(&arg_or("prog", "[[0],[1]]")).expect("--prog JSON");
            let prog: Vec<Vec<Value>> = spec.iter().map(|t| t.iter().map(|&i| alpha[i].clone()).collect()).collect();
            total += explore(&sh, &prog, &mut out, 1, &pr, arg_u64("cap", 20000) as usize);
        },
        "composite" => {
            // a call that takes several guards by design (recursive chmod / chown) against every single-step mutator (and pairs of
            // them) on another thread: every interleaving; judged for deadlock / nesting / poison / panic and the well-formedness of
            // the representation at the quiescent end
            WF_ONLY.store(true, Ordering::SeqCst);
            let comps = vec![
                call_b("chmod_b", "/a", "", 0o755, 0, "", "a"),
                call_b("chmod_b", "/", "", 0o700, 0, "", "d"),
                call_b("chmod_b", "/", "", 0, 0, "a:go-rwx", "s"),
                call_b("chown_b", "/a", "", 5, 7, "", "ug"),
                call_b("chown_b", "/", "", 5, 7, "", "ug"),
                call_b("copy_b", "/a", "/c2", 0o700, 0, "", "d"),
            ];
            let writers: Vec<Value> = alpha[..nsingle]
                .iter()
                .filter(|c| !["read_all", "exists", "is_file", "cwd", "mode", "readlink_abs", "paths", "all_paths", "files"].contains(&c["op"].as_str().unwrap()))
                .cloned()
                .collect();
            let cap = arg_u64("cap", 400) as usize;
            for c in &comps {
                for m in &writers {
                    pid += 1;
                    if (pid - 1) % workers != worker {
                        continue;
                    }
                    total += explore(&sh, &[vec![c.clone()], vec![m.clone()]], &mut out, pid, &pr, cap);
                }
            }
            let n = arg_u64("n", 40);
            for k in 0..n {
                let c = comps[rng.gen_range(0..comps.len())].clone();
                let m1 = writers[rng.gen_range(0..writers.len())].clone();
                let m2 = writers[rng.gen_range(0..writers.len())].clone();
                pid += 1;
                if k % workers != worker {
                    continue;
                }
                total += explore(&sh, &[vec![c], vec![m1, m2]], &mut out, pid, &pr, cap);
            }
        },
        "stress" => {
            // free running threads; every critical section stamped under the lock; one record for the whole run
            let th = arg_u64("threads", 8) as usize;
            let ncalls = arg_u64("calls", 300) as usize;
            let rounds = arg_u64("rounds", 4);
            for round in 0..rounds {
                if round % workers != worker {
                    continue;
                }
                stamp.store(0, Ordering::SeqCst);
                stress_log.lock().unwrap().clear();
                let memfs = Arc::new(Memfs::new());
                default_tree(&memfs);
                let mut hs = vec![];
                for t in 0..th {
                    let m2 = memfs.clone();
                    let alpha2 = alpha.clone();
                    let s2 = seed.wrapping_mul(977).wrapping_add(round * 131 + t as u64);
                    hs.push(std::thread::spawn(move || {
                        TID.with(|x| x.set(t));
                        let mut rng = StdRng::seed_from_u64(s2);
                        let mut log = vec![];
                        for _ in 0..ncalls {
                            let c = alpha2[rng.gen_range(0..alpha2.len() - 4)].clone();
                            let r = apply(&*m2, &c);
                            log.push((c, r));
                        }
                        TID.with(|x| x.set(usize::MAX));
                        log
                    }));
                }
                pr.mark(round, "stress round");
                let logs: Vec<Vec<(Value, Value)>> = hs.into_iter().map(|h| h.join().unwrap_or_default()).collect();
                let stamps = stress_log.lock().unwrap().clone();
                // one event per call: (stamp of its single critical section, thread, call, result)
                let mut events: Vec<(u64, usize, Value, Value, usize)> = vec![];
                let mut bad_counts = 0;
                for (t, log) in logs.iter().enumerate() {
                    let st = stamps.get(&t).cloned().unwrap_or_default();
                    if st.len() != log.len() {
                        bad_counts += 1; // some call took 0 or several guards
                    }
                    for (i, (c, r)) in log.iter().enumerate() {
                        events.push((*st.get(i).unwrap_or(&u64::MAX), t, c.clone(), r.clone(), st.len()));
                    }
                }
                events.sort_by_key(|e| e.0);
                let fin = memproj::project(&memfs);
                // chunk the total order into chain records of bounded length (each with its starting state unknown -> the
                // validator replays from the initial tree, so keep one record per round but cap its length)
                let steps: Vec<Value> = events.iter().map(|e| json!({"t": e.1 + 1, "c": e.2, "r": e.3})).collect();
                out.rec(&json!({"k": "x", "threads": th, "steps": steps, "final": fin.clone(), "poisoned": fin["po"], "guard_count_mismatch": bad_counts}));
                total += steps.len();
            }
        },
        _ => {
            eprintln!("unknown mode");
            std::process::exit(2);
        },
    }
    set_guard_hook(None);
    out.finish();
    eprintln!("sched: {} programs, {} schedules/events", pid, total);
}
