//! Backend comparison grid (C02): every tree of the bounded namespace in C02's domain is materialised with
//! plain std::fs inside a private sandbox AND built on a fresh Memfs; every call of the alphabet is run on
//! both; results and the observed post-trees (std side: lstat/readlink/read through std::fs only) are logged
//! as pair-group records {"k":"p","tree":REP,"own":{uid,gid},"steps":[{c, mem:{r,same,post}, std:{r,same,post}}]}.
//!   grid --sandbox DIR --tier quick|thorough --worker i --workers n --out F [--as-nobody] [--stride k]
use std::collections::BTreeMap;
use std::os::unix::fs::{MetadataExt, PermissionsExt};
use std::path::{Path, PathBuf};

use rivia::prelude::*;
use rvharness::ops::*;
use rvharness::*;

#[derive(Clone, Debug)]
enum Node {
    Dir,
    File(Vec<u8>),
    Link(String),
}
type Tree = BTreeMap<String, Node>; // absolute paths "/a/b" (root "/" implicit)

fn parent(p: &str) -> String {
    match p.rfind('/') {
        Some(0) => "/".to_string(),
        Some(i) => p[..i].to_string(),
        None => "/".to_string(),
    }
}

/// all link-free trees over `names` x depth 2 with file data in {"", "x"}
fn base_trees(names: &[&str]) -> Vec<Tree> {
    // options of a depth-2 child: absent, file e, file x, dir
    let child_opts: Vec<Option<Node>> = vec![None, Some(Node::File(vec![])), Some(Node::File(b"x".to_vec())), Some(Node::Dir)];
    // options for a top-level name: absent, file e, file x, dir with every combination of children
    let mut top_opts: Vec<Vec<(String, Node)>> = vec![vec![], vec![("".into(), Node::File(vec![]))], vec![("".into(), Node::File(b"x".to_vec()))]];
    let mut combos: Vec<Vec<(String, Node)>> = vec![vec![("".into(), Node::Dir)]];
    for n in names {
        let mut next = vec![];
        for c in &combos {
            for o in &child_opts {
                let mut c2 = c.clone();
                if let Some(node) = o {
                    c2.push((format!("/{}", n), node.clone()));
                }
                next.push(c2);
            }
        }
        combos = next;
    }
    top_opts.extend(combos);
    let mut trees: Vec<Tree> = vec![Tree::new()];
    for n in names {
        let mut next = vec![];
        for t in &trees {
            for o in &top_opts {
                let mut t2 = t.clone();
                for (suffix, node) in o {
                    t2.insert(format!("/{}{}", n, suffix), node.clone());
                }
                next.push(t2);
            }
        }
        trees = next;
    }
    trees
}

/// every way of adding one link (in a free slot below an existing directory) to an existing non-link entry
fn with_one_link(t: &Tree, names: &[&str]) -> Vec<Tree> {
    let mut out = vec![];
    let mut dirs: Vec<String> = vec!["/".to_string()];
    dirs.extend(t.iter().filter(|(p, n)| matches!(n, Node::Dir) && p.matches('/').count() < 2).map(|(p, _)| p.clone()));
    let mut targets: Vec<String> = vec!["/".to_string()];
    targets.extend(t.keys().cloned());
    for d in &dirs {
        for n in names {
            let slot = if d == "/" { format!("/{}", n) } else { format!("{}/{}", d, n) };
            if t.contains_key(&slot) {
                continue;
            }
            for tg in &targets {
                let mut t2 = t.clone();
                t2.insert(slot.clone(), Node::Link(tg.clone()));
                out.push(t2);
            }
        }
    }
    out
}

/// remove a sandbox tree whatever modes the previous calls left (an unprivileged user cannot empty a directory it cannot write)
fn force_remove(root: &Path) {
    fn open_up(p: &Path) {
        if let Ok(m) = std::fs::symlink_metadata(p) {
            if m.is_dir() {
                let _ = std::fs::set_permissions(p, std::fs::Permissions::from_mode(0o700));
                if let Ok(rd) = std::fs::read_dir(p) {
                    for e in rd.flatten() {
                        open_up(&e.path());
                    }
                }
            }
        }
    }
    open_up(root);
    let _ = std::fs::remove_dir_all(root);
}

/// --perm k: permission layout applied to every tree after it is built (files, dirs); 0 = leave the defaults
static PERM: std::sync::atomic::AtomicUsize = std::sync::atomic::AtomicUsize::new(0);
const PERM_LAYOUTS: [(u32, u32); 4] = [(0, 0), (0o444, 0o555), (0o755, 0o700), (0o100, 0o300)];

fn build_std(root: &Path, t: &Tree) {
    build_std0(root, t);
    let (fm, dm) = PERM_LAYOUTS[PERM.load(std::sync::atomic::Ordering::SeqCst)];
    if dm != 0 {
        for (p, n) in t.iter().rev() {
            let fp = root.join(&p[1..]);
            match n {
                Node::Dir => std::fs::set_permissions(&fp, std::fs::Permissions::from_mode(dm)).unwrap(),
                Node::File(_) => std::fs::set_permissions(&fp, std::fs::Permissions::from_mode(fm)).unwrap(),
                Node::Link(_) => {},
            }
        }
    }
}

fn build_std0(root: &Path, t: &Tree) {
    force_remove(root);
    std::fs::create_dir_all(root).unwrap();
    std::fs::set_permissions(root, std::fs::Permissions::from_mode(0o755)).unwrap();
    // parents first (BTreeMap order is lexicographic: "/a" < "/a/b")
    for (p, n) in t {
        let fp = root.join(&p[1..]);
        match n {
            Node::Dir => std::fs::create_dir(&fp).unwrap(),
            Node::File(d) => std::fs::write(&fp, d).unwrap(),
            Node::Link(tg) => {
                // relative link text (the navigation from the link's directory to the target), as rivia's own symlink stores it
                let par = parent(p);
                let lc: Vec<&str> = par.split('/').filter(|x| !x.is_empty()).collect();
                let tc: Vec<&str> = tg.split('/').filter(|x| !x.is_empty()).collect();
                let mut n = 0;
                while n < lc.len() && n < tc.len() && lc[n] == tc[n] {
                    n += 1;
                }
                let mut parts: Vec<String> = (0..lc.len() - n).map(|_| "..".to_string()).collect();
                parts.extend(tc[n..].iter().map(|x| x.to_string()));
                let text = if parts.is_empty() { ".".to_string() } else { parts.join("/") };
                std::os::unix::fs::symlink(&text, &fp).unwrap()
            },
        }
    }
}

fn build_mem(t: &Tree) -> Memfs {
    let m = Memfs::new();
    for (p, n) in t {
        match n {
            Node::Dir => {
                m.mkdir_p(p).unwrap();
            },
            Node::File(d) => {
                m.write_all(p, d).unwrap();
            },
            Node::Link(_) => {},
        }
    }
    let (fm, dm) = PERM_LAYOUTS[PERM.load(std::sync::atomic::Ordering::SeqCst)];
    if dm != 0 {
        for (p, n) in t.iter().rev() {
            match n {
                Node::Dir => m.chmod_b(p).unwrap().no_recurse().all(dm).exec().unwrap(),
                Node::File(_) => m.chmod_b(p).unwrap().no_recurse().all(fm).exec().unwrap(),
                Node::Link(_) => {},
            }
        }
    }
    // links last so that their recorded kind is the kind of the (existing) target
    for pass in 0..2 {
        for (p, n) in t {
            if let Node::Link(tg) = n {
                let to_link = matches!(t.get(tg), Some(Node::Link(_)));
                if (pass == 1) == to_link {
                    m.symlink(p, tg).unwrap();
                }
            }
        }
    }
    m
}

fn clean_join(base: &Path, text: &Path) -> PathBuf {
    let joined = if text.is_absolute() { text.to_path_buf() } else { base.join(text) };
    let mut out = PathBuf::from("/");
    for c in joined.components() {
        match c {
            std::path::Component::ParentDir => {
                out.pop();
            },
            std::path::Component::Normal(x) => out.push(x),
            _ => {},
        }
    }
    out
}

/// Observe the sandbox with std::fs only and render it in the REP format of memproj (paths relative to the sandbox root)
static AS_NOBODY: std::sync::atomic::AtomicBool = std::sync::atomic::AtomicBool::new(false);

/// the observer sees everything: with --as-nobody it looks as root and hands the effective ids back afterwards
fn observe(root: &Path) -> Value {
    let nobody = AS_NOBODY.load(std::sync::atomic::Ordering::SeqCst);
    if nobody {
        unsafe {
            libc::seteuid(0);
        }
    }
    let v = observe0(root);
    if nobody {
        unsafe {
            libc::seteuid(65534);
        }
    }
    v
}

fn observe0(root: &Path) -> Value {
    let mut ents: Vec<(String, Value)> = vec![];
    let mut files: Vec<(String, Value)> = vec![];
    let mut stack = vec![root.to_path_buf()];
    let strip = |p: &Path| -> Option<Vec<String>> {
        p.strip_prefix(root).ok().map(|r| r.components().map(|c| c.as_os_str().to_string_lossy().to_string()).collect())
    };
    while let Some(p) = stack.pop() {
        let md = match std::fs::symlink_metadata(&p) {
            Ok(m) => m,
            Err(_) => continue,
        };
        let comps = strip(&p).unwrap_or_default();
        let key = format!("/{}", comps.join("/"));
        let ft = md.file_type();
        let mut k = String::new();
        let mut alt: Vec<String> = vec![];
        let mut altc = "t";
        let mut rel = String::new();
        let mut ch: Vec<String> = vec![];
        let mut hf = "f";
        if ft.is_symlink() {
            k.push('l');
            match std::fs::metadata(&p) {
                Ok(m2) if m2.is_dir() => k.push('d'),
                Ok(m2) if m2.is_file() => k.push('f'),
                _ => {},
            }
            if let Ok(text) = std::fs::read_link(&p) {
                rel = text.to_string_lossy().to_string();
                let abs = clean_join(p.parent().unwrap_or(root), &text);
                match strip(&abs) {
                    Some(c) => alt = c,
                    None => {
                        alt = vec!["<outside-sandbox>".to_string()];
                        altc = "f";
                    },
                }
            }
        } else if ft.is_dir() {
            k.push('d');
            hf = "t";
            if let Ok(rd) = std::fs::read_dir(&p) {
                for e in rd.flatten() {
                    ch.push(e.file_name().to_string_lossy().to_string());
                    stack.push(e.path());
                }
            }
            ch.sort();
        } else {
            k.push('f');
            let data = std::fs::read(&p).unwrap_or_default();
            files.push((key.clone(), json!({"p": comps, "kc": "t", "d": bytes(&data)})));
        }
        ents.push((
            key,
            json!({"p": comps, "kc": "t", "pk": "t", "k": k, "alt": alt, "altc": altc, "rel": chars(&rel), "mode": md.mode(), "uid": md.uid(), "gid": md.gid(),
                   "fo": "f", "hf": hf, "ch": ch}),
        ));
    }
    ents.sort_by(|a, b| a.0.cmp(&b.0));
    files.sort_by(|a, b| a.0.cmp(&b.0));
    let cwd = std::env::current_dir().unwrap_or_default();
    let (cwdc, cwdok) = match strip(&cwd) {
        Some(c) => (c, "t"),
        None => (vec![], "f"),
    };
    json!({"cwd": cwdc, "cwdc": cwdok, "root": [], "rootc": "t", "po": "f",
           "e": ents.into_iter().map(|x| x.1).collect::<Vec<_>>(), "f": files.into_iter().map(|x| x.1).collect::<Vec<_>>()})
}

/// strip the sandbox prefix from every path value ({"p":[..]}) and listing ({"ps":[[..]..]}) of a result
fn strip_result(v: &mut Value, pre: &[String]) {
    fn strip_comps(a: &mut Vec<Value>, pre: &[String]) -> bool {
        if a.len() >= pre.len() && a.iter().zip(pre.iter()).all(|(x, y)| x.as_str() == Some(y.as_str())) {
            a.drain(..pre.len());
            true
        } else {
            false
        }
    }
    match v {
        Value::Object(m) => {
            // an entry view of the sandbox root: its file name is the sandbox's, the in-memory root has none
            if m.contains_key("path") && m.contains_key("name") {
                let rooted = {
                    let mut p = m["path"].clone();
                    strip_result(&mut p, pre);
                    p["p"].as_array().map(|a| a.is_empty()).unwrap_or(false) && p["abs"] == "t"
                };
                if rooted {
                    m.insert("name".into(), json!([]));
                }
            }
            if m.contains_key("p") && m.contains_key("abs") {
                if m["abs"] == "t" {
                    let ok = strip_comps(m.get_mut("p").unwrap().as_array_mut().unwrap(), pre);
                    if !ok {
                        m.insert("c".into(), json!("outside"));
                    }
                }
                return;
            }
            if m.contains_key("ps") {
                let mut all = true;
                for p in m.get_mut("ps").unwrap().as_array_mut().unwrap() {
                    all &= strip_comps(p.as_array_mut().unwrap(), pre);
                }
                if !all {
                    m.insert("canon".into(), json!("outside"));
                }
                return;
            }
            for (_, x) in m.iter_mut() {
                strip_result(x, pre);
            }
        },
        Value::Array(a) => {
            for x in a.iter_mut() {
                strip_result(x, pre);
            }
        },
        _ => {},
    }
}

fn sandboxed(c: &Value, root: &str) -> Value {
    let mut c2 = c.clone();
    let s = |v: &Value| v.as_array().unwrap().iter().map(|x| x.as_str().unwrap()).collect::<String>();
    for k in ["a", "b"] {
        let raw = s(&c[k]);
        if raw.starts_with('/') {
            c2[k] = chars(&format!("{}{}", root, if raw == "/" { "" } else { &raw }));
        }
    }
    c2
}

/// lexical normal form of an argument as the harness' own domain filter sees it (absolute, no `.`/`..`/empty components);
/// `base` is what a relative argument is relative to (the cwd "/" or, for a symlink target, the link's directory)
fn norm(p: &str, base: &str) -> String {
    let joined = if p.starts_with('/') { p.to_string() } else { format!("{}/{}", base, p) };
    let mut out: Vec<&str> = vec![];
    for c in joined.split('/') {
        match c {
            "" | "." => {},
            ".." => {
                out.pop();
            },
            x => out.push(x),
        }
    }
    format!("/{}", out.join("/"))
}

/// does the spelling climb above the root?  (the sandbox root has a parent, "/" has none: such arguments mean different things)
fn climbs_out(p: &str, base: &str) -> bool {
    let joined = if p.starts_with('/') { p.to_string() } else { format!("{}/{}", base, p) };
    let mut depth = 0i32;
    for c in joined.split('/') {
        match c {
            "" | "." => {},
            ".." => {
                depth -= 1;
                if depth < 0 {
                    return true;
                }
            },
            _ => depth += 1,
        }
    }
    false
}

fn through_link(t: &Tree, p: &str) -> bool {
    // an intermediate component of p is a link
    let mut cur = parent(p);
    while cur != "/" {
        if let Some(Node::Link(_)) = t.get(&cur) {
            return true;
        }
        cur = parent(&cur);
    }
    false
}

fn main() {
    silence_panics();
    limit_memory(4 << 30);
    let tier = arg_or("tier", "quick");
    let worker = arg_u64("worker", 0);
    let workers = arg_u64("workers", 1);
    let stride = arg_u64("stride", if tier == "thorough" { 1 } else { 5 });
    let sandbox = PathBuf::from(arg_or("sandbox", "/dev/shm/rvh-grid")).join(format!("w{}", worker));
    let mut out = Out::create(arg_or("out", "/dev/stdout"));
    let prog = Progress::from_env();
    unsafe {
        libc::umask(0o022);
    }
    let _ = std::fs::remove_dir_all(&sandbox);
    std::fs::create_dir_all(&sandbox).unwrap();
    std::fs::set_permissions(&sandbox, std::fs::Permissions::from_mode(0o777)).unwrap();
    // --as-nobody: the calls run with the EFFECTIVE ids of an unprivileged user (permission checks use them); the saved ids stay
    // root so that the independent observer can look into directories the calls made unreadable (see `observe_priv`)
    if flag("as-nobody") {
        unsafe {
            libc::setegid(65534);
            libc::seteuid(65534);
        }
        AS_NOBODY.store(true, std::sync::atomic::Ordering::SeqCst);
    }
    let root = std::fs::canonicalize(&sandbox).unwrap().join("t");
    let rootstr = root.to_str().unwrap().to_string();
    let pre: Vec<String> = rootstr.split('/').filter(|x| !x.is_empty()).map(|x| x.to_string()).collect();
    let (uid, gid) = unsafe { (libc::geteuid(), libc::getegid()) };
    // --hist N --len L: N seeded multi-step histories run on both backends side by side (chain records k:"ph": every step's
    // pre-state is the previous step's post-state); a history ends with the step that leaves C02's domain (a link that no longer
    // resolves to an existing non-link entry)
    if let Some(n) = arg("hist") {
        use rand::{rngs::StdRng, Rng, SeedableRng};
        let n: u64 = n.parse().unwrap_or(10);
        let len = arg_u64("len", 40);
        let seed = arg_u64("seed", 1);
        let std = Stdfs::new();
        let hnames = ["a", "b", "ab", "\u{e9}"];
        for h in 0..n {
            if h % workers != worker {
                continue;
            }
            let mut rng = StdRng::seed_from_u64(seed.wrapping_mul(1_000_003).wrapping_add(h));
            build_std(&root, &Tree::new());
            std::env::set_current_dir(&root).unwrap();
            let m = Memfs::new();
            let tree0 = observe(&root);
            let mem0 = memproj::project(&m);
            let (mut skey, mut mkey) = (to_ascii_json(&tree0), to_ascii_json(&mem0));
            let mut cur = tree0.clone();
            let mut steps = vec![];
            for i in 0..len {
                // the entries of the real tree as the observer sees them: (path, kind)
                let ents: Vec<(String, String)> = cur["e"].as_array().unwrap().iter()
                    .map(|e| (format!("/{}", e["p"].as_array().unwrap().iter().map(|x| x.as_str().unwrap()).collect::<Vec<_>>().join("/")), e["k"].as_str().unwrap().to_string())).collect();
                let dirs: Vec<&String> = ents.iter().filter(|e| e.1 == "d" && e.0.matches('/').count() < 3).map(|e| &e.0).collect();
                let mut pick = |rng: &mut StdRng| -> String {
                    if rng.gen_bool(0.45) && ents.len() > 1 {
                        ents[rng.gen_range(1..ents.len())].0.clone()
                    } else {
                        let d = dirs[rng.gen_range(0..dirs.len())];
                        let nm = hnames[rng.gen_range(0..hnames.len())];
                        let one = if d == "/" { format!("/{}", nm) } else { format!("{}/{}", d, nm) };
                        // sometimes two new levels: a destination whose parent does not exist yet
                        if rng.gen_bool(0.2) && one.matches('/').count() < 3 && !ents.iter().any(|e| e.0 == one) { format!("{}/{}", one, hnames[rng.gen_range(0..hnames.len())]) } else { one }
                    }
                };
                let (a, b) = (pick(&mut rng), pick(&mut rng));
                let data: &[u8] = [b"".as_slice(), b"x", b"l1\nl2", b"\xff\xfe", b"h\xc3\xa9"][rng.gen_range(0..5)];
                let c = match rng.gen_range(0..30) {
                    0 | 1 => call("mkfile", &a, ""),
                    2 | 3 | 4 => call("mkdir_p", &a, ""),
                    5 => call_m("mkdir_m", &a, [0o700, 0o755, 0o750, 0o1770][rng.gen_range(0..4)], 0),
                    6 => call_m("mkfile_m", &a, [0o600, 0o644, 0o755, 0o444][rng.gen_range(0..4)], 0),
                    7 | 8 => call_d("write_all", &a, data),
                    9 | 10 => call_d("append_all", &a, data),
                    11 => call_ls("write_lines", &a, &["one", "", "two"]),
                    12 => call("remove", &a, ""),
                    13 => call("remove_all", &a, ""),
                    14 => call_m("chmod", &a, [0o755, 0o700, 0o644, 0o600, 0o444, 0o500, 0o1777, 0o777, 0o4755][rng.gen_range(0..9)], 0),
                    15 => call_b("chmod_b", &a, "", 0, 0, ["f:u+x", "a:go-w", "d:a=rx,f:a=r"][rng.gen_range(0..3)], ["s", "sR"][rng.gen_range(0..2)]),
                    16 | 17 => call("move_p", &a, &b),
                    18 => call("copy", &a, &b),
                    19 => call_b("copy_b", &a, &b, [0o700, 0o640, 0o1770][rng.gen_range(0..3)], 0, "", ["a", "d", "f"][rng.gen_range(0..3)]),
                    20 | 21 => call("symlink", &a, &b),
                    _ => call(["exists", "is_dir", "is_file", "is_symlink", "is_symlink_dir", "is_symlink_file", "mode", "read_all", "read_lines", "readlink", "readlink_abs",
                               "paths", "all_paths", "all_files", "entry", "is_exec", "is_readonly"][rng.gen_range(0..17)], &a, ""),
                };
                // never the sandbox root as a mutation source / target (it is not a filesystem root)
                let is_query = !["mkfile", "mkdir_p", "mkdir_m", "mkfile_m", "write_all", "append_all", "write_lines", "remove", "remove_all", "chmod", "chmod_b", "move_p", "copy", "copy_b", "symlink"].contains(&c["op"].as_str().unwrap());
                if !is_query && (a == "/" || (["move_p", "copy", "symlink"].contains(&c["op"].as_str().unwrap()) && b == "/" && c["op"] == "symlink")) {
                    continue;
                }
                prog.mark(h * 1000 + i, &format!("hist#{} {}", h, to_ascii_json(&c)));
                let mut rs = apply(&std, &sandboxed(&c, &rootstr));
                strip_result(&mut rs, &pre);
                let _ = std::env::set_current_dir(&root);
                let post_s = observe(&root);
                let k2 = to_ascii_json(&post_s);
                let std_side = if k2 == skey { json!({"r": rs, "same": "t", "post": []}) } else { json!({"r": rs, "same": "f", "post": post_s.clone()}) };
                let rm = apply(&m, &c);
                let post_m = memproj::project(&m);
                let k3 = to_ascii_json(&post_m);
                let mem_side = if k3 == mkey { json!({"r": rm, "same": "t", "post": []}) } else { json!({"r": rm, "same": "f", "post": post_m}) };
                steps.push(json!({"c": c, "skipped": "-", "mem": mem_side, "std": std_side}));
                skey = k2;
                mkey = k3;
                cur = post_s;
                // still inside the domain?  every link resolves to an existing entry that is not a link
                let es = cur["e"].as_array().unwrap();
                let kind_of = |p: &Value| es.iter().find(|e| &e["p"] == p).map(|e| e["k"].as_str().unwrap_or("").to_string());
                let out_of_domain = es.iter().any(|e| e["k"].as_str().unwrap_or("").starts_with('l') && !matches!(kind_of(&e["alt"]), Some(k) if !k.starts_with('l')));
                if out_of_domain {
                    break;
                }
            }
            out.rec(&json!({"k": "ph", "tree": tree0, "memtree": mem0, "own": {"uid": uid, "gid": gid}, "steps": steps}));
        }
        let _ = std::env::set_current_dir("/");
        force_remove(&sandbox);
        out.finish();
        return;
    }
    let names = ["a", "b"];
    let paths = ["/", "/a", "/b", "/a/a", "/a/b", "/b/a", "/b/b"];
    let mut trees = base_trees(&names);
    let linkfree = trees.len();
    let mut linked = vec![];
    for t in &trees {
        linked.extend(with_one_link(t, &names));
    }
    trees.extend(linked);
    // --chains (C10): instead, trees with a second link that points to the first link (a chain), queries on the new link only
    let chains = flag("chains");
    let mut chain_links: Vec<String> = vec![];
    if chains {
        let mut ct = vec![];
        for t in trees.iter().skip(linkfree) {
            let (l1, _) = t.iter().find(|(_, n)| matches!(n, Node::Link(_))).map(|(p, n)| (p.clone(), n.clone())).unwrap();
            for slot in ["/a", "/b", "/a/a", "/a/b", "/b/a", "/b/b"] {
                let par = parent(slot);
                if t.contains_key(slot) || !(par == "/" || matches!(t.get(&par), Some(Node::Dir))) {
                    continue;
                }
                let mut t2 = t.clone();
                t2.insert(slot.to_string(), Node::Link(l1.clone()));
                ct.push(t2);
                chain_links.push(slot.to_string());
                break;
            }
        }
        trees = ct;
    }
    // --dangling (C10): instead, link-free trees plus one link whose target does not exist; calls on that link only (the queries
    // and the calls that have to treat the link as the entry it is: remove, remove_all, move_p, symlink over it)
    let dangling = flag("dangling");
    if dangling {
        let mut dt = vec![];
        for t in trees.iter().take(linkfree) {
            let slots = ["/a", "/b", "/a/a", "/a/b", "/b/a", "/b/b"];
            for (si, slot) in slots.iter().enumerate() {
                let par = parent(slot);
                if t.contains_key(*slot) || !(par == "/" || matches!(t.get(&par), Some(Node::Dir))) {
                    continue;
                }
                // a target that is not there: another free path (its parent may be missing as well), not below the link
                let tg = slots.iter().cycle().skip(si + 1).take(5).find(|x| !t.contains_key(**x) && !x.starts_with(&format!("{}/", slot)));
                if let Some(tg) = tg {
                    let mut t2 = t.clone();
                    t2.insert(slot.to_string(), Node::Link(tg.to_string()));
                    dt.push(t2);
                    chain_links.push(slot.to_string());
                }
            }
        }
        trees = dt;
    }
    eprintln!("grid: {} link-free trees, {} trees with one link", linkfree, trees.len().saturating_sub(linkfree));
    // call alphabet
    let mut calls: Vec<Value> = vec![];
    for p in paths {
        calls.push(call("mkfile", p, ""));
        calls.push(call("mkdir_p", p, ""));
        calls.push(call_m("mkdir_m", p, 0o700, 0));
        calls.push(call_m("mkfile_m", p, 0o600, 0));
        calls.push(call_d("write_all", p, b"y"));
        calls.push(call_d("append_all", p, b"y"));
        calls.push(call_ls("write_lines", p, &["l1", "l2"]));
        calls.push(call("remove", p, ""));
        calls.push(call("remove_all", p, ""));
        calls.push(call_m("chmod", p, 0o500, 0));
        calls.push(call_m("chmod", p, 0o600, 0));      // takes the search bit off directories: an unprivileged caller must not lock itself out half way
        // special bits on top of exactly the permission bits the entry already has (directories 0o755, files 0o644 in these trees):
        // a shortcut that compares only the rwx bits would skip the call
        calls.push(call_m("chmod", p, 0o1755, 0));
        calls.push(call_m("chmod", p, 0o4644, 0));
        calls.push(call_b("chmod_b", p, "", 0, 0, "f:u+x,d:go-rx", "sR"));
        calls.push(call_b("chown_b", p, "", uid, gid, "", "oR"));
        for q in [
            "exists", "is_dir", "is_file", "is_symlink", "is_symlink_dir", "is_symlink_file", "is_exec", "is_readonly", "mode", "read_all", "read_lines",
            "read", "readlink", "readlink_abs", "paths", "dirs", "files", "all_paths", "all_dirs", "all_files", "entry", "abs", "owner",
        ] {
            calls.push(call(q, p, ""));
        }
    }
    for a in paths {
        for b in paths {
            calls.push(call("symlink", a, b));
            calls.push(call("move_p", a, b));
            calls.push(call("copy", a, b));
            calls.push(call_b("copy_b", a, b, 0, 0, "", "F"));
        }
    }
    // respelled arguments: relative to the cwd (the root on both sides), unclean, trailing separators; symlink targets relative
    // to the link's directory and not in their shortest spelling
    if !chains && !dangling {
        for (op, a) in [("mkfile", "a//b"), ("mkfile", "./b"), ("mkdir_p", "./a/./b/"), ("mkdir_p", "b/../a/a"), ("remove", "b/../a"), ("remove_all", "./a/"),
                        ("exists", "a/../b"), ("is_dir", "a/"), ("is_file", "./a/b"), ("read_all", "a//b"), ("abs", "a/./b/.."), ("readlink", "./a"), ("readlink_abs", "b/."),
                        ("paths", "./a"), ("all_paths", "a/.."), ("entry", "./b"), ("mode", "b//"),
                        ("paths", "/a/b/.."), ("all_paths", "/a/./"), ("dirs", "/b/../a"), ("files", "/a/b/../"), ("all_dirs", "/b/a/../.."), ("all_files", "/./a")] {
            calls.push(call(op, a, ""));
        }
        calls.push(call_d("write_all", "a/../b", b"y"));
        calls.push(call_d("append_all", "./a/b", b"y"));
        for (a, b) in [("./a", "b/"), ("a/b", "./b/a"), ("a/.", "/b//"), ("b", "a/../a/b")] {
            calls.push(call("move_p", a, b));
            calls.push(call("copy", a, b));
        }
        // copy with a mode option into a destination whose parent directories have to be created (their mode is the source
        // directory's unless a mode for directories was asked for)
        for (a, b) in [("/a/a", "/b/x/y"), ("/a", "/n/m"), ("/b/b", "/a/q/r"), ("/b", "/a/n")] {
            for fl in ["f", "d", "a"] {
                calls.push(call_b("copy_b", a, b, 0o600, 0, "", fl));
            }
        }
        for l in ["/b", "/a/b", "/b/a", "a/a", "./b"] {
            for tg in ["./a", "../a", "a/../b", "./a/b/", "b/..", "..", "/a/./b", "/b/../a"] {
                calls.push(call("symlink", l, tg));
            }
        }
    }
    // --perm k (C11 on both backends): the trees get permission layout k and the alphabet is the permission one - the observers
    // mode / is_exec / is_readonly / entry on every path (links included) and chmod in its builder variants
    let perm = arg_u64("perm", 0) as usize;
    if perm > 0 {
        PERM.store(perm.min(PERM_LAYOUTS.len() - 1), std::sync::atomic::Ordering::SeqCst);
        calls.clear();
        for p in paths {
            for q in ["mode", "is_exec", "is_readonly", "entry", "owner"] {
                calls.push(call(q, p, ""));
            }
            calls.push(call_m("chmod", p, 0o640, 0));
            calls.push(call_b("chmod_b", p, "", 0, 0, "f:u+x,d:go-rx", "sR"));
            calls.push(call_b("chmod_b", p, "", 0, 0, "a:a-w", "s"));
            calls.push(call_b("chmod_b", p, "", 0, 0, "f:a=r,d:u+w", "sF"));
            calls.push(call_b("chmod_b", p, "", 0, 0, "a:u-r", "sR"));
            calls.push(call_b("chmod_b", p, "", 0, 0, "f:a-rwx", "s"));
            calls.push(call_b("chmod_b", p, "", 0o750, 0, "", "d"));
            calls.push(call_b("chmod_b", p, "", 0, 0o604, "", "f"));
            calls.push(call_b("chmod_b", p, "", 0o711, 0, "", "aF"));
            calls.push(call_b("chmod_b", p, "", 0o711, 0, "", "aR"));
            // chown to other ids (needs root): on the entry only / recursively / following links
            if uid == 0 {
                calls.push(call_b("chown_b", p, "", 5, 7, "", "ugR"));
                calls.push(call_b("chown_b", p, "", 5, 7, "", "ug"));
                calls.push(call_b("chown_b", p, "", 5, 0, "", "uF"));
                calls.push(call_m("chown", p, 6, 8));
            }
        }
    }
    let std = Stdfs::new();
    let stdv = Vfs::stdfs();
    let route_enum = arg_or("route", "direct") == "enum";
    let mut id = 0u64;
    for (ti, t0) in trees.iter().enumerate() {
        if (ti as u64) % stride != 0 || ((ti as u64) / stride) % workers != worker {
            continue;
        }
        // every other selected tree holds invalid UTF-8 in its non-empty files (read_all / read_lines must fail alike)
        let mut t1 = t0.clone();
        if ((ti as u64) / stride) % 2 == 1 {
            for n in t1.values_mut() {
                if let Node::File(d) = n {
                    if !d.is_empty() {
                        *d = vec![0xff, b'x'];
                    }
                }
            }
        }
        let t = &t1;
        let only: Option<&String> = if chains || dangling { chain_links.get(ti) } else { None };
        build_std(&root, t);
        std::env::set_current_dir(&root).unwrap();
        let tree_rep = observe(&root);
        let mem0 = memproj::project(&build_mem(t));
        let treekey = to_ascii_json(&tree_rep);
        let memkey = to_ascii_json(&mem0);
        let mut steps = vec![];
        let mut dirty = false;
        for c in &calls {
            let s = |v: &Value| v.as_array().unwrap().iter().map(|x| x.as_str().unwrap()).collect::<String>();
            let (a, b) = (s(&c["a"]), s(&c["b"]));
            if climbs_out(&a, "/") || (!b.is_empty() && climbs_out(&b, &if c["op"] == "symlink" { parent(&norm(&a, "/")) } else { "/".to_string() })) {
                continue;
            }
            let a = norm(&a, "/");
            let b = if b.is_empty() { b } else if c["op"] == "symlink" { norm(&b, &parent(&a)) } else { norm(&b, "/") };
            if through_link(t, &a) || (!b.is_empty() && through_link(t, &b)) {
                continue; // outside C02's domain
            }
            if let Some(l2) = only {
                // chain trees: only what C10 states about a link - queries on the link that points to a link
                let q = ["exists", "is_dir", "is_file", "is_symlink", "is_symlink_dir", "is_symlink_file", "readlink", "readlink_abs", "entry", "mode"];
                let mu = ["remove", "remove_all", "move_p", "symlink"];
                let op = c["op"].as_str().unwrap();
                // ("readlink / readlink_abs on a non-link fail": those two on every path)
                let on_other = dangling && &a != l2 && ["readlink", "readlink_abs"].contains(&op);
                if !on_other && (&a != l2 || !(q.contains(&op) || (dangling && mu.contains(&op)))) {
                    continue;
                }
            }
            // copy with follow(true): only the documented use - the source itself is the link (DESIGN A24: where entries
            // reached through links BELOW a followed source are placed is an open question on both backends)
            // Memfs enforces no permissions: an unprivileged caller that gives new directories a mode without its own search bit cannot
            // go on inside them on the real filesystem - outside what the two backends can agree on
            if AS_NOBODY.load(std::sync::atomic::Ordering::SeqCst) && c["op"] == "copy_b" && c["m"] == 0o600 && c["f"].as_array().map(|f| f.iter().any(|x| x == "d" || x == "a")).unwrap_or(false) {
                continue;
            }
            if c["op"] == "copy_b" && c["f"].as_array().map(|f| f.iter().any(|x| x == "F")).unwrap_or(false) {
                match t.get(&a) {
                    // the link must not lie inside its own target (a followed cycle ends in LinkLooping with an order-dependent
                    // partial result) and the target must not be the sandbox root (whose name differs from "/")
                    Some(Node::Link(tg)) if tg != "/" && !a.starts_with(&format!("{}/", tg)) => {},
                    _ => continue,
                }
            }
            // the sandbox root is not a filesystem root (it has a parent): never a mutation target / source
            let is_query = c["d"].as_array().unwrap().is_empty() && b.is_empty() && !["mkfile", "mkdir_p", "mkdir_m", "mkfile_m", "write_all", "append_all", "write_lines", "remove", "remove_all", "chmod", "chmod_b", "chown_b"].contains(&c["op"].as_str().unwrap());
            if a == "/" && !is_query {
                continue;
            }
            id += 1;
            prog.mark(id, &format!("tree#{} {}", ti, to_ascii_json(c)));
            if dirty {
                build_std(&root, t);
                std::env::set_current_dir(&root).unwrap();
                dirty = false;
            }
            // real filesystem side
            // --route enum (C13): the same calls through the Vfs enum instead of the backend types
            let mut rs = if route_enum { apply(&stdv, &sandboxed(c, &rootstr)) } else { apply(&std, &sandboxed(c, &rootstr)) };
            strip_result(&mut rs, &pre);
            if std::env::current_dir().map(|d| d != root).unwrap_or(true) {
                // keep the observer's cwd reading, then go back
            }
            let post_s = observe(&root);
            let skey = to_ascii_json(&post_s);
            let std_side = if skey == treekey { json!({"r": rs, "same": "t", "post": []}) } else {
                dirty = true;
                json!({"r": rs, "same": "f", "post": post_s})
            };
            let _ = std::env::set_current_dir(&root);
            // memory side
            let m = build_mem(t);
            let (rm, post_m) = if route_enum {
                let mv = Vfs::Memfs(m);
                let r = apply(&mv, c);
                let p = match &mv {
                    Vfs::Memfs(x) => memproj::project(x),
                    _ => unreachable!(),
                };
                (r, p)
            } else {
                let r = apply(&m, c);
                (r, memproj::project(&m))
            };
            let mkey = to_ascii_json(&post_m);
            let mem_side = if mkey == memkey { json!({"r": rm, "same": "t", "post": []}) } else { json!({"r": rm, "same": "f", "post": post_m}) };
            steps.push(json!({"c": c, "skipped": "-", "mem": mem_side, "std": std_side}));
        }
        out.rec(&json!({"k": "p", "tree": tree_rep, "memtree": mem0, "own": {"uid": uid, "gid": gid}, "steps": steps}));
    }
    let _ = std::env::set_current_dir("/");
    force_remove(&sandbox);
    out.finish();
}
