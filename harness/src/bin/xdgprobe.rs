//! C18: XDG directory lookup.  Started ONCE PER ENVIRONMENT by props/c18.py with an explicit environment
//! (nothing inherited).  Calls every environment-reading function of `rivia::sys::user`, `sys::parse_paths`,
//! `vfs.config_dir(name)` on a fresh Memfs and on a Stdfs sandbox for every subset of the universe
//! directories containing the file, and `user::getrids` for uid, gid in {0, 1000}.
//!   xdgprobe --eid N --sandbox DIR [--vfs 1] [--u DIR]... --out F
//! Records (one per call group), all carry "e" (index of the environment in the PENV file of the check):
//!   {"k":"dirs","env":{NAME:chars,"_":[]},"o":{"home","config","cache","data","state","runtime": RES}}
//!   {"k":"lists","o":{"sys_config","sys_data","path": RESLIST}}
//!   {"k":"pp","n":NAME,"a":chars,"o":RESLIST}                         sys::parse_paths on the raw value
//!   {"k":"rids","uid":digits,"gid":digits,"o":{"o":"ok"|"panic","ruid":digits,"rgid":digits}}
//!   {"k":"vfs","be":"memfs"|"stdfs","setup":"ok"|..,"has":[dir...],"o":{"n1","n2"(,"d1","d2"): OPT}}
//! RES = {"o":"ok"|kind|"panic","v":chars}; RESLIST: v = [chars...]; OPT = {"o":"ok"|"none"|"panic","v":chars}
use rivia::prelude::*;
use rvharness::*;
use std::path::{Path, PathBuf};

const NAMES: [&str; 2] = ["rv18.toml", "app/rv18.toml"];

fn res_list(r: RvResult<Vec<PathBuf>>) -> Value {
    res(r, |v| Value::Array(v.iter().map(|p| pchars(p)).collect()))
}
fn opt_path(o: Option<PathBuf>) -> Value {
    match o {
        Some(p) => json!({"o": "ok", "v": pchars(&p)}),
        None => json!({"o": "none", "v": []}),
    }
}
fn all_args(name: &str) -> Vec<String> {
    let a: Vec<String> = std::env::args().collect();
    let key = format!("--{}", name);
    let mut out = vec![];
    for i in 0..a.len() {
        if a[i] == key && i + 1 < a.len() {
            out.push(a[i + 1].clone());
        }
    }
    out
}
fn digits(n: u32) -> Value {
    chars(&n.to_string())
}

fn main() {
    silence_panics();
    let eid = arg_u64("eid", 0);
    let do_vfs = arg_u64("vfs", 1) == 1;
    let sandbox = arg_or("sandbox", "");
    let univ = all_args("u");
    let mut out = Out::create(arg_or("out", "/dev/stdout"));
    let prog = Progress::from_env();
    let mut id = 0u64;
    let mut mark = |d: &str| {
        id += 1;
        prog.mark(id, d);
    };

    // the environment as this process sees it (the supervisor's progress variable is not part of the case)
    let mut envo = Map::new();
    envo.insert("_".into(), json!([]));
    for (k, v) in std::env::vars_os() {
        let k = k.to_string_lossy().to_string();
        if k == "RVH_PROGRESS" {
            continue;
        }
        envo.insert(k, chars(&v.to_string_lossy()));
    }

    // ---- directories
    mark("dirs");
    let mut o = Map::new();
    o.insert("home".into(), gres(|| res_path(user::home_dir())));
    o.insert("sys_home".into(), gres(|| res_path(sys::home_dir())));
    o.insert("config".into(), gres(|| res_path(user::config_dir())));
    o.insert("cache".into(), gres(|| res_path(user::cache_dir())));
    o.insert("data".into(), gres(|| res_path(user::data_dir())));
    o.insert("state".into(), gres(|| res_path(user::state_dir())));
    o.insert("runtime".into(), gres(|| r_ok(pchars(&user::runtime_dir()))));
    out.rec(&json!({"k": "dirs", "e": eid, "env": Value::Object(envo), "o": Value::Object(o)}));

    // ---- colon lists
    mark("lists");
    let mut o = Map::new();
    o.insert("sys_config".into(), gres(|| res_list(user::sys_config_dirs())));
    o.insert("sys_data".into(), gres(|| res_list(user::sys_data_dirs())));
    o.insert("path".into(), gres(|| res_list(user::path_dirs())));
    out.rec(&json!({"k": "lists", "e": eid, "o": Value::Object(o)}));
    for n in ["XDG_CONFIG_DIRS", "XDG_DATA_DIRS", "PATH"] {
        if let Ok(v) = std::env::var(n) {
            mark(&format!("parse_paths {}", n));
            let r = gres(|| res_list(sys::parse_paths(&v)));
            out.rec(&json!({"k": "pp", "e": eid, "n": n, "a": chars(&v), "o": r}));
        }
    }

    // ---- getrids: takes uid and gid as arguments (it does not read the ids of the process), so both the
    // root and the non-root branch are reachable whoever runs the driver
    for (uid, gid) in [(0u32, 0u32), (0, 1000), (1000, 1000), (1000, 0)] {
        mark(&format!("getrids {} {}", uid, gid));
        let r = match guard(|| user::getrids(uid, gid)) {
            Ok((ru, rg)) => json!({"o": "ok", "ruid": digits(ru), "rgid": digits(rg)}),
            Err(_) => json!({"o": "panic", "ruid": [], "rgid": []}),
        };
        out.rec(&json!({"k": "rids", "e": eid, "uid": digits(uid), "gid": digits(gid), "o": r}));
    }

    // ---- vfs.config_dir: every subset of the universe holds the file
    if do_vfs && univ.len() <= 10 {
        // Memfs (through the Vfs enum: covers Vfs::config_dir and Memfs::config_dir)
        for mask in 0u32..(1u32 << univ.len()) {
            let has: Vec<&String> = univ.iter().enumerate().filter(|(i, _)| mask >> i & 1 == 1).map(|(_, d)| d).collect();
            mark(&format!("memfs config_dir mask {}", mask));
            let vfs = Vfs::memfs(); // fresh instance per case
            let setup = guard(|| -> RvResult<()> {
                for d in has.iter() {
                    for n in NAMES {
                        let f = Path::new(d.as_str()).join(n);
                        vfs.mkdir_p(f.parent().unwrap())?;
                        vfs.write_all(&f, "x")?;
                    }
                }
                Ok(())
            });
            let setup = match setup {
                Ok(Ok(())) => "ok".to_string(),
                Ok(Err(e)) => err_kind(&e),
                Err(_) => "panic".to_string(),
            };
            let mut o = Map::new();
            o.insert("n1".into(), gres(|| opt_path(vfs.config_dir(NAMES[0]))));
            o.insert("n2".into(), gres(|| opt_path(vfs.config_dir(NAMES[1]))));
            out.rec(&json!({"k": "vfs", "e": eid, "be": "memfs", "setup": setup, "has": has.iter().map(|d| chars(d)).collect::<Vec<_>>(), "o": Value::Object(o)}));
        }
        // Stdfs: only directories below the sandbox are ever created or removed
        if sandbox.starts_with('/') && sandbox.len() > 8 {
            let sb = PathBuf::from(&sandbox);
            let pre = format!("{}/", sandbox.trim_end_matches('/'));
            let suniv: Vec<&String> = univ.iter().filter(|d| d.starts_with(&pre) && !d.contains("..")).collect();
            let _ = std::fs::remove_dir_all(&sb);
            let cwd = sb.join("cwd");
            std::fs::create_dir_all(&cwd).expect("sandbox");
            std::env::set_current_dir(&cwd).expect("chdir sandbox");
            let vfs = Vfs::stdfs();
            let direct = Stdfs::new(); // the trait implementation without the enum (Stdfs::config_dir itself is private)
            for mask in 0u32..(1u32 << suniv.len()) {
                let has: Vec<&String> = suniv.iter().enumerate().filter(|(i, _)| mask >> i & 1 == 1).map(|(_, d)| *d).collect();
                mark(&format!("stdfs config_dir mask {}", mask));
                let mut setup = "ok".to_string();
                for d in has.iter() {
                    for n in NAMES {
                        let f = Path::new(d.as_str()).join(n);
                        if std::fs::create_dir_all(f.parent().unwrap()).and_then(|_| std::fs::write(&f, "x")).is_err() {
                            setup = "io".to_string();
                        }
                    }
                }
                let mut o = Map::new();
                o.insert("n1".into(), gres(|| opt_path(vfs.config_dir(NAMES[0]))));
                o.insert("n2".into(), gres(|| opt_path(vfs.config_dir(NAMES[1]))));
                o.insert("d1".into(), gres(|| opt_path(direct.config_dir(NAMES[0]))));
                o.insert("d2".into(), gres(|| opt_path(direct.config_dir(NAMES[1]))));
                out.rec(&json!({"k": "vfs", "e": eid, "be": "stdfs", "setup": setup, "has": has.iter().map(|d| chars(d)).collect::<Vec<_>>(), "o": Value::Object(o)}));
                for d in has.iter() {
                    let _ = std::fs::remove_dir_all(d.as_str());
                }
            }
            let _ = std::env::set_current_dir("/");
            let _ = std::fs::remove_dir_all(&sb);
        }
    }
    out.finish();
}
