//! C12 - totality: every public Memfs method, every public path helper and the string / iterator extensions
//! fed with adversarial arguments.  Every call into rivia runs under `guard` (a panic is data) in a worker
//! that is watched by the python supervisor (`prog.mark` before each call; a stalled worker is killed and
//! the in-flight call reported) with RLIMIT_AS = 2 GiB (a runaway allocation aborts the worker).
//!
//! Records (ND-JSON, judged by spec/Trace_Totality.tla against spec/Totality.tla):
//!   {"k":"t","fn":NAME,"v":VARIANT,"in":CLASS,"o":"ok|err|panic|timeout","probe":"ok|fail|-","poisoned":"t|f","nw":"t|f|p"}
//!        one call; nw = "t": the call ran on a freshly built instance, "f": on the instance of the previous record,
//!        "p": pure helper (no instance, no probe);
//!        after every outcome other than ok the probe ran (exists("/") + mkdir_p/write_all/read_all/remove_all
//!        round trip on /__probe); non-ok records carry the input ("a","b" char arrays, "e" error kind or panic
//!        message); "x" (char array) asks the validator to compare ok/err with the PathLex expectation.
//!   {"k":"s","fn":NAME,"in":CLASS,"o":"ok|err","n":COUNT,"probe":"ok|-","poisoned":"f","nw":"t|p"}
//!        aggregate of plain ok / err(+successful probe) calls of the extended input layers
//!   {"k":"m","calls":N,"bad":N,"rebuilds":N,...}   per-worker totals (last record)
//! Usage: totality --tier quick|thorough --seed N --out FILE [--worker i --workers n] [--set all|vfs|pairs|pure|misc]
//!        totality --one FN --a STR [--b STR]     run a single call verbosely (for backtraces)
use rand::{rngs::StdRng, Rng, SeedableRng};
use rivia::prelude::*;
use rvharness::ops::{self, call, call_b, call_d, call_ls, call_m};
use rvharness::*;
use std::collections::BTreeMap;
use std::path::PathBuf;

const ALPHA: [&str; 9] = ["/", ".", "~", "$", ":", "\u{e9}", "\u{65e5}", "\u{1d11e}", "a"];
const MODES: [u32; 7] = [0, 0o7777, 0o644, 0x7fff_ffff, u32::MAX, 0o100777, 0o40000];
const IDS: [u32; 5] = [0, 1000, 65534, 0x7fff_ffff, u32::MAX];
const ITER_CAP: usize = 200_000;

// ------------------------------------------------------------------------------------------------ inputs
fn nasties() -> Vec<String> {
    let mut v: Vec<String> = [
        "", "~", "$", "${", "${}", "$}", "${a", "${a}", "$a", "~/", "~a", "~/a", "//", "///", "/..", "/../..", "..", "../..", ".",
        "./.", "/.", "a/..", "a/../..", "a/./a", "file://", "file:///", "file:///a", "FILE://a", "ftp://x", "http://", "https://a/a", ":", "::",
        ":/", "a:", "a:a", "a\u{301}", "\u{301}", "e\u{301}/a", "\u{e9}/a", "/\u{e9}/a", "a/\u{e9}", "\u{1d11e}\u{65e5}\u{e9}a", "/\u{1d11e}/\u{65e5}/\u{e9}/a",
        "a\u{1}b", "\t", "a\tb", "\u{7f}", "\u{1b}[0m", "a\rb", "/a\n", "\u{feff}", "\u{202e}a", "\u{fffd}", "\u{10ffff}", " ", " /", "/ ", "a ", "-", "--", "*",
        "?", "\\", "a\\b", "\"", "'", "%", "%00", "/a/a/a", "/a/a/", "/a/b/c/d", "/a/b/..", "/a/b/../../..", "a.", ".a", "a.a", "a..a", "a.\u{e9}", "\u{e9}.a",
        "\u{e9}.\u{65e5}", ".\u{1d11e}", "/a.a/", "a.a/.", "a.a/..", "$HOME", "$HOME/a", "${HOME}", "$NOPE", "${NOPE}/a", "$\u{e9}", "${\u{e9}}", "$$", "$~", "~$", "~~",
        "/~", "/$", "/:", "/\u{e9}", "/\u{65e5}", "/\u{1d11e}", "/a/b/up", "/a/b/up/b/up", "/a/b/l", "/\u{e9}/b/c", "/\u{1d11e}/x", "/:/x", "/nope", "/nope/x",
    ]
    .iter()
    .map(|s| s.to_string())
    .collect();
    v.push("../".repeat(200));
    v.push(format!("/{}", "../".repeat(200)));
    v.push(format!("/a/{}a", "../".repeat(200)));
    v.push("a/".repeat(200));
    v.push(format!("/{}", "a/".repeat(300)));
    v.push("x".repeat(4096));
    v.push(format!("/{}", "x".repeat(4096)));
    v.push(format!("/a/{}", "\u{65e5}".repeat(1366)));
    v.push("\u{1d11e}".repeat(1024));
    v.push(format!("{}.{}", "n".repeat(2000), "e".repeat(2000)));
    v.push(format!("/a/{}", "/".repeat(4096)));
    v.push("$".repeat(300));
    v.push("~".repeat(300));
    v.push("${".repeat(200));
    v.push(format!("file://{}", "file://".repeat(100)));
    v.push(":".repeat(500));
    v.push(".".repeat(4096));
    v
}

/// reduced list for the two-path methods
fn pair_list(thorough: bool) -> Vec<String> {
    let mut v = all_strings(&ALPHA, 2);
    for s in [
        "/a", "/a/a", "/a/b", "/a/b/c", "/a/b/up", "/a/b/l", "/a/.a", "/\u{e9}", "/\u{65e5}", "/\u{1d11e}", "/:", "/~", "/$", "/nope", "/a/new", "/new/x/y", "/a/b/new",
        "/a/b/up/new", "/\u{e9}/new", "/\u{e9}/b", "/a/a/x", "/a/..", "/a/b/..", "..", "../..", "a/..", "a/b", "a/b/c", "b", "a/\u{e9}", "\u{e9}/a", "\u{e9}/b/c",
        "a\u{301}", "${", "$a", "${a}/b", "~/b", "~/new", "file:///a", "file:///new", "ftp://x", "a\u{1}b", "\t", " ", "a.a", ".a", "/a/", "//a//b//", "/./a/./b",
    ] {
        v.push(s.to_string());
    }
    v.push("../".repeat(200));
    v.push(format!("/a/{}a/b", "../".repeat(200)));
    v.push(format!("/{}", "x".repeat(4096)));
    v.push(format!("/a/{}", "\u{65e5}".repeat(1366)));
    v.push(format!("/a/b/{}", "a/".repeat(60)));
    if thorough {
        v.extend(all_strings(&ALPHA, 3).into_iter().filter(|s| s.chars().count() == 3).step_by(7));
    }
    v.dedup();
    v
}

fn class_of(s: &str) -> String {
    let mut f: Vec<&str> = vec![];
    if s.is_empty() {
        f.push("empty");
    }
    if !s.is_ascii() {
        f.push("mb");
    }
    if s.contains(|c| c == '~' || c == '$' || c == ':') {
        f.push("sp");
    }
    if s.chars().any(|c| c.is_control()) {
        f.push("ctl");
    }
    if s.len() > 255 {
        f.push("long");
    }
    if f.is_empty() {
        "plain".to_string()
    } else {
        f.join("+")
    }
}
fn class2(a: &str, b: &str) -> String {
    format!("{}|{}", class_of(a), class_of(b))
}
fn short(s: &str) -> String {
    let e: String = s.escape_default().to_string();
    if e.len() > 240 {
        format!("{}...({} bytes)", &e[..200], s.len())
    } else {
        e
    }
}

// ------------------------------------------------------------------------------------------------ context
#[derive(PartialEq, Clone, Copy)]
enum O {
    Ok,
    Err,
    Panic,
    Timeout,
}
impl O {
    fn s(self) -> &'static str {
        match self {
            O::Ok => "ok",
            O::Err => "err",
            O::Panic => "panic",
            O::Timeout => "timeout",
        }
    }
}

struct Ctx {
    out: Out,
    prog: Progress,
    worker: u64,
    workers: u64,
    item: u64,
    id: u64,
    fs: Option<Memfs>,
    fresh: bool,
    individual: bool,
    verbose: bool,
    agg: BTreeMap<(String, String, &'static str, &'static str), u64>,
    calls: u64,
    bad: u64,
    rebuilds: u64,
    counts: [u64; 4],
    inflight: String,
    skip_hang: Vec<(String, String)>,
    skipped: u64,
}

fn s_of(v: &Value) -> String {
    v.as_array().map(|a| a.iter().map(|c| c.as_str().unwrap_or("")).collect::<String>()).unwrap_or_default()
}

/// named (syntactic, over-approximating) input classes of listed hang findings: `--skip-hang FN:CLASS[,FN:CLASS..]`
fn hang_class(when: &str, ins: &[&str]) -> bool {
    let a = ins.first().copied().unwrap_or("").trim_end_matches('/');
    let b = ins.get(1).copied().unwrap_or("").trim_end_matches('/');
    match when {
        // the destination is the source or lies below it
        "dst-inside-src" => !a.is_empty() && (b == a || (b.starts_with(a) && b[a.len()..].starts_with('/'))),
        "any" => true,
        _ => false,
    }
}

fn fixture() -> Memfs {
    let r = guard(|| -> RvResult<Memfs> {
        let fs = Memfs::new();
        fs.mkdir_p("/a/b")?;
        fs.mkdir_p("/a/.a")?;
        fs.write_all("/a/a", b"hello\nworld")?;
        fs.mkfile("/a/b/c")?;
        fs.write_all("/\u{65e5}", "\u{65e5}\u{672c}\n\u{e9}\n".as_bytes())?;
        fs.symlink("/\u{e9}", "/a")?; // link to a directory
        fs.symlink("/\u{1d11e}", "/\u{65e5}")?; // link to a file
        fs.symlink("/:", "/nope")?; // dangling link
        fs.symlink("/a/b/up", "/a")?; // link to an ancestor (cycle when followed)
        fs.symlink("/a/b/l", "../a")?; // relative link to a file
        fs.symlink("/a/.a/x", "/a/.a/y")?; // two links pointing at each other: a cycle that is never a directory,
        fs.symlink("/a/.a/y", "/a/.a/x")?; // whoever chases link chains must give up at some point
        Ok(fs)
    });
    match r {
        Ok(Ok(fs)) => fs,
        Ok(Err(e)) => {
            eprintln!("totality: cannot build the fixture tree: {:?}", e);
            std::process::exit(2)
        },
        Err(m) => {
            eprintln!("totality: building the fixture tree panicked: {}", m);
            std::process::exit(2)
        },
    }
}

fn is_poisoned(fs: &Memfs) -> bool {
    match guard(|| format!("{:?}", fs).contains("poisoned: true")) {
        Ok(b) => b,
        Err(_) => true,
    }
}

/// exists("/") and a mkdir_p + write_all + read_all + remove_all round trip on a scratch path
fn probe(fs: &Memfs) -> Result<(), String> {
    match guard(|| -> Result<(), String> {
        if !fs.exists("/") {
            return Err("exists(\"/\") = false".into());
        }
        fs.mkdir_p("/__probe/d").map_err(|e| format!("mkdir_p: {}", err_kind(&e)))?;
        fs.write_all("/__probe/d/f", b"probe-data").map_err(|e| format!("write_all: {}", err_kind(&e)))?;
        let s = fs.read_all("/__probe/d/f").map_err(|e| format!("read_all: {}", err_kind(&e)))?;
        if s != "probe-data" {
            return Err("read_all returned other bytes".into());
        }
        fs.remove_all("/__probe").map_err(|e| format!("remove_all: {}", err_kind(&e)))?;
        if fs.exists("/__probe") {
            return Err("scratch path still exists after remove_all".into());
        }
        Ok(())
    }) {
        Ok(r) => r,
        Err(m) => Err(format!("panic: {}", m)),
    }
}

impl Ctx {
    fn mine(&mut self) -> bool {
        self.item += 1;
        (self.item - 1) % self.workers == self.worker
    }
    /// progress slot = "<id>\t<fn>\t<variant>\t<inputs as an ASCII JSON array>"; inputs that do not fit into the slot go to
    /// the side file <out>.inflight ("@FILE" in the slot) so that the supervisor can always name the in-flight call
    fn mark(&mut self, f: &str, v: &str, ins: &[&str]) {
        self.id += 1;
        let mut js = to_ascii_json(&json!(ins));
        if js.len() > 1300 {
            let _ = std::fs::write(&self.inflight, js.as_bytes());
            js = "@FILE".to_string();
        }
        let d = format!("{}\t{}\t{}", f, v, js);
        self.prog.mark(self.id, &d);
    }
    /// listed hang / runaway classes are exercised on one representative by the orchestrator and skipped here
    fn skip(&mut self, f: &str, ins: &[&str]) -> bool {
        for (sf, when) in &self.skip_hang {
            if sf == f && hang_class(when, ins) {
                self.skipped += 1;
                return true;
            }
        }
        false
    }
    /// the instance for the next call; rebuilt when the previous call changed it or failed
    fn fs(&mut self) -> &Memfs {
        if self.fs.is_none() {
            self.fs = Some(fixture());
            self.fresh = true;
            self.rebuilds += 1;
        }
        self.fs.as_ref().unwrap()
    }
    fn dirty(&mut self) {
        self.fs = None;
    }

    /// a call on the Memfs instance has returned: poison check, probe, record
    fn post_fs(&mut self, f: &str, v: &str, cls: &str, o: O, e: &str, ins: &[&str], mutator: bool) {
        let nw = self.fresh;
        self.fresh = false;
        let (poisoned, pr) = {
            let fs = self.fs.as_ref().unwrap();
            let p = is_poisoned(fs);
            let pr = if o != O::Ok { Some(probe(fs)) } else { None };
            (p, pr)
        };
        let wedge = poisoned || matches!(pr, Some(Err(_)));
        self.emit(f, v, cls, o, e, ins, pr.as_ref(), poisoned, if nw { "t" } else { "f" }, None);
        if wedge {
            // wedged forever?  one more call on the same instance
            let fs = self.fs.as_ref().unwrap();
            let r = guard(|| fs.cwd().map(|_| ()));
            let (o2, e2) = match r {
                Ok(Ok(())) => (O::Ok, String::new()),
                Ok(Err(e)) => (O::Err, err_kind(&e)),
                Err(m) => (O::Panic, m),
            };
            let p2 = is_poisoned(fs);
            let pr2 = if o2 != O::Ok { Some(probe(fs)) } else { None };
            self.emit("cwd", &format!("after-wedge-by:{}", f), cls, o2, &e2, ins, pr2.as_ref(), p2, "f", None);
        }
        if mutator || o != O::Ok || wedge {
            self.dirty();
        }
    }

    /// a pure call has returned
    fn post_pure(&mut self, f: &str, v: &str, cls: &str, o: O, e: &str, ins: &[&str], x: Option<&str>) {
        // plain ok outcomes of pure calls are counted, not logged one by one (unless the validator is asked to compare
        // the outcome with the PathLex expectation)
        let keep = self.individual;
        if o == O::Ok && x.is_none() {
            self.individual = false;
        }
        self.emit(f, v, cls, o, e, ins, None, false, "p", x);
        self.individual = keep;
    }

    #[allow(clippy::too_many_arguments)]
    fn emit(&mut self, f: &str, v: &str, cls: &str, o: O, e: &str, ins: &[&str], pr: Option<&Result<(), String>>, poisoned: bool, nw: &'static str, x: Option<&str>) {
        self.calls += 1;
        self.counts[o as usize] += 1;
        let probe_s = match pr {
            None => "-",
            Some(Ok(())) => "ok",
            Some(Err(_)) => "fail",
        };
        let bad = o == O::Panic || o == O::Timeout || probe_s == "fail" || poisoned;
        if self.verbose {
            eprintln!("{} [{}] {:?} -> {} {} probe={} {:?} poisoned={}", f, v, ins, o.s(), e, probe_s, pr, poisoned);
        }
        if !bad && !self.individual && x.is_none() {
            *self.agg.entry((f.to_string(), cls.to_string(), o.s(), if nw == "p" { "p" } else { "t" })).or_insert(0) += 1;
            return;
        }
        let mut r = Map::new();
        r.insert("k".into(), json!("t"));
        r.insert("fn".into(), json!(f));
        r.insert("v".into(), json!(v));
        r.insert("in".into(), json!(cls));
        r.insert("o".into(), json!(o.s()));
        r.insert("probe".into(), json!(probe_s));
        r.insert("poisoned".into(), json!(if poisoned { "t" } else { "f" }));
        r.insert("nw".into(), json!(nw));
        if let Some(xs) = x {
            r.insert("x".into(), chars(xs));
        }
        if bad {
            self.bad += 1;
            r.insert("a".into(), chars(ins.first().copied().unwrap_or("")));
            r.insert("b".into(), chars(ins.get(1).copied().unwrap_or("")));
            r.insert("e".into(), json!(e.chars().take(200).collect::<String>()));
            if let Some(Err(why)) = pr {
                r.insert("pe".into(), json!(why.chars().take(200).collect::<String>()));
            }
        } else if o != O::Ok {
            r.insert("e".into(), json!(e));
            if ins.iter().map(|s| s.len()).sum::<usize>() <= 16 {
                r.insert("a".into(), chars(ins.first().copied().unwrap_or("")));
                r.insert("b".into(), chars(ins.get(1).copied().unwrap_or("")));
            }
        }
        self.out.rec(&Value::Object(r));
    }

    // ---------------------------------------------------------------- Memfs through the shared call alphabet
    fn vfs(&mut self, v: &str, c: &Value, ins: &[&str], cls: &str, mutator: bool) {
        let f = c["op"].as_str().unwrap_or("?").to_string();
        if !self.skip_hang.is_empty() {
            let args = [s_of(&c["a"]), s_of(&c["b"])];
            if self.skip(&f, &[args[0].as_str(), args[1].as_str()]) {
                return;
            }
        }
        self.mark(&f, v, ins);
        self.fs();
        let r = ops::apply(self.fs.as_ref().unwrap(), c);
        let k = r["o"].as_str().unwrap_or("?").to_string();
        let (o, e) = match k.as_str() {
            "ok" => (O::Ok, String::new()),
            "panic" => (O::Panic, r["m"].as_str().unwrap_or("").to_string()),
            _ => (O::Err, k.clone()),
        };
        self.post_fs(&f, v, cls, o, &e, ins, mutator);
    }

    /// any other closure on the instance: Ok(true) = ok, Ok(false)/Err = err
    fn vfs_with<F: FnOnce(&Memfs) -> Result<(), String>>(&mut self, f: &str, v: &str, ins: &[&str], cls: &str, mutator: bool, body: F) {
        self.mark(f, v, ins);
        self.fs();
        let fs = self.fs.as_ref().unwrap();
        let (o, e) = match guard(|| body(fs)) {
            Ok(Ok(())) => (O::Ok, String::new()),
            Ok(Err(e)) if e.starts_with("TIMEOUT") => (O::Timeout, e),
            Ok(Err(e)) => (O::Err, e),
            Err(m) => (O::Panic, m),
        };
        self.post_fs(f, v, cls, o, &e, ins, mutator);
    }

    fn pure<F: FnOnce() -> Result<(), String>>(&mut self, f: &str, v: &str, ins: &[&str], cls: &str, x: Option<&str>, body: F) {
        self.mark(f, v, ins);
        let (o, e) = match guard(body) {
            Ok(Ok(())) => (O::Ok, String::new()),
            Ok(Err(e)) if e.starts_with("TIMEOUT") => (O::Timeout, e),
            Ok(Err(e)) => (O::Err, e),
            Err(m) => (O::Panic, m),
        };
        self.post_pure(f, v, cls, o, &e, ins, x);
    }
}

fn rk<T>(r: RvResult<T>) -> Result<(), String> {
    r.map(|_| ()).map_err(|e| err_kind(&e))
}
fn iok<T>(r: std::io::Result<T>) -> Result<(), String> {
    r.map(|_| ()).map_err(|e| format!("Io::{:?}", e.kind()))
}
fn always<T>(_: T) -> Result<(), String> {
    Ok(())
}

// ------------------------------------------------------------------------------------------------ Memfs, one path
const QUERIES: [&str; 26] = [
    "abs", "exists", "is_dir", "is_file", "is_symlink", "is_symlink_dir", "is_symlink_file", "is_exec", "is_readonly", "mode", "uid", "gid", "owner", "read_all",
    "read_lines", "read", "readlink", "readlink_abs", "paths", "dirs", "files", "all_paths", "all_dirs", "all_files", "entry", "cwd",
];

#[derive(Clone, Copy)]
enum ROp {
    Read(usize),
    Start(u64),
    Cur(i64),
    End(i64),
}
fn read_scripts() -> Vec<(&'static str, Vec<ROp>)> {
    use ROp::*;
    vec![
        ("end+3,read", vec![End(3), Read(4)]),
        ("cur-1", vec![Cur(-1), Read(1)]),
        ("start-max,read,cur+1,cur+max", vec![Start(u64::MAX), Read(1), Cur(1), Cur(i64::MAX)]),
        ("end-min,read", vec![End(i64::MIN), Read(2)]),
        ("end+max,read,cur+max", vec![End(i64::MAX), Read(1), Cur(i64::MAX)]),
        ("reads,cur-min,read", vec![Read(0), Read(3), Read(100), Read(1), Cur(i64::MIN), Read(1)]),
        ("start2,end-2,cur-4,read", vec![Start(2), End(-2), Cur(-4), Read(2)]),
        ("start-2^40,read,end-1,read", vec![Start(1 << 40), Read(8), End(-1), Read(8)]),
        ("start-2^63,cur+2^62 x3", vec![Start(1 << 63), Cur(1 << 62), Cur(1 << 62), Cur(1 << 62), Read(1)]),
    ]
}

fn entries_variants() -> Vec<&'static str> {
    vec![
        "", "dirs", "files", "dirs,files", "follow", "follow,max3", "min1", "max0", "min2,max1", "minmax,maxmax", "dirs_first,sort", "files_first,sort", "contents_first",
        "contents_first,files,min1", "contents_first,dirs_first,follow,max2", "filter,sortrev", "preop-err", "preop-panic", "sort-panic", "filter-panic,follow",
    ]
}

fn run_entries(fs: &Memfs, p: &str, variant: &str) -> Result<(), String> {
    let mut es = fs.entries(p).map_err(|e| err_kind(&e))?;
    let mut filter = false;
    let mut filter_panic = false;
    for o in variant.split(',') {
        es = match o {
            "dirs" => es.dirs(),
            "files" => es.files(),
            "follow" => es.follow(true),
            "min1" => es.min_depth(1),
            "min2" => es.min_depth(2),
            "minmax" => es.min_depth(usize::MAX),
            "max0" => es.max_depth(0),
            "max1" => es.max_depth(1),
            "max2" => es.max_depth(2),
            "max3" => es.max_depth(3),
            "maxmax" => es.max_depth(usize::MAX),
            "dirs_first" => es.dirs_first(),
            "files_first" => es.files_first(),
            "contents_first" => es.contents_first(),
            "sort" => es.sort_by_name(),
            "sortrev" => es.sort(|a, b| b.path().cmp(a.path())),
            "preop-err" => es.pre_op(|e| if e.is_file() { Err(PathError::does_not_exist(e.path()).into()) } else { Ok(()) }),
            // a panicking CALLER closure: the panic is the caller's own (caught below, reported as an error), but the
            // instance must stay usable afterwards - the probe tells
            "preop-panic" => es.pre_op(|e| if e.is_file() { panic!("{}", USER_PANIC) } else { Ok(()) }),
            "sort-panic" => es.sort(|_, _| panic!("{}", USER_PANIC)),
            "filter-panic" => {
                filter_panic = true;
                es
            },
            "filter" => {
                filter = true;
                es
            },
            _ => es,
        };
    }
    let user = guard(move || -> Result<(), String> {
        let mut it = es.into_iter();
        if filter {
            it = it.filter_p(|e| !e.is_symlink());
        }
        if filter_panic {
            it = it.filter_p(|e| if e.is_file() { panic!("{}", USER_PANIC) } else { true });
        }
        let mut n = 0usize;
        let mut errs = 0usize;
        for e in it {
            n += 1;
            match e {
                Ok(e) => {
                    let _ = (e.path().len(), e.alt().len(), e.rel().len(), e.is_dir(), e.is_file(), e.is_symlink(), e.mode(), e.following());
                },
                Err(_) => errs += 1,
            }
            if n > ITER_CAP {
                return Err(format!("TIMEOUT: more than {} items yielded", ITER_CAP));
            }
        }
        if errs > 0 {
            Err(format!("{} error items of {}", errs, n))
        } else {
            Ok(())
        }
    });
    match user {
        Ok(r) => r,
        Err(m) if m == USER_PANIC => Err("caller closure panicked".into()),
        Err(m) => panic!("{}", m),
    }
}
const USER_PANIC: &str = "totality: panic raised by the caller's own closure";
trait PLen {
    fn len(&self) -> usize;
}
impl PLen for Path {
    fn len(&self) -> usize {
        self.as_os_str().len()
    }
}

fn run_read_script(fs: &Memfs, p: &str, ops: &[ROp]) -> Result<(), String> {
    let mut h = fs.read(p).map_err(|e| err_kind(&e))?;
    let mut buf = vec![0u8; 128];
    let mut errs = vec![];
    for (i, op) in ops.iter().enumerate() {
        let r = match *op {
            ROp::Read(n) => h.read(&mut buf[..n]).map(|k| k as u64).and_then(|k| {
                if k as usize > n {
                    Err(std::io::Error::new(std::io::ErrorKind::Other, "read count exceeds buffer"))
                } else {
                    Ok(k)
                }
            }),
            ROp::Start(n) => h.seek(SeekFrom::Start(n)),
            ROp::Cur(n) => h.seek(SeekFrom::Current(n)),
            ROp::End(n) => h.seek(SeekFrom::End(n)),
        };
        if let Err(e) = r {
            errs.push(format!("step{}:Io::{:?}", i, e.kind()));
        }
    }
    drop(h);
    if errs.is_empty() {
        Ok(())
    } else {
        Err(errs.join(","))
    }
}

fn run_write_handle(fs: &Memfs, append: bool, p: &str, datas: &[&[u8]], orphan: &str) -> Result<(), String> {
    let mut h = if append { fs.append(p) } else { fs.write(p) }.map_err(|e| err_kind(&e))?;
    let mut errs = vec![];
    for (i, d) in datas.iter().enumerate() {
        if let Err(e) = h.write(d) {
            errs.push(format!("write{}:Io::{:?}", i, e.kind()));
        }
        if i == 0 {
            // pull the rug: the file / its parent disappears or changes kind while the handle is open
            match orphan {
                "remove-file" => {
                    let _ = fs.remove(p);
                },
                "remove-parent" => {
                    let _ = fs.remove_all("/a");
                },
                "file-becomes-dir" => {
                    let _ = fs.remove(p);
                    let _ = fs.mkdir_p(p);
                },
                "remove-root" => {
                    let _ = fs.remove_all("/");
                },
                _ => {},
            }
        }
        if let Err(e) = h.flush() {
            errs.push(format!("flush{}:Io::{:?}", i, e.kind()));
        }
    }
    drop(h);
    if errs.is_empty() {
        Ok(())
    } else {
        Err(errs.join(","))
    }
}

/// level 0 = every method with every variant, 1 = every method once (extended layers)
fn vfs_single(c: &mut Ctx, s: &str, level: u8, big: &[u8]) {
    let cls = class_of(s);
    let ins = [s];
    // ---- queries: the instance is kept
    for q in QUERIES {
        c.vfs("", &call(q, s, ""), &ins, &cls, false);
    }
    c.vfs_with("root", "", &ins, &cls, false, |fs| always(fs.root()));
    c.vfs_with("config_dir", "", &ins, &cls, false, |fs| always(fs.config_dir(s)));
    c.vfs_with("entries", "", &ins, &cls, false, |fs| run_entries(fs, s, ""));
    c.vfs_with("read", "end+3,read", &ins, &cls, false, |fs| run_read_script(fs, s, &[ROp::End(3), ROp::Read(4), ROp::Cur(-9), ROp::Read(1)]));
    // ---- mutators: a fresh instance after each
    for op in ["mkfile", "mkdir_p", "remove", "remove_all", "set_cwd"] {
        c.vfs("", &call(op, s, ""), &ins, &cls, true);
    }
    c.vfs("", &call_d("write_all", s, b"da\xffta"), &ins, &cls, true);
    c.vfs("", &call_d("append_all", s, b"\xfe\n"), &ins, &cls, true);
    c.vfs("", &call_ls("write_lines", s, &["l1", "\u{e9}"]), &ins, &cls, true);
    c.vfs("", &call_ls("append_lines", s, &["l1", ""]), &ins, &cls, true);
    c.vfs("", &call_ls("append_line", s, &["line"]), &ins, &cls, true);
    c.vfs("", &call_m("mkfile_m", s, 0o7777, 0), &ins, &cls, true);
    c.vfs("", &call_m("mkdir_m", s, 0, 0), &ins, &cls, true);
    c.vfs("", &call_m("chmod", s, 0, 0), &ins, &cls, true);
    c.vfs("", &call_m("chown", s, 0x7fff_ffff, 0), &ins, &cls, true);
    c.vfs("all,recurse", &call_b("chmod_b", s, "", 0o7777, 0, "", "ar"), &ins, &cls, true);
    c.vfs("sym,follow", &call_b("chmod_b", s, "", 0, 0, "f:a-r,d:o=", "sFr"), &ins, &cls, true);
    c.vfs("owner,recurse,follow", &call_b("chown_b", s, "", 5, 0x7fff_ffff, "", "orF"), &ins, &cls, true);
    c.vfs_with("write", "handle", &ins, &cls, true, |fs| run_write_handle(fs, false, s, &[b"ab\xff", b""], ""));
    c.vfs_with("append", "handle", &ins, &cls, true, |fs| run_write_handle(fs, true, s, &[b"", b"\x00z"], ""));
    // the two-path methods with one fixed side
    c.vfs("(s,/new)", &call("move_p", s, "/new"), &ins, &cls, true);
    c.vfs("(/a,s)", &call("move_p", "/a", s), &ins, &cls, true);
    c.vfs("(s,/new)", &call("copy", s, "/new"), &ins, &cls, true);
    c.vfs("(/a,s)", &call("copy", "/a", s), &ins, &cls, true);
    c.vfs("(s,/a)", &call("symlink", s, "/a"), &ins, &cls, true);
    c.vfs("(/new,s)", &call("symlink", "/new", s), &ins, &cls, true);
    c.vfs("(s,/a/new),all,follow", &call_b("copy_b", s, "/a/new", 0, 0, "", "aF"), &ins, &cls, true);
    c.vfs_with("upcast", "", &ins, &cls, true, |_| {
        let v = fixture().upcast();
        let _ = v.exists(s);
        rk(v.abs(s))
    });
    if level > 0 {
        return;
    }
    // ---- every variant
    for v in entries_variants().into_iter().skip(1) {
        c.vfs_with("entries", v, &ins, &cls, false, |fs| run_entries(fs, s, v));
    }
    for (name, sc) in read_scripts() {
        c.vfs_with("read", name, &ins, &cls, false, |fs| run_read_script(fs, s, &sc));
    }
    for m in MODES {
        let v = format!("{:o}", m);
        c.vfs(&v, &call_m("mkfile_m", s, m, 0), &ins, &cls, true);
        c.vfs(&v, &call_m("mkdir_m", s, m, 0), &ins, &cls, true);
        c.vfs(&v, &call_m("chmod", s, m, 0), &ins, &cls, true);
        c.vfs(&format!("all={}", v), &call_b("chmod_b", s, "", m, 0, "", "a"), &ins, &cls, true);
        c.vfs(&format!("dirs={},files,recurse,follow", v), &call_b("chmod_b", s, "", m, m ^ 0o777, "", "dfrF"), &ins, &cls, true);
        c.vfs(&format!("(s,/a/new),dirs,files={}", v), &call_b("copy_b", s, "/a/new", m, 0, "", "df"), &ins, &cls, true);
    }
    for (i, u) in IDS.iter().enumerate() {
        let g = IDS[(i + 1) % IDS.len()];
        let v = format!("{}:{}", u, g);
        c.vfs(&v, &call_m("chown", s, *u, g), &ins, &cls, true);
        c.vfs(&format!("uid,{}", v), &call_b("chown_b", s, "", *u, g, "", "u"), &ins, &cls, true);
        c.vfs(&format!("gid,no-recurse,{}", v), &call_b("chown_b", s, "", *u, g, "", "gR"), &ins, &cls, true);
    }
    c.vfs("nothing-set", &call_b("chown_b", s, "", 0, 0, "", ""), &ins, &cls, true);
    c.vfs("nothing-set", &call_b("chmod_b", s, "", 0, 0, "", ""), &ins, &cls, true);
    c.vfs("readonly,no-recurse", &call_b("chmod_b", s, "", 0, 0, "", "oR"), &ins, &cls, true);
    c.vfs("secure,recurse", &call_b("chmod_b", s, "", 0, 0, "", "Sr"), &ins, &cls, true);
    for sym in ["", "a+x", "f:a+", "zzz", "0777", "u=rwx,g=,o=", "\u{e9}", "a+\u{e9}", "::", "d:", ",", "+", "=", "d:u+x,f:g-w,", "a=rwxrwx", "777777777777777777777"] {
        c.vfs(&format!("sym={}", sym), &call_b("chmod_b", s, "", 0, 0, sym, "s"), &ins, &cls, true);
    }
    c.vfs("empty", &call_d("write_all", s, b""), &ins, &cls, true);
    c.vfs("empty", &call_d("append_all", s, b""), &ins, &cls, true);
    c.vfs("utf8", &call_d("write_all", s, "\u{65e5}\n\n\r\n".as_bytes()), &ins, &cls, true);
    c.vfs("no-lines", &call_ls("write_lines", s, &[]), &ins, &cls, true);
    c.vfs("no-lines", &call_ls("append_lines", s, &[]), &ins, &cls, true);
    c.vfs("newlines-inside", &call_ls("write_lines", s, &["a\nb", "\r", ""]), &ins, &cls, true);
    c.vfs("empty-line", &call_ls("append_line", s, &[""]), &ins, &cls, true);
    // written invalid UTF-8 / 64 KiB, then read back through every reader
    for (v, d) in [("invalid-utf8", &b"\xff\xfe\x00\xc3"[..]), ("64KiB", big)] {
        c.vfs_with("write_all+readers", v, &ins, &cls, true, |fs| {
            rk(fs.write_all(s, d))?;
            let _ = fs.read_all(s);
            let _ = fs.read_lines(s);
            let _ = fs.append_line(s, "x");
            let _ = fs.append_all(s, d);
            let mut h = fs.read(s).map_err(|e| err_kind(&e))?;
            let mut b = vec![];
            iok(h.read_to_end(&mut b))?;
            if b.len() != 2 * d.len() + 2 {
                return Err(format!("read back {} bytes of {}", b.len(), 2 * d.len() + 2));
            }
            Ok(())
        });
    }
    for orphan in ["remove-file", "remove-parent", "file-becomes-dir", "remove-root"] {
        c.vfs_with("write", &format!("handle,{}", orphan), &ins, &cls, true, |fs| run_write_handle(fs, false, s, &[b"abc", b"def"], orphan));
        c.vfs_with("append", &format!("handle,{}", orphan), &ins, &cls, true, |fs| run_write_handle(fs, true, s, &[b"abc", b"def"], orphan));
    }
    // relative to another working directory, and after the root was emptied
    for cwd in ["/a/b", "/\u{e9}", "/a/b/up/b"] {
        c.vfs_with("set_cwd+calls", cwd, &ins, &cls, true, |fs| {
            rk(fs.set_cwd(cwd))?;
            let _ = fs.abs(s);
            let _ = fs.exists(s);
            let _ = fs.all_paths(s);
            let _ = fs.mkdir_p(s);
            let _ = fs.set_cwd(s);
            rk(fs.cwd())
        });
    }
    c.vfs_with("remove_all(/)+calls", "", &ins, &cls, true, |fs| {
        let _ = fs.remove_all("/");
        let _ = fs.abs(s);
        let _ = fs.paths(s);
        let _ = fs.mkfile(s);
        let _ = fs.write_all(s, b"x");
        rk(fs.mkdir_p(s))
    });
}

// ------------------------------------------------------------------------------------------------ Memfs, two paths
fn vfs_pair(c: &mut Ctx, a: &str, b: &str, level: u8) {
    let cls = class2(a, b);
    let ins = [a, b];
    c.vfs("", &call("move_p", a, b), &ins, &cls, true);
    c.vfs("", &call("copy", a, b), &ins, &cls, true);
    c.vfs("", &call("symlink", a, b), &ins, &cls, true);
    c.vfs("plain", &call_b("copy_b", a, b, 0, 0, "", ""), &ins, &cls, true);
    if level > 0 {
        return;
    }
    c.vfs("follow,all=0", &call_b("copy_b", a, b, 0, 0, "", "Fa"), &ins, &cls, true);
    c.vfs_with("symlink+readers", "", &ins, &cls, true, |fs| {
        rk(fs.symlink(a, b))?;
        let _ = fs.readlink(a);
        let _ = fs.readlink_abs(a);
        let _ = fs.is_symlink_dir(a);
        let _ = fs.is_symlink_file(a);
        let _ = fs.read_all(a);
        let _ = fs.all_paths(a);
        let _ = fs.entry(a).map(|e| e.follow(true));
        let _ = fs.copy(a, "/cp");
        let _ = fs.move_p(a, "/mv");
        rk(fs.remove_all(a))
    });
}

// ------------------------------------------------------------------------------------------------ pure helpers
fn pure_single(c: &mut Ctx, s: &str, expect: bool) {
    let cls = class_of(s);
    let ins = [s];
    let p = PathBuf::from(s);
    let x = if expect { Some(s) } else { None };
    // free functions
    c.pure("sys::clean", "", &ins, &cls, x, || always(sys::clean(&p)));
    c.pure("sys::base", "", &ins, &cls, x, || rk(sys::base(&p)));
    c.pure("sys::dir", "", &ins, &cls, x, || rk(sys::dir(&p)));
    c.pure("sys::expand", "", &ins, &cls, None, || rk(sys::expand(&p)));
    c.pure("sys::ext", "", &ins, &cls, x, || rk(sys::ext(&p)));
    c.pure("sys::first", "", &ins, &cls, x, || rk(sys::first(&p)));
    c.pure("sys::last", "", &ins, &cls, x, || rk(sys::last(&p)));
    c.pure("sys::name", "", &ins, &cls, x, || rk(sys::name(&p)));
    c.pure("sys::is_empty", "", &ins, &cls, x, || always(sys::is_empty(&p)));
    c.pure("sys::parse_paths", "", &ins, &cls, x, || rk(sys::parse_paths(s)));
    c.pure("sys::trim_ext", "", &ins, &cls, x, || rk(sys::trim_ext(&p)));
    c.pure("sys::trim_first", "", &ins, &cls, x, || always(sys::trim_first(&p)));
    c.pure("sys::trim_last", "", &ins, &cls, x, || always(sys::trim_last(&p)));
    c.pure("sys::trim_protocol", "", &ins, &cls, x, || always(sys::trim_protocol(&p)));
    // PathExt
    c.pure("PathExt::clean", "", &ins, &cls, x, || always(p.clean()));
    c.pure("PathExt::base", "", &ins, &cls, x, || rk(p.base()));
    c.pure("PathExt::dir", "", &ins, &cls, x, || rk(p.dir()));
    c.pure("PathExt::expand", "", &ins, &cls, None, || rk(p.expand()));
    c.pure("PathExt::ext", "", &ins, &cls, x, || rk(p.ext()));
    c.pure("PathExt::first", "", &ins, &cls, x, || rk(p.first()));
    c.pure("PathExt::last", "", &ins, &cls, x, || rk(p.last()));
    c.pure("PathExt::name", "", &ins, &cls, x, || rk(p.name()));
    c.pure("PathExt::is_empty", "", &ins, &cls, x, || always(PathExt::is_empty(p.as_path())));
    c.pure("PathExt::trim_ext", "", &ins, &cls, x, || rk(p.trim_ext()));
    c.pure("PathExt::trim_first", "", &ins, &cls, x, || always(p.trim_first()));
    c.pure("PathExt::trim_last", "", &ins, &cls, x, || always(p.trim_last()));
    c.pure("PathExt::trim_protocol", "", &ins, &cls, x, || always(p.trim_protocol()));
    // string extensions (str and String) and ToStringExt
    c.pure("StringExt::size", "str", &ins, &cls, None, || always(s.size()));
    c.pure("StringExt::size", "String", &ins, &cls, None, || always(s.to_string().size()));
    c.pure("StringExt::to_bool", "str", &ins, &cls, None, || always(s.to_bool()));
    c.pure("StringExt::to_bool", "String", &ins, &cls, None, || always(s.to_string().to_bool()));
    c.pure("ToStringExt::to_string", "Path", &ins, &cls, None, || rk(ToStringExt::to_string(p.as_path())));
    c.pure("ToStringExt::to_string", "OsStr", &ins, &cls, None, || rk(ToStringExt::to_string(p.as_os_str())));
    c.pure("ToStringExt::to_string", "Component", &ins, &cls, None, || {
        for comp in p.components() {
            rk(ToStringExt::to_string(&comp))?;
        }
        Ok(())
    });
    c.pure("OptionExt::has", "", &ins, &cls, None, || always((Some(s.to_string()).has(s), None::<String>.has(s))));
    // iterator extensions over the characters and the components of the input
    for n in -3isize..=3 {
        c.pure("IteratorExt::drop", &format!("chars,{}", n), &ins, &cls, None, || always(s.chars().drop(n).count()));
        c.pure("IteratorExt::drop", &format!("components,{}", n), &ins, &cls, None, || always(p.components().drop(n).count()));
        for r in -3isize..=3 {
            c.pure("IteratorExt::slice", &format!("chars,{},{}", n, r), &ins, &cls, None, || always(s.chars().slice(n, r).count()));
        }
        c.pure("IteratorExt::slice", &format!("components,{},{}", n, -n), &ins, &cls, None, || always(p.components().slice(n, -n).count()));
    }
    c.pure("IteratorExt::first", "chars", &ins, &cls, None, || always(s.chars().first()));
    c.pure("IteratorExt::first_result", "chars", &ins, &cls, None, || rk(s.chars().first_result()));
    c.pure("IteratorExt::last_result", "chars", &ins, &cls, None, || rk(s.chars().last_result()));
    c.pure("IteratorExt::single", "chars", &ins, &cls, None, || rk(s.chars().single()));
    c.pure("IteratorExt::some", "chars", &ins, &cls, None, || always(s.chars().some()));
    c.pure("IteratorExt::consume", "chars", &ins, &cls, None, || always(s.chars().consume().next()));
    c.pure("IteratorExt::single", "components", &ins, &cls, None, || rk(p.components().single()));
    c.pure("PeekableExt::take_while_p", "chars", &ins, &cls, None, || {
        let mut it = s.chars().peekable();
        let n = it.take_while_p(|ch| *ch != '/').count();
        always((n, it.next()))
    });
}

fn pure_pair(c: &mut Ctx, a: &str, b: &str) {
    let cls = class2(a, b);
    let ins = [a, b];
    let p = PathBuf::from(a);
    let q = PathBuf::from(b);
    c.pure("sys::mash", "", &ins, &cls, None, || always(sys::mash(&p, &q)));
    c.pure("sys::trim_prefix", "", &ins, &cls, None, || always(sys::trim_prefix(&p, &q)));
    c.pure("sys::trim_suffix", "", &ins, &cls, None, || always(sys::trim_suffix(&p, &q)));
    c.pure("sys::has", "", &ins, &cls, None, || always(sys::has(&p, &q)));
    c.pure("sys::has_prefix", "", &ins, &cls, None, || always(sys::has_prefix(&p, &q)));
    c.pure("sys::has_suffix", "", &ins, &cls, None, || always(sys::has_suffix(&p, &q)));
    c.pure("sys::concat", "", &ins, &cls, None, || rk(sys::concat(&p, b)));
    c.pure("sys::relative", "", &ins, &cls, None, || rk(sys::relative(&p, &q)));
    c.pure("PathExt::mash", "", &ins, &cls, None, || always(p.mash(&q)));
    c.pure("PathExt::trim_prefix", "", &ins, &cls, None, || always(p.trim_prefix(&q)));
    c.pure("PathExt::trim_suffix", "", &ins, &cls, None, || always(p.trim_suffix(&q)));
    c.pure("PathExt::has", "", &ins, &cls, None, || always(p.has(&q)));
    c.pure("PathExt::has_prefix", "", &ins, &cls, None, || always(p.has_prefix(&q)));
    c.pure("PathExt::has_suffix", "", &ins, &cls, None, || always(p.has_suffix(&q)));
    c.pure("PathExt::concat", "", &ins, &cls, None, || rk(p.concat(b)));
    c.pure("PathExt::relative", "", &ins, &cls, None, || rk(p.relative(&q)));
    c.pure("StringExt::trim_suffix", "str", &ins, &cls, None, || always(StringExt::trim_suffix(a, b)));
    c.pure("StringExt::trim_suffix", "String", &ins, &cls, None, || always(a.to_string().trim_suffix(b.to_string())));
    c.pure("OptionExt::has", "pair", &ins, &cls, None, || always(Some(a).has(b)));
}

/// input-independent corners: iterator extensions on ranges / vectors with every index in -3..=3 (+ extremes)
fn misc(c: &mut Ctx) {
    let idx: Vec<isize> = vec![-3, -2, -1, 0, 1, 2, 3, isize::MIN, isize::MAX, isize::MIN + 1, -(1 << 62), 1 << 62];
    for len in 0..=4i32 {
        for &l in &idx {
            if !c.mine() {
                continue;
            }
            let ls = format!("len={},{}", len, l);
            let ins = [ls.as_str()];
            c.pure("IteratorExt::drop", "range", &ins, "ints", None, || always((0..len).drop(l).count()));
            c.pure("IteratorExt::drop", "vec", &ins, "ints", None, || always((0..len).collect::<Vec<_>>().into_iter().drop(l).count()));
            for &r in &idx {
                let v = format!("range,{}", r);
                c.pure("IteratorExt::slice", &v, &ins, "ints", None, || always((0..len).slice(l, r).count()));
                let v = format!("vec,{}", r);
                c.pure("IteratorExt::slice", &v, &ins, "ints", None, || always((0..len).collect::<Vec<_>>().into_iter().slice(l, r).count()));
            }
        }
        if c.mine() {
            let ls = format!("len={}", len);
            let ins = [ls.as_str()];
            c.pure("IteratorExt::first", "range", &ins, "ints", None, || always((0..len).first()));
            c.pure("IteratorExt::first_result", "range", &ins, "ints", None, || rk((0..len).first_result()));
            c.pure("IteratorExt::last_result", "range", &ins, "ints", None, || rk((0..len).last_result()));
            c.pure("IteratorExt::single", "range", &ins, "ints", None, || rk((0..len).single()));
            c.pure("IteratorExt::some", "range", &ins, "ints", None, || always((0..len).some()));
            c.pure("IteratorExt::consume", "range", &ins, "ints", None, || always((0..len).consume().next()));
            c.pure("OptionExt::has", "ints", &ins, "ints", None, || always((Some(len).has(0), None::<i32>.has(len))));
        }
    }
    // the symbolic mode grammar: every string <= 3 over its own alphabet, on a file, a directory and a link
    let malpha = ["a", "u", "g", "o", "+", "-", "=", "r", "w", "x", ",", ":", "d", "f", "7", "\u{e9}", " "];
    for sym in all_strings(&malpha, 3) {
        if !c.mine() {
            continue;
        }
        for target in ["/a/a", "/a", "/\u{e9}"] {
            let ins = [target, sym.as_str()];
            let cls = format!("plain|{}", if sym.is_ascii() { "mode" } else { "mode+mb" });
            c.vfs("sym,recurse", &call_b("chmod_b", target, "", 0, 0, &sym, "sr"), &ins, &cls, true);
        }
    }
    // the home directory under odd HOME values (restored afterwards; the worker is single threaded)
    if c.mine() {
        let longhome = "/x".repeat(3000);
        for (tag, home) in [("unset", None), ("empty", Some("")), ("tilde", Some("~")), ("relative-mb", Some("\u{e9}/\u{65e5}")), ("var", Some("$HOME")), ("long", Some(longhome.as_str()))] {
            match home {
                Some(h) => std::env::set_var("HOME", h),
                None => std::env::remove_var("HOME"),
            }
            let hs = home.unwrap_or("<unset>");
            let ins = [hs];
            let cls = class_of(hs);
            c.pure("sys::home_dir", tag, &ins, &cls, None, || rk(sys::home_dir()));
            c.pure("sys::expand", &format!("HOME {}", tag), &ins, &cls, None, || rk(sys::expand("~/a")));
            c.vfs_with("abs", &format!("HOME {}", tag), &ins, &cls, false, |fs| rk(fs.abs("~/a")));
            c.vfs_with("mkdir_p", &format!("HOME {}", tag), &ins, &cls, true, |fs| rk(fs.mkdir_p("~")));
            std::env::set_var("HOME", "/a");
        }
    }
    // calls without arguments on unusual working directories / roots
    if c.mine() {
        for cwd in ["/", "/a/b", "/\u{e9}", "/a/b/up/b/up", "/a/.a"] {
            let ins = [cwd];
            c.vfs_with("cwd", "after set_cwd", &ins, &class_of(cwd), true, |fs| {
                rk(fs.set_cwd(cwd))?;
                let _ = fs.root();
                let _ = fs.remove_all(cwd);
                let _ = fs.abs(".");
                let _ = fs.mkdir_p("x");
                let _ = format!("{}", fs).len();
                rk(fs.cwd())
            });
        }
    }
}

// ------------------------------------------------------------------------------------------------ main
fn rand_string(rng: &mut StdRng, maxlen: usize) -> String {
    let wide = [
        "/", "/", ".", "..", "~", "$", "${", "}", ":", "\u{e9}", "\u{65e5}", "\u{1d11e}", "a", "b", "\u{301}", " ", "\t", "//", "../", "./", "file://", "a.a", "$a", "${a}", "HOME",
        "\u{1}", "\u{7f}", "\u{fffd}",
    ];
    let n = rng.gen_range(0..=maxlen);
    (0..n).map(|_| wide[rng.gen_range(0..wide.len())]).collect()
}

fn main() {
    silence_panics();
    limit_memory(2 << 30);
    // the environment the path expansion sees: ~ -> /a (a directory of the fixture), $a -> a, ${HOME}
    std::env::set_var("HOME", "/a");
    std::env::set_var("a", "a");
    std::env::set_var("\u{e9}", "/\u{65e5}");
    std::env::remove_var("NOPE");
    std::env::remove_var("XDG_CONFIG_HOME");
    let tier = arg_or("tier", "quick");
    let thorough = tier == "thorough";
    let seed = arg_u64("seed", 1);
    let worker = arg_u64("worker", 0);
    let workers = arg_u64("workers", 1);
    let set = arg_or("set", "all");
    let mut c = Ctx {
        out: Out::create(arg_or("out", "/dev/stdout")),
        prog: Progress::from_env(),
        worker,
        workers,
        item: 0,
        id: 0,
        fs: None,
        fresh: false,
        individual: true,
        verbose: false,
        agg: BTreeMap::new(),
        calls: 0,
        bad: 0,
        rebuilds: 0,
        counts: [0; 4],
        inflight: format!("{}.inflight", arg_or("out", "/dev/stdout")),
        skip_hang: arg_or("skip-hang", "").split(',').filter(|x| x.contains(':')).map(|x| {
            let mut it = x.splitn(2, ':');
            (it.next().unwrap_or("").to_string(), it.next().unwrap_or("").to_string())
        }).collect(),
        skipped: 0,
    };
    let big = vec![0xabu8; 65536];

    if let Some(f) = arg("one") {
        // a single call, verbosely, panics printed by the default hook (RUST_BACKTRACE=1 gives the source line)
        let _ = std::panic::take_hook();
        c.verbose = true;
        let a = arg_or("a", "");
        let b = arg_or("b", "");
        match f.as_str() {
            "vfs_single" => vfs_single(&mut c, &a, 0, &big),
            "vfs_pair" => vfs_pair(&mut c, &a, &b, 0),
            "pure_single" => pure_single(&mut c, &a, false),
            "pure_pair" => pure_pair(&mut c, &a, &b),
            "misc" => misc(&mut c),
            op => {
                let m = arg_u64("m", 0) as u32;
                let n = arg_u64("n", 0) as u32;
                let cl = call_b(op, &a, &b, m, n, &arg_or("sym", ""), &arg_or("flags", ""));
                c.vfs("one", &cl, &[a.as_str(), b.as_str()], "one", true)
            },
        }
        c.out.finish();
        return;
    }

    let mut rng = StdRng::seed_from_u64(seed.wrapping_mul(1_000_003).wrapping_add(0x0c12));
    let base: Vec<String> = {
        let mut v = all_strings(&ALPHA, 3);
        v.extend(nasties());
        v
    };
    // ---- base layer: one record per call
    c.individual = true;
    if set == "all" || set == "vfs" {
        for s in &base {
            if c.mine() {
                vfs_single(&mut c, s, 0, &big);
            }
        }
    }
    if set == "all" || set == "pure" {
        for s in &base {
            if c.mine() {
                pure_single(&mut c, s, s.chars().count() <= 3);
            }
        }
    }
    if set == "all" || set == "misc" {
        misc(&mut c);
    }
    // every string <= 2 below each kind of existing entry (directory, link to directory, link to an ancestor, file,
    // link to file, dangling link) and after a home / variable reference that resolves into the tree
    if set == "all" || set == "vfs" {
        for pre in ["/a/", "/a/b/", "/\u{e9}/", "/a/b/up/", "/a/a/", "/\u{1d11e}/", "/:/", "~/", "$a/", "${HOME}/b/", "b/../"] {
            for t in all_strings(&ALPHA, 2) {
                if c.mine() {
                    let s = format!("{}{}", pre, t);
                    vfs_single(&mut c, &s, if thorough { 0 } else { 1 }, &big);
                }
            }
        }
    }
    let pl = pair_list(thorough);
    if set == "all" || set == "pairs" {
        for a in &pl {
            for b in &pl {
                if c.mine() {
                    vfs_pair(&mut c, a, b, 0);
                    pure_pair(&mut c, a, b);
                }
            }
        }
    }
    // ---- extended layers: aggregated (every panic / probe failure / poisoning is still an individual record)
    c.individual = false;
    let l4: Vec<String> = all_strings(&ALPHA, 4).into_iter().filter(|s| s.chars().count() == 4).collect();
    if set == "all" || set == "vfs" {
        for s in &l4 {
            if c.mine() {
                vfs_single(&mut c, s, if thorough { 0 } else { 1 }, &big);
            }
        }
    }
    if set == "all" || set == "pure" {
        for s in &l4 {
            if c.mine() {
                pure_single(&mut c, s, false);
            }
        }
    }
    // seeded random long inputs (every worker draws the same sequence and takes its share)
    let nrand = if thorough { 60_000 } else { 4_000 };
    if set == "all" || set == "vfs" || set == "pure" {
        for i in 0..nrand {
            let maxlen = if i % 50 == 0 { 1500 } else { 24 };
            let s = rand_string(&mut rng, maxlen);
            let t = rand_string(&mut rng, 12);
            if c.mine() {
                if set != "pure" {
                    vfs_single(&mut c, &s, 1, &big);
                    vfs_pair(&mut c, &s, &t, 1);
                    vfs_pair(&mut c, &t, &s, 1);
                }
                if set != "vfs" {
                    pure_single(&mut c, &s, false);
                    pure_pair(&mut c, &s, &t);
                    pure_pair(&mut c, &t, &s);
                }
            }
        }
    }
    {
        // every string of exactly 5 characters: the pure helpers in both tiers, the filesystem methods in the thorough one
        let l5: Vec<String> = all_strings(&ALPHA, 5).into_iter().filter(|s| s.chars().count() == 5).collect();
        if thorough && (set == "all" || set == "vfs") {
            for s in &l5 {
                if c.mine() {
                    vfs_single(&mut c, s, 1, &big);
                }
            }
        }
        if set == "all" || set == "pure" {
            for s in &l5 {
                if c.mine() {
                    pure_single(&mut c, s, false);
                }
            }
            // all pairs of strings <= 2 x <= 3 for the binary helpers
            let p3 = all_strings(&ALPHA, 3);
            let p2 = all_strings(&ALPHA, 2);
            for a in &p3 {
                for b in &p2 {
                    if c.mine() {
                        pure_pair(&mut c, a, b);
                        pure_pair(&mut c, b, a);
                    }
                }
            }
        }
    }
    // ---- summaries
    let agg = std::mem::take(&mut c.agg);
    for ((f, cls, o, nw), n) in agg {
        c.out.rec(&json!({"k": "s", "fn": f, "in": cls, "o": o, "n": n.min(2_000_000_000), "probe": if o == "err" && nw != "p" { "ok" } else { "-" }, "poisoned": "f", "nw": nw}));
    }
    c.out.rec(&json!({"k": "m", "calls": c.calls.min(2_000_000_000), "bad": c.bad, "rebuilds": c.rebuilds.min(2_000_000_000), "ok": c.counts[0].min(2_000_000_000),
                      "err": c.counts[1].min(2_000_000_000), "panic": c.counts[2], "timeout": c.counts[3], "worker": worker, "skipped": c.skipped}));
    c.prog.mark(c.id + 1, "done\t\t");
    c.out.finish();
}
