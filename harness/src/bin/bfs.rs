//! Breadth-first search over REAL Memfs states (DESIGN 4, `bfs-memfs`).  A state is identified by its
//! projection; it is re-created for every expansion by replaying its BFS path on a fresh Memfs.
//! For each state x each call of the alphabet one step {c, r, same, post} is logged, grouped by
//! pre-state.  Ill-formed or out-of-bound post-states are logged (and judged) but not expanded.
//!   bfs --names a,b --depth 2 --links 1 --alpha core|perm|cwd|copy --threads 16 --out PREFIX [--route enum]
use std::collections::HashMap;
use std::sync::atomic::{AtomicU64, Ordering};
use std::sync::Mutex;

use rivia::prelude::*;
use rvharness::ops::*;
use rvharness::*;

struct Cfg {
    names: Vec<String>,
    depth: usize,
    links: usize,
    maxdata: usize,
    alpha: String,
    route_enum: bool,
}

fn namespace(names: &[String], depth: usize) -> Vec<String> {
    let mut out = vec!["/".to_string()];
    let mut layer = vec![String::new()];
    for _ in 0..depth {
        let mut next = vec![];
        for s in &layer {
            for n in names {
                next.push(format!("{}/{}", s, n));
            }
        }
        out.extend(next.iter().cloned());
        layer = next;
    }
    out
}

fn mutators(cfg: &Cfg, paths: &[String]) -> Vec<Value> {
    let mut v = vec![];
    for p in paths {
        v.push(call("mkfile", p, ""));
        v.push(call("mkdir_p", p, ""));
        v.push(call_d("write_all", p, b"x"));
        v.push(call_d("write_all", p, b""));
        v.push(call_d("append_all", p, b"x"));
        v.push(call("remove", p, ""));
        v.push(call("remove_all", p, ""));
        if cfg.alpha == "perm" {
            v.push(call_m("chmod", p, 0o500, 0));
            v.push(call_m("mkdir_m", p, 0o700, 0));
            v.push(call_m("mkfile_m", p, 0o600, 0));
            v.push(call_m("chown", p, 5, 7));
            v.push(call_b("chmod_b", p, "", 0, 0, "f:u+x", "sR"));
        }
        if cfg.alpha == "cwd" {
            v.push(call("set_cwd", p, ""));
        }
    }
    for a in paths {
        for b in paths {
            if cfg.links > 0 {
                v.push(call("symlink", a, b));
            }
            v.push(call("move_p", a, b));
            v.push(call("copy", a, b));
            if cfg.alpha == "copy" {
                v.push(call_b("copy_b", a, b, 0o700, 0, "", "a"));
                v.push(call_b("copy_b", a, b, 0o700, 0, "", "d"));
                v.push(call_b("copy_b", a, b, 0o600, 0, "", "f"));
            }
        }
    }
    v
}

fn queries(paths: &[String]) -> Vec<Value> {
    let mut v = vec![call("cwd", "", ""), call("root", "", "")];
    for p in paths {
        for q in [
            "exists", "is_dir", "is_file", "is_symlink", "is_symlink_dir", "is_symlink_file", "is_exec", "is_readonly", "mode", "owner", "uid",
            "gid", "read_all", "read_lines", "read", "readlink", "readlink_abs", "paths", "dirs", "files", "all_paths", "all_dirs", "all_files",
            "entry", "abs",
        ] {
            v.push(call(q, p, ""));
        }
    }
    v
}

/// quick structural check used only to decide whether a state is expanded
fn expandable(cfg: &Cfg, st: &Value) -> bool {
    if st["po"] != "f" || st.get("err").is_some() {
        return false;
    }
    let ents = st["e"].as_array().unwrap();
    let mut kinds: HashMap<Vec<String>, (String, Vec<String>)> = HashMap::new();
    let mut nlinks = 0;
    for e in ents {
        let p: Vec<String> = e["p"].as_array().unwrap().iter().map(|x| x.as_str().unwrap().to_string()).collect();
        if p.len() > cfg.depth || p.iter().any(|n| !cfg.names.contains(n)) || e["kc"] != "t" || e["pk"] != "t" {
            return false;
        }
        let k = e["k"].as_str().unwrap().to_string();
        if k.starts_with('l') {
            nlinks += 1;
        }
        if cfg.alpha != "perm" && (e["uid"] != 1000 || e["gid"] != 1000) {
            return false;
        }
        let ch: Vec<String> = e["ch"].as_array().unwrap().iter().map(|x| x.as_str().unwrap().to_string()).collect();
        kinds.insert(p, (k, ch));
    }
    if nlinks > cfg.links {
        return false;
    }
    for (p, (_, _)) in kinds.iter() {
        if !p.is_empty() {
            let par = p[..p.len() - 1].to_vec();
            match kinds.get(&par) {
                Some((k, ch)) if k == "d" && ch.contains(&p[p.len() - 1]) => {},
                _ => return false,
            }
        }
    }
    for (p, (k, ch)) in kinds.iter() {
        if k != "d" && !ch.is_empty() {
            return false;
        }
        for n in ch {
            let mut q = p.clone();
            q.push(n.clone());
            if !kinds.contains_key(&q) {
                return false;
            }
        }
    }
    let files = st["f"].as_array().unwrap();
    let nfile = kinds.values().filter(|(k, _)| k == "f").count();
    if files.len() != nfile {
        return false;
    }
    for f in files {
        let p: Vec<String> = f["p"].as_array().unwrap().iter().map(|x| x.as_str().unwrap().to_string()).collect();
        match kinds.get(&p) {
            Some((k, _)) if k == "f" => {},
            _ => return false,
        }
        if f["d"].as_array().unwrap().len() > cfg.maxdata {
            return false;
        }
    }
    true
}

/// calls known to never return on the unrepaired tree (A28): issued only by the C12 check
fn known_hang(c: &Value, st: &Value) -> bool {
    if c["op"] != "move_p" {
        return false;
    }
    let s = |v: &Value| v.as_array().unwrap().iter().map(|x| x.as_str().unwrap()).collect::<String>();
    let (a, b) = (s(&c["a"]), s(&c["b"]));
    let kind = |p: &str| -> String {
        let cs: Vec<&str> = p.split('/').filter(|x| !x.is_empty()).collect();
        for e in st["e"].as_array().unwrap() {
            let ep: Vec<&str> = e["p"].as_array().unwrap().iter().map(|x| x.as_str().unwrap()).collect();
            if ep == cs {
                return e["k"].as_str().unwrap().to_string();
            }
        }
        "".to_string()
    };
    let inside = b == a || b.starts_with(&format!("{}/", a.trim_end_matches('/'))) || a == "/";
    inside && kind(&a).ends_with('d') && kind(&b).ends_with('d')
}

fn run_call(m: &Memfs, c: &Value, route_enum: bool) -> Value {
    if route_enum {
        // through the Vfs enum wrapper (C13): the same instance, upcast
        let v = Vfs::Memfs(unsafe_clone(m));
        apply(&v, c)
    } else {
        apply(m, c)
    }
}

// Memfs::clone is pub(crate); the public way to share an instance is through Arc in user code, so for the
// enum route the harness builds the instance as a Vfs from the start instead (see `fresh`).
fn unsafe_clone(_m: &Memfs) -> Memfs {
    unreachable!()
}

fn main() {
    silence_panics();
    limit_memory(6 << 30);
    let cfg = Cfg {
        names: arg_or("names", "a,b").split(',').map(|x| x.to_string()).collect(),
        depth: arg_u64("depth", 2) as usize,
        links: arg_u64("links", 0) as usize,
        maxdata: arg_u64("maxdata", 1) as usize,
        alpha: arg_or("alpha", "core"),
        route_enum: arg_or("route", "direct") == "enum",
    };
    let threads = arg_u64("threads", 8) as usize;
    let skip_hang = flag("skip-known-hang");
    let maxstates = arg_u64("maxstates", 2_000_000) as usize;
    let prefix = arg_or("out", "/dev/shm/bfs");
    // `--out X.w00.ndjson` style from run_workers: strip the suffix to get a prefix
    let prefix = prefix.trim_end_matches(".ndjson").to_string();
    let paths = namespace(&cfg.names, cfg.depth);
    let muts = mutators(&cfg, &paths);
    let qs = queries(&paths);
    let prog = Progress::from_env();
    let _ = cfg.route_enum;
    let _ = run_call;

    // state table: key -> index; per state the call path that reaches it
    let mut index: HashMap<String, usize> = HashMap::new();
    let mut pathsto: Vec<Vec<u32>> = vec![];
    let init = memproj::project(&Memfs::new());
    index.insert(to_ascii_json(&init), 0);
    pathsto.push(vec![]);
    let mut frontier: Vec<usize> = vec![0];
    let counter = AtomicU64::new(0);
    let skipped_hang = AtomicU64::new(0);
    let mut level = 0;
    let mut nrec: u64 = 0;
    let mut nsteps: u64 = 0;
    let outs: Vec<Mutex<Out>> = (0..threads).map(|i| Mutex::new(Out::create(format!("{}.t{:02}.ndjson", prefix, i)))).collect();
    while !frontier.is_empty() && index.len() < maxstates {
        let chunks: Vec<Vec<usize>> = (0..threads).map(|t| frontier.iter().cloned().skip(t).step_by(threads).collect()).collect();
        let found: Vec<Vec<(String, Vec<u32>)>> = std::thread::scope(|sc| {
            let hs: Vec<_> = chunks
                .iter()
                .enumerate()
                .map(|(t, mine)| {
                    let (cfg, muts, qs, pathsto, outs, prog, counter, skipped_hang) = (&cfg, &muts, &qs, &pathsto, &outs, &prog, &counter, &skipped_hang);
                    sc.spawn(move || {
                        let mut newst: Vec<(String, Vec<u32>)> = vec![];
                        let mut out = outs[t].lock().unwrap();
                        for &si in mine {
                            let path = &pathsto[si];
                            let build = || {
                                let m = Memfs::new();
                                for &ci in path {
                                    let _ = apply(&m, &muts[ci as usize]);
                                }
                                m
                            };
                            let pre = memproj::project(&build());
                            let prekey = to_ascii_json(&pre);
                            let mut steps = vec![];
                            // queries run on one instance (they must not change it: checked by projection afterwards)
                            // (replaying a call path is deterministic except where the implementation's hash order shows, e.g. the
                            // kind recorded with a link that a copy created before / after its target: every instance is therefore
                            // projected itself and judged from ITS pre-state)
                            let mut odd: Vec<Value> = vec![];
                            let qm = build();
                            let qpre = memproj::project(&qm);
                            let qsame = to_ascii_json(&qpre) == prekey;
                            let mut qsteps = vec![];
                            for q in qs.iter() {
                                let id = counter.fetch_add(1, Ordering::Relaxed);
                                prog.mark_slot(t, id, &to_ascii_json(q));
                                let r = apply(&qm, q);
                                qsteps.push(json!({"c": q, "r": r, "same": "t", "post": []}));
                            }
                            let after = memproj::project(&qm);
                            if to_ascii_json(&after) != to_ascii_json(&qpre) {
                                qsteps.push(json!({"c": call("queries-changed-state", "", ""), "r": r_ok(json!([])), "same": "f", "post": after}));
                            }
                            if qsame {
                                steps.extend(qsteps);
                            } else {
                                odd.push(json!({"k": "g", "be": "memfs", "route": "direct", "pre": qpre, "steps": qsteps}));
                            }
                            for (ci, c) in muts.iter().enumerate() {
                                if skip_hang && known_hang(c, &pre) {
                                    skipped_hang.fetch_add(1, Ordering::Relaxed);
                                    continue;
                                }
                                let m = build();
                                let mypre = memproj::project(&m);
                                let mykey = to_ascii_json(&mypre);
                                let id = counter.fetch_add(1, Ordering::Relaxed);
                                prog.mark_slot(t, id, &format!("state-path={:?} call={}", path, to_ascii_json(c)));
                                let r = apply(&m, c);
                                let post = memproj::project(&m);
                                let key = to_ascii_json(&post);
                                let step = if key == mykey {
                                    json!({"c": c, "r": r, "same": "t", "post": []})
                                } else {
                                    if expandable(cfg, &post) {
                                        let mut np = path.clone();
                                        np.push(ci as u32);
                                        newst.push((key, np));
                                    }
                                    json!({"c": c, "r": r, "same": "f", "post": post})
                                };
                                if mykey == prekey {
                                    steps.push(step);
                                } else {
                                    odd.push(json!({"k": "g", "be": "memfs", "route": "direct", "pre": mypre, "steps": [step]}));
                                }
                            }
                            out.rec(&json!({"k": "g", "be": "memfs", "route": "direct", "pre": pre, "steps": steps}));
                            for o in odd {
                                out.rec(&o);
                            }
                        }
                        prog.mark_slot(t, counter.load(Ordering::Relaxed), "idle");
                        newst
                    })
                })
                .collect();
            hs.into_iter().map(|h| h.join().unwrap()).collect()
        });
        nrec += frontier.len() as u64;
        nsteps += frontier.len() as u64 * (muts.len() + qs.len()) as u64;
        let mut next = vec![];
        for v in found {
            for (k, p) in v {
                if !index.contains_key(&k) {
                    let i = pathsto.len();
                    index.insert(k, i);
                    pathsto.push(p);
                    next.push(i);
                }
            }
        }
        level += 1;
        eprintln!("bfs: level {} frontier {} -> states {}", level, frontier.len(), index.len());
        frontier = next;
    }
    for o in outs {
        o.into_inner().unwrap().finish();
    }
    let summary = json!({"states": index.len(), "groups": nrec, "steps": nsteps, "levels": level,
        "skipped_known_hang": skipped_hang.load(Ordering::Relaxed), "calls_per_state": muts.len() + qs.len(),
        "longest_path": pathsto.iter().map(|p| p.len()).max().unwrap_or(0)});
    std::fs::write(format!("{}.summary.json", prefix), to_ascii_json(&summary)).unwrap();
    eprintln!("bfs: {}", summary);
}
