//! C07: operation sequences on REAL handles returned by read / write / append of Memfs and Stdfs.
//! Every call into the handle runs under `guard` (a panic is data); one ND-JSON record per sequence:
//!   {"k":"rs","be":"memfs|stdfs","data":[bytes],"pre":[bytes],"open":RES,"ops":[{"op":"read|start|cur|end","n":N}],
//!    "res":[{"o":"ok|<ErrKind>|panic","n":count-or-position,"v":[bytes read]}]}
//!   {"k":"w","be":..,"mode":"trunc|append","ex":["true"|"false"],"base":[bytes],"pre":[bytes],"open":RES,
//!    "ops":[{"op":"write|flush|drop","d":[bytes]}],"res":[{"o":..,"n":accepted,"c":[content after flush/drop]}]}
//!   {"k":"w2", ... two append handles on one file, "ops":[{"h":1|2,"op":..,"d":..}] }       (informational)
//! Content is observed through an independent route: std::fs::read for Stdfs, a fresh read handle +
//! read_to_end for Memfs; an unreadable file is logged as the content [-1].
//! Usage: handles --set rs|w|w2 --tier quick|thorough --seed N --sandbox DIR --out FILE [--worker i --workers n]
use rand::{rngs::StdRng, Rng, SeedableRng};
use rivia::prelude::*;
use rvharness::*;
use std::path::PathBuf;

const BIG: i64 = 1_000_000;
const CAP: u64 = 2_147_483_647;

#[derive(Clone, Copy, Debug)]
enum ROp {
    Read(usize),
    Start(u64),
    Cur(i64),
    End(i64),
}

#[derive(Clone, Debug)]
enum WOp {
    Write(Vec<u8>),
    Flush,
    Drop,
}

fn io_kind(e: &std::io::Error) -> String {
    format!("Io::{:?}", e.kind())
}

fn cap(n: u64) -> u64 {
    if n > CAP {
        CAP
    } else {
        n
    }
}

/// One backend instance for one sequence
struct Be<V: VirtualFileSystem> {
    name: &'static str,
    vfs: V,
    file: PathBuf,
    /// how the path is spelled when a handle is OPENED (the independent observers always use `file`)
    spell: usize,
}

impl<V: VirtualFileSystem> Be<V> {
    /// canonical / "./"-detour / "zz/.." detour / relative to the cwd (the file's directory on both backends)
    fn open_path(&self) -> PathBuf {
        let dir = self.file.parent().unwrap_or(Path::new("/")).to_path_buf();
        match self.spell % 4 {
            0 => self.file.clone(),
            1 => PathBuf::from(format!("{}/./f", dir.to_str().unwrap_or("").trim_end_matches('/'))),
            2 => PathBuf::from(format!("{}/zz/../f", dir.to_str().unwrap_or("").trim_end_matches('/'))),
            _ => PathBuf::from("f"),
        }
    }
    /// Put the file into its initial condition without going through the handles under test where possible
    fn setup(&self, base: Option<&[u8]>) -> Result<(), String> {
        if self.name == "stdfs" {
            let _ = std::fs::remove_file(&self.file);
            if let Some(b) = base {
                std::fs::write(&self.file, b).map_err(|e| e.to_string())?;
            }
            Ok(())
        } else {
            match base {
                None => Ok(()),
                Some(b) => match guard(|| self.vfs.write_all(&self.file, b)) {
                    Ok(Ok(())) => Ok(()),
                    Ok(Err(e)) => Err(err_kind(&e)),
                    Err(m) => Err(format!("panic: {}", m)),
                },
            }
        }
    }

    /// Visible content, [-1] when the file cannot be read
    fn content(&self) -> Value {
        if self.name == "stdfs" {
            match std::fs::read(&self.file) {
                Ok(b) => bytes(&b),
                Err(_) => json!([-1]),
            }
        } else {
            let r = guard(|| -> Option<Vec<u8>> {
                let mut h = self.vfs.read(&self.file).ok()?;
                let mut v = vec![];
                h.read_to_end(&mut v).ok()?;
                Some(v)
            });
            match r {
                Ok(Some(b)) => bytes(&b),
                _ => json!([-1]),
            }
        }
    }
}

fn open_res<T>(r: &Result<RvResult<T>, String>) -> Value {
    match r {
        Ok(Ok(_)) => json!({"o": "ok"}),
        Ok(Err(e)) => json!({"o": err_kind(e)}),
        Err(m) => json!({"o": "panic", "m": m.chars().take(100).collect::<String>()}),
    }
}

fn rop_json(op: &ROp) -> Value {
    match op {
        ROp::Read(n) => json!({"op": "read", "n": n}),
        ROp::Start(k) => json!({"op": "start", "n": cap(*k)}),
        // i64::MIN is logged as the most negative offset the validator's integers hold: from any position of these files both
        // lead before the start, so the expected outcome (error, position kept) is the same
        ROp::Cur(k) => json!({"op": "cur", "n": (*k).max(-2_147_483_647)}),
        ROp::End(k) => json!({"op": "end", "n": (*k).max(-2_147_483_647)}),
    }
}

fn pmsg(m: &str) -> String {
    m.chars().take(100).collect()
}

/// read/seek sequence on a handle from `read`
fn run_rs<V: VirtualFileSystem>(be: &Be<V>, data: &[u8], ops: &[ROp]) -> Value {
    let setup = be.setup(Some(data));
    let pre = be.content();
    let opened = guard(|| be.vfs.read(be.open_path()));
    let open = open_res(&opened);
    let mut res = vec![];
    if let (Ok(()), Ok(Ok(mut h))) = (setup, opened) {
        for op in ops {
            let r = match *op {
                ROp::Read(n) => {
                    let mut buf = vec![0xEEu8; n];
                    match guard(|| h.read(&mut buf)) {
                        Ok(Ok(k)) => json!({"o": "ok", "n": cap(k as u64), "v": bytes(&buf[..k.min(n)])}),
                        Ok(Err(e)) => json!({"o": io_kind(&e), "n": 0, "v": []}),
                        Err(m) => json!({"o": "panic", "n": 0, "v": [], "m": pmsg(&m)}),
                    }
                },
                ROp::Start(_) | ROp::Cur(_) | ROp::End(_) => {
                    let sf = match *op {
                        ROp::Start(k) => SeekFrom::Start(k),
                        ROp::Cur(k) => SeekFrom::Current(k),
                        ROp::End(k) => SeekFrom::End(k),
                        _ => unreachable!(),
                    };
                    match guard(|| h.seek(sf)) {
                        Ok(Ok(p)) => json!({"o": "ok", "n": cap(p), "v": []}),
                        Ok(Err(e)) => json!({"o": io_kind(&e), "n": 0, "v": []}),
                        Err(m) => json!({"o": "panic", "n": 0, "v": [], "m": pmsg(&m)}),
                    }
                },
            };
            res.push(r);
        }
        let _ = guard(move || drop(h));
    }
    json!({"k": "rs", "be": be.name, "data": bytes(data), "pre": pre, "open": open,
           "ops": Value::Array(ops.iter().map(rop_json).collect()), "res": Value::Array(res)})
}

/// a read handle across a rewrite of its file THROUGH THE SAME VFS: open, read k bytes, write_all(b), read to the end.  What the
/// second read returns is backend business (a live descriptor sees the new bytes, a snapshot the old ones) and is not judged; it has
/// to be the same whether the backend is used directly or through the Vfs enum (C13).
fn run_rw<V: VirtualFileSystem>(be: &Be<V>, a: &[u8], b: &[u8], k: usize) -> Value {
    let setup = be.setup(Some(a));
    let opened = guard(|| be.vfs.read(be.open_path()));
    let open = open_res(&opened);
    let mut res = vec![];
    if let (Ok(()), Ok(Ok(mut h))) = (setup, opened) {
        let mut buf = vec![0xEEu8; k];
        res.push(match guard(|| h.read(&mut buf)) {
            Ok(Ok(n)) => json!({"o": "ok", "n": cap(n as u64), "v": bytes(&buf[..n.min(k)])}),
            Ok(Err(e)) => json!({"o": io_kind(&e), "n": 0, "v": []}),
            Err(m) => json!({"o": "panic", "n": 0, "v": [], "m": pmsg(&m)}),
        });
        res.push(match guard(|| be.vfs.write_all(&be.file, b)) {
            Ok(Ok(())) => json!({"o": "ok", "n": 0, "v": []}),
            Ok(Err(e)) => json!({"o": err_kind(&e), "n": 0, "v": []}),
            Err(m) => json!({"o": "panic", "n": 0, "v": [], "m": pmsg(&m)}),
        });
        let mut rest: Vec<u8> = vec![];
        let r = guard(|| -> std::io::Result<()> {
            let mut chunk = vec![0u8; 4096];
            for _ in 0..64 {
                let n = h.read(&mut chunk)?;
                if n == 0 {
                    break;
                }
                rest.extend_from_slice(&chunk[..n]);
            }
            Ok(())
        });
        res.push(match r {
            Ok(Ok(())) => json!({"o": "ok", "n": cap(rest.len() as u64), "v": bytes(&rest)}),
            Ok(Err(e)) => json!({"o": io_kind(&e), "n": 0, "v": []}),
            Err(m) => json!({"o": "panic", "n": 0, "v": [], "m": pmsg(&m)}),
        });
        let _ = guard(move || drop(h));
    }
    json!({"k": "rw", "be": be.name, "open": open, "res": Value::Array(res)})
}

fn wop_json(op: &WOp) -> Value {
    match op {
        WOp::Write(d) => json!({"op": "write", "d": bytes(d)}),
        WOp::Flush => json!({"op": "flush", "d": []}),
        WOp::Drop => json!({"op": "drop", "d": []}),
    }
}

fn open_w<V: VirtualFileSystem>(be: &Be<V>, mode: &str) -> Result<RvResult<Box<dyn Write>>, String> {
    if mode == "trunc" {
        guard(|| be.vfs.write(be.open_path()))
    } else {
        guard(|| be.vfs.append(be.open_path()))
    }
}

/// One step on a write handle; the handle is taken out of the slot by a drop
fn wstep<V: VirtualFileSystem>(be: &Be<V>, slot: &mut Option<Box<dyn Write>>, op: &WOp) -> Value {
    match op {
        WOp::Write(d) => {
            let h = slot.as_mut().unwrap();
            match guard(|| h.write(d)) {
                // "s": what an independent observer sees right after the write (not judged by the handle contract - a handle may
                // buffer - but it has to be the same whether the handle came from the backend or from the Vfs enum, C13)
                Ok(Ok(k)) => json!({"o": "ok", "n": cap(k as u64), "c": [], "s": be.content()}),
                Ok(Err(e)) => json!({"o": io_kind(&e), "n": 0, "c": []}),
                Err(m) => json!({"o": "panic", "n": 0, "c": [], "m": pmsg(&m)}),
            }
        },
        WOp::Flush => {
            let h = slot.as_mut().unwrap();
            match guard(|| h.flush()) {
                Ok(Ok(())) => json!({"o": "ok", "n": 0, "c": be.content()}),
                Ok(Err(e)) => json!({"o": io_kind(&e), "n": 0, "c": be.content()}),
                Err(m) => json!({"o": "panic", "n": 0, "c": be.content(), "m": pmsg(&m)}),
            }
        },
        WOp::Drop => {
            let h = slot.take().unwrap();
            match guard(move || drop(h)) {
                Ok(()) => json!({"o": "ok", "n": 0, "c": be.content()}),
                Err(m) => json!({"o": "panic", "n": 0, "c": be.content(), "m": pmsg(&m)}),
            }
        },
    }
}

/// write/flush/drop sequence on one handle from `write` (mode trunc) or `append`
fn run_w<V: VirtualFileSystem>(be: &Be<V>, mode: &str, base: Option<&[u8]>, ops: &[WOp]) -> Value {
    let setup = be.setup(base);
    let pre = if base.is_some() { be.content() } else { json!([]) };
    let opened = open_w(be, mode);
    let open = if setup.is_ok() { open_res(&opened) } else { json!({"o": "setup-failed"}) };
    let mut res = vec![];
    if let (Ok(()), Ok(Ok(h))) = (setup, opened) {
        let mut slot = Some(h);
        for op in ops {
            if slot.is_none() {
                break;
            }
            res.push(wstep(be, &mut slot, op));
        }
        if let Some(h) = slot.take() {
            let _ = guard(move || drop(h));
        }
    }
    json!({"k": "w", "be": be.name, "mode": mode, "ex": vbool(base.is_some()), "base": bytes(base.unwrap_or(&[])), "pre": pre,
           "open": open, "ops": Value::Array(ops.iter().map(wop_json).collect()), "res": Value::Array(res)})
}

/// two append handles open on the same file (both opened before the first operation)
fn run_w2<V: VirtualFileSystem>(be: &Be<V>, base: &[u8], ops: &[(usize, WOp)]) -> Value {
    let setup = be.setup(Some(base));
    let pre = be.content();
    let o1 = open_w(be, "append");
    let o2 = open_w(be, "append");
    let open = if setup.is_err() {
        json!({"o": "setup-failed"})
    } else if !matches!(o1, Ok(Ok(_))) {
        open_res(&o1)
    } else {
        open_res(&o2)
    };
    let mut res = vec![];
    if let (Ok(()), Ok(Ok(h1)), Ok(Ok(h2))) = (setup, o1, o2) {
        let mut slots = [Some(h1), Some(h2)];
        for (i, op) in ops {
            if slots[*i - 1].is_none() {
                break;
            }
            res.push(wstep(be, &mut slots[*i - 1], op));
        }
        for s in slots.iter_mut() {
            if let Some(h) = s.take() {
                let _ = guard(move || drop(h));
            }
        }
    }
    let jops: Vec<Value> = ops
        .iter()
        .map(|(i, op)| {
            let mut o = wop_json(op);
            o.as_object_mut().unwrap().insert("h".into(), json!(i));
            o
        })
        .collect();
    json!({"k": "w2", "be": be.name, "mode": "append", "base": bytes(base), "pre": pre, "open": open,
           "ops": Value::Array(jops), "res": Value::Array(res)})
}

// ---------------------------------------------------------------- enumeration

fn rop_domain(max_read: usize, max_start: u64, cur: (i64, i64), end: (i64, i64)) -> Vec<ROp> {
    let mut d = vec![];
    for n in 0..=max_read {
        d.push(ROp::Read(n));
    }
    for k in 0..=max_start {
        d.push(ROp::Start(k));
    }
    for k in cur.0..=cur.1 {
        d.push(ROp::Cur(k));
    }
    for k in end.0..=end.1 {
        d.push(ROp::End(k));
    }
    d
}

/// all sequences of exactly `len` operations (every shorter sequence is a prefix of one of them and the
/// validator judges step by step)
fn all_rseqs(dom: &[ROp], len: usize) -> Vec<Vec<ROp>> {
    let mut layer: Vec<Vec<ROp>> = vec![vec![]];
    for _ in 0..len {
        let mut next = Vec::with_capacity(layer.len() * dom.len());
        for s in &layer {
            for o in dom {
                let mut t = s.clone();
                t.push(*o);
                next.push(t);
            }
        }
        layer = next;
    }
    layer
}

/// every list of at most `maxw` writes that splits a prefix of `stream` (total at most `total` bytes, empty writes
/// included), each write followed by a flush or not, optionally a flush before the first write; the drop is appended.
/// Every such list is also the "drop after a prefix" (crash point) of the longer ones.
fn all_wseqs(stream: &[u8], total: usize, maxw: usize) -> Vec<Vec<WOp>> {
    fn rec(stream: &[u8], total: usize, maxw: usize, used: usize, nw: usize, cur: &mut Vec<WOp>, out: &mut Vec<Vec<WOp>>) {
        let mut done = cur.clone();
        done.push(WOp::Drop);
        out.push(done);
        if nw == maxw {
            return;
        }
        for c in 0..=(total - used) {
            cur.push(WOp::Write(stream[used..used + c].to_vec()));
            rec(stream, total, maxw, used + c, nw + 1, cur, out);
            cur.push(WOp::Flush);
            rec(stream, total, maxw, used + c, nw + 1, cur, out);
            cur.pop();
            cur.pop();
        }
    }
    let mut out = vec![];
    rec(stream, total, maxw, 0, 0, &mut vec![], &mut out);
    let mut lead = vec![WOp::Flush];
    rec(stream, total, maxw, 0, 0, &mut lead, &mut out);
    out
}

/// interleavings of two handles: words over {W,F,D} x {1,2} of length <= len, nothing after a handle's drop,
/// no flush directly after a flush of the same handle; handle i writes the bytes 0x31.. / 0x41.. one at a time
fn all_w2seqs(len: usize) -> Vec<Vec<(usize, WOp)>> {
    fn rec(len: usize, cur: &mut Vec<(usize, u8)>, out: &mut Vec<Vec<(usize, u8)>>) {
        if !cur.is_empty() {
            out.push(cur.clone());
        }
        if cur.len() == len {
            return;
        }
        for h in 1..=2usize {
            if cur.iter().any(|(i, o)| *i == h && *o == b'D') {
                continue;
            }
            for o in [b'W', b'F', b'D'] {
                if o == b'F' && cur.iter().rev().find(|(i, _)| *i == h).map(|(_, p)| *p == b'F').unwrap_or(false) {
                    continue;
                }
                cur.push((h, o));
                rec(len, cur, out);
                cur.pop();
            }
        }
    }
    let mut words = vec![];
    rec(len, &mut vec![], &mut words);
    words
        .into_iter()
        .filter(|w| w.iter().any(|(i, o)| *i == 1 && *o == b'W') && w.iter().any(|(i, o)| *i == 2 && *o == b'W'))
        .map(|w| {
            let mut n = [0u8; 2];
            let mut ops: Vec<(usize, WOp)> = vec![];
            for (h, o) in &w {
                ops.push((*h, match o {
                    b'W' => {
                        n[*h - 1] += 1;
                        WOp::Write(vec![if *h == 1 { 0x30 } else { 0x40 } + n[*h - 1]])
                    },
                    b'F' => WOp::Flush,
                    _ => WOp::Drop,
                }));
            }
            // the handles still open are dropped in order 1, 2 (the other order occurs through explicit drops)
            for h in 1..=2usize {
                if !w.iter().any(|(i, o)| *i == h && *o == b'D') {
                    ops.push((h, WOp::Drop));
                }
            }
            ops
        })
        .collect()
}

fn rand_bytes(rng: &mut StdRng, maxlen: usize) -> Vec<u8> {
    let n = rng.gen_range(0..=maxlen);
    let pal = [0u8, 10, 13, 0x31, 0x61, 0x7f, 0x80, 0xC3, 0xA9, 0xFF];
    (0..n).map(|_| pal[rng.gen_range(0..pal.len())]).collect()
}

fn rand_rop(rng: &mut StdRng, datalen: usize) -> ROp {
    let off = |rng: &mut StdRng| -> i64 {
        match rng.gen_range(0..10) {
            0 => BIG,
            1 => -BIG,
            2 => 1000,
            3 => -1000,
            _ => rng.gen_range(-(datalen as i64) - 3..=(datalen as i64) + 3),
        }
    };
    match rng.gen_range(0..4) {
        0 => ROp::Read(if rng.gen_bool(0.1) { 64 } else { rng.gen_range(0..=datalen + 2) }),
        1 => ROp::Start(off(rng).unsigned_abs()),
        2 => ROp::Cur(if rng.gen_bool(0.03) { i64::MIN } else { off(rng) }),
        _ => ROp::End(if rng.gen_bool(0.03) { i64::MIN } else { off(rng) }),
    }
}

fn main() {
    silence_panics();
    limit_memory(4 << 30);
    let set = arg_or("set", "rs");
    let tier = arg_or("tier", "quick");
    let seed = arg_u64("seed", 1);
    let worker = arg_u64("worker", 0);
    let workers = arg_u64("workers", 1);
    let thorough = tier == "thorough";
    let sandbox = PathBuf::from(arg_or("sandbox", "/dev/shm/rvh-handles")).join(format!("w{:02}", worker));
    let _ = std::fs::remove_dir_all(&sandbox);
    if let Err(e) = std::fs::create_dir_all(&sandbox) {
        eprintln!("cannot create sandbox {}: {}", sandbox.display(), e);
        std::process::exit(2);
    }
    let mut out = Out::create(arg_or("out", "/dev/stdout"));
    let prog = Progress::from_env();
    let mut rng = StdRng::seed_from_u64(seed.wrapping_mul(1000003).wrapping_add(worker).wrapping_add(77));
    let mut id: u64 = 0;
    let mine = |id: &mut u64| -> bool {
        *id += 1;
        (*id - 1) % workers == worker
    };
    // relative spellings resolve against the cwd: the sandbox for the real filesystem, the root for the in-memory one
    let _ = std::env::set_current_dir(&sandbox);
    let spell = std::cell::Cell::new(0usize);
    let next = || {
        spell.set(spell.get() + 1);
        spell.get()
    };
    let stdbe = || Be { name: "stdfs", vfs: Stdfs::new(), file: sandbox.join("f"), spell: next() };
    let membe = || Be { name: "memfs", vfs: Memfs::new(), file: PathBuf::from("/f"), spell: next() }; // fresh instance per sequence
    let pattern: [u8; 8] = [0x61, 0x0A, 0xFF, 0x00, 0xC3, 0xA9, 0x7A, 0x0D];
    match set.as_str() {
        "rs" => {
            // (1) exhaustive: the domain of DESIGN app. I at length 3 (quick) / the full MC_Handle domain at length 3 plus
            //     the reduced one at length 4 (thorough); (2) the full MC_Handle domain at length 2; (3) seeded random
            let reduced = rop_domain(4, 5, (-3, 3), (-4, 2));
            let full = rop_domain(4, 5, (-5, 5), (-5, 5));
            let mut plans: Vec<(Vec<Vec<ROp>>, Vec<usize>)> = vec![];
            if thorough {
                plans.push((all_rseqs(&full, 3), vec![0, 1, 2, 3]));
                plans.push((all_rseqs(&reduced, 4), vec![0, 3]));
            } else {
                plans.push((all_rseqs(&reduced, 3), vec![0, 1, 2, 3]));
                plans.push((all_rseqs(&full, 2), vec![0, 1, 2, 3]));
            }
            for (seqs, lens) in &plans {
                for dl in lens {
                    let data = &pattern[..*dl];
                    for ops in seqs {
                        if mine(&mut id) {
                            prog.mark(id, &format!("rs {:?} {:?}", data, ops));
                            out.rec(&run_rs(&membe(), data, ops));
                            out.rec(&run_rs(&stdbe(), data, ops));
                        }
                    }
                }
            }
            // scale: positions at and beyond 2^31 / 2^63 / 2^64-1 (std::io::Cursor accepts any u64 position; a read there returns 0
            // bytes).  The validator's integers are 32-bit, so such a position is logged as 2^31-1 (rop_json / cap) and the scripts
            // only read or seek absolutely / from the end afterwards - the expected outcomes are the same for every position >= len.
            for hpos in [1u64 << 31, 1u64 << 40, (1u64 << 62) - 1, i64::MAX as u64, 1u64 << 63, u64::MAX] {
                for dl in [0usize, 3] {
                    for ops in [
                        vec![ROp::Start(hpos), ROp::Read(1), ROp::Read(4), ROp::Start(1), ROp::Read(2)],
                        vec![ROp::Start(hpos), ROp::End(-1), ROp::Read(3)],
                        vec![ROp::Start(hpos), ROp::Read(0), ROp::End(0), ROp::Read(1)],
                    ] {
                        if mine(&mut id) {
                            prog.mark(id, "rs huge position");
                            out.rec(&run_rs(&membe(), &pattern[..dl], &ops));
                            // a real file's offset is a signed 64-bit off_t: the kernel refuses lseek beyond i64::MAX and read()
                            // where offset + count overflows it (EINVAL) - outside what a file handle can be asked; on the real
                            // filesystem the huge positions stop at 2^62
                            if hpos < (1u64 << 62) {
                                out.rec(&run_rs(&stdbe(), &pattern[..dl], &ops));
                            }
                        }
                    }
                }
            }
            // scale: a file larger than the usual buffer capacities (4096 / 8192), read in chunks at and around those sizes
            let bigdata: Vec<u8> = (0..9000u32).map(|i| (i % 251) as u8).collect();
            let scripts: Vec<Vec<ROp>> = vec![
                vec![ROp::Read(4096), ROp::Read(4096), ROp::Read(4096), ROp::Read(16)],
                vec![ROp::Read(8192), ROp::Read(8192), ROp::Read(1)],
                vec![ROp::Read(10000), ROp::Read(1)],
                vec![ROp::Read(4095), ROp::Cur(2), ROp::Read(4097), ROp::Read(900)],
                vec![ROp::End(-5), ROp::Read(16), ROp::Start(8191), ROp::Read(2), ROp::Cur(-8194), ROp::Read(3)],
                vec![ROp::Start(8999), ROp::Read(8192), ROp::Start(9000), ROp::Read(8192), ROp::Start(9001), ROp::Read(1)],
            ];
            for ops in &scripts {
                if mine(&mut id) {
                    prog.mark(id, "rs big");
                    out.rec(&run_rs(&membe(), &bigdata, ops));
                    out.rec(&run_rs(&stdbe(), &bigdata, ops));
                }
            }
            let nr = if thorough { 200_000 } else { 16_000 };
            for _ in 0..nr / workers {
                let data = rand_bytes(&mut rng, if thorough { 9 } else { 5 });
                let n = rng.gen_range(1..=if thorough { 10 } else { 6 });
                let ops: Vec<ROp> = (0..n).map(|_| rand_rop(&mut rng, data.len())).collect();
                id += 1;
                prog.mark(id, &format!("rs {:?} {:?}", data, ops));
                out.rec(&run_rs(&membe(), &data, &ops));
                out.rec(&run_rs(&stdbe(), &data, &ops));
            }
        },
        "w" => {
            let (total, maxw) = if thorough { (6, 4) } else { (4, 3) };
            let seqs = all_wseqs(&pattern, total, maxw);
            let bases: Vec<Option<Vec<u8>>> = vec![None, Some(vec![]), Some(vec![0x62]), Some(vec![0x62, 0x0A, 0xE9])];
            for mode in ["trunc", "append"] {
                for base in &bases {
                    for ops in &seqs {
                        if mine(&mut id) {
                            prog.mark(id, &format!("w {} {:?} {:?}", mode, base, ops));
                            out.rec(&run_w(&membe(), mode, base.as_deref(), ops));
                            out.rec(&run_w(&stdbe(), mode, base.as_deref(), ops));
                        }
                    }
                }
            }
            // scale: chunks at and around the usual buffer capacities, with and without flushes in between
            let chunk = |n: usize, off: usize| -> Vec<u8> { (0..n).map(|i| ((i + off) % 253) as u8).collect() };
            let wscripts: Vec<Vec<WOp>> = vec![
                vec![WOp::Write(chunk(8192, 0)), WOp::Write(chunk(1, 7)), WOp::Drop],
                vec![WOp::Write(chunk(5000, 0)), WOp::Write(chunk(5000, 3)), WOp::Flush, WOp::Write(chunk(3, 9)), WOp::Drop],
                vec![WOp::Write(chunk(9000, 1)), WOp::Flush, WOp::Drop],
                vec![WOp::Write(chunk(4096, 2)), WOp::Flush, WOp::Write(chunk(4097, 5)), WOp::Drop],
            ];
            for mode in ["trunc", "append"] {
                for base in [None, Some(chunk(100, 11))] {
                    for ops in &wscripts {
                        if mine(&mut id) {
                            prog.mark(id, "w big");
                            out.rec(&run_w(&membe(), mode, base.as_deref(), ops));
                            out.rec(&run_w(&stdbe(), mode, base.as_deref(), ops));
                        }
                    }
                }
            }
            // seeded random: more and larger chunks, arbitrary bytes, flushes anywhere (also repeated), drop at the end
            let nr = if thorough { 60_000 } else { 4_000 };
            for _ in 0..nr / workers {
                let mode = if rng.gen_bool(0.5) { "trunc" } else { "append" };
                let base = if rng.gen_bool(0.2) { None } else { Some(rand_bytes(&mut rng, 6)) };
                let n = rng.gen_range(0..=if thorough { 9 } else { 7 });
                let mut ops: Vec<WOp> = (0..n)
                    .map(|_| if rng.gen_bool(0.35) { WOp::Flush } else { WOp::Write(rand_bytes(&mut rng, if thorough { 24 } else { 8 })) })
                    .collect();
                ops.push(WOp::Drop);
                id += 1;
                prog.mark(id, &format!("w {} {:?} {:?}", mode, base, ops));
                out.rec(&run_w(&membe(), mode, base.as_deref(), &ops));
                out.rec(&run_w(&stdbe(), mode, base.as_deref(), &ops));
            }
        },
        "wr" => {
            // C13: the same sequences on a backend used directly and through the Vfs enum - the transcripts must be identical
            let seqs = all_wseqs(&pattern, if thorough { 5 } else { 4 }, 3);
            let bases: Vec<Option<Vec<u8>>> = vec![None, Some(vec![0x62, 0x0A, 0xE9])];
            for mode in ["trunc", "append"] {
                for base in &bases {
                    for ops in &seqs {
                        if mine(&mut id) {
                            prog.mark(id, &format!("wr {} {:?} {:?}", mode, base, ops));
                            let sp = next();
                            let d = run_w(&Be { name: "stdfs", vfs: Stdfs::new(), file: sandbox.join("f"), spell: sp }, mode, base.as_deref(), ops);
                            let v = run_w(&Be { name: "stdfs", vfs: Vfs::stdfs(), file: sandbox.join("f"), spell: sp }, mode, base.as_deref(), ops);
                            out.rec(&json!({"k": "wr", "be": "stdfs", "what": "w", "direct": d, "via": v}));
                            let d = run_w(&Be { name: "memfs", vfs: Memfs::new(), file: PathBuf::from("/f"), spell: sp }, mode, base.as_deref(), ops);
                            let v = run_w(&Be { name: "memfs", vfs: Vfs::memfs(), file: PathBuf::from("/f"), spell: sp }, mode, base.as_deref(), ops);
                            out.rec(&json!({"k": "wr", "be": "memfs", "what": "w", "direct": d, "via": v}));
                        }
                    }
                }
            }
            let reduced = rop_domain(4, 5, (-3, 3), (-4, 2));
            for ops in &all_rseqs(&reduced, 2) {
                if mine(&mut id) {
                    let data = &pattern[..3];
                    prog.mark(id, &format!("wr-rs {:?}", ops));
                    let sp = next();
                    let d = run_rs(&Be { name: "stdfs", vfs: Stdfs::new(), file: sandbox.join("f"), spell: sp }, data, ops);
                    let v = run_rs(&Be { name: "stdfs", vfs: Vfs::stdfs(), file: sandbox.join("f"), spell: sp }, data, ops);
                    out.rec(&json!({"k": "wr", "be": "stdfs", "what": "rs", "direct": d, "via": v}));
                    let d = run_rs(&Be { name: "memfs", vfs: Memfs::new(), file: PathBuf::from("/f"), spell: sp }, data, ops);
                    let v = run_rs(&Be { name: "memfs", vfs: Vfs::memfs(), file: PathBuf::from("/f"), spell: sp }, data, ops);
                    out.rec(&json!({"k": "wr", "be": "memfs", "what": "rs", "direct": d, "via": v}));
                }
            }
            // a read handle across a rewrite of its file (small: everything fits any read-ahead buffer; large: beyond 8192 bytes)
            let big_a: Vec<u8> = (0..9000u32).map(|i| (i % 251) as u8).collect();
            let big_b: Vec<u8> = (0..9000u32).map(|i| ((i + 100) % 241) as u8).collect();
            let cases: Vec<(&[u8], &[u8], usize)> = vec![(&pattern[..3], &pattern[1..4], 1), (&pattern[..3], &pattern[..1], 0), (&big_a, &big_b, 1),
                                                       (&big_a, &big_b, 8192), (&big_a, &pattern[..3], 1), (&pattern[..3], &big_b, 1)];
            for (a, b, k) in cases {
                if mine(&mut id) {
                    prog.mark(id, "wr-rw");
                    let sp = next();
                    let d = run_rw(&Be { name: "stdfs", vfs: Stdfs::new(), file: sandbox.join("f"), spell: sp }, a, b, k);
                    let v = run_rw(&Be { name: "stdfs", vfs: Vfs::stdfs(), file: sandbox.join("f"), spell: sp }, a, b, k);
                    out.rec(&json!({"k": "wr", "be": "stdfs", "what": "rw", "direct": d, "via": v}));
                    let d = run_rw(&Be { name: "memfs", vfs: Memfs::new(), file: PathBuf::from("/f"), spell: sp }, a, b, k);
                    let v = run_rw(&Be { name: "memfs", vfs: Vfs::memfs(), file: PathBuf::from("/f"), spell: sp }, a, b, k);
                    out.rec(&json!({"k": "wr", "be": "memfs", "what": "rw", "direct": d, "via": v}));
                }
            }
        },
        "wc" => {
            // flush while OTHER threads keep the filesystem busy: every thread writes its own file through a handle, flushes and
            // reads it back at once - what was written so far must be there (C07 "visible at each flush"), however contended the
            // instance is
            use std::sync::atomic::{AtomicBool, Ordering};
            use std::sync::Arc;
            let rounds = if thorough { 12 } else { 4 };
            for round in 0..rounds {
                if !mine(&mut id) {
                    continue;
                }
                prog.mark(id, &format!("wc round {}", round));
                let vfs = Arc::new(Memfs::new());
                let _ = vfs.mkdir_p("/noise/a/b");
                let _ = vfs.write_all("/noise/big", vec![b'x'; 1 << 16]);
                let stop = Arc::new(AtomicBool::new(false));
                let mut noise = vec![];
                for n in 0..3 {
                    let (v, st) = (vfs.clone(), stop.clone());
                    noise.push(std::thread::spawn(move || {
                        while !st.load(Ordering::SeqCst) {
                            match n {
                                0 => drop(v.all_paths("/")),
                                1 => drop(v.read_all("/noise/big")),
                                _ => drop(v.write_all("/noise/w", "y")),
                            }
                        }
                    }));
                }
                let mut writers = vec![];
                for t in 0..4 {
                    let v = vfs.clone();
                    writers.push(std::thread::spawn(move || {
                        let mut pairs: Vec<Value> = vec![];
                        let path = format!("/t{}", t);
                        for k in 0..60u32 {
                            let r = guard(|| -> Option<(Vec<u8>, Vec<u8>)> {
                                let mut h = v.write(&path).ok()?;
                                let mut written = vec![];
                                for part in 0..3u8 {
                                    let d = vec![b'a' + (t as u8), (k % 251) as u8, part];
                                    h.write_all(&d).ok()?;
                                    written.extend_from_slice(&d);
                                    h.flush().ok()?;
                                    let mut seen = vec![];
                                    v.read(&path).ok()?.read_to_end(&mut seen).ok()?;
                                    if seen != written {
                                        return Some((written, seen));
                                    }
                                }
                                None
                            });
                            match r {
                                Ok(None) => pairs.push(json!({"ok": "t", "w": [], "s": []})),
                                Ok(Some((w, s))) => pairs.push(json!({"ok": "f", "w": bytes(&w), "s": bytes(&s)})),
                                Err(_) => pairs.push(json!({"ok": "panic", "w": [], "s": []})),
                            }
                        }
                        pairs
                    }));
                }
                let mut all: Vec<Value> = vec![];
                for w in writers {
                    all.extend(w.join().unwrap_or_default());
                }
                stop.store(true, Ordering::SeqCst);
                for n in noise {
                    let _ = n.join();
                }
                out.rec(&json!({"k": "wc", "be": "memfs", "round": round, "pairs": all}));
            }
        },
        "w2" => {
            let seqs = all_w2seqs(if thorough { 6 } else { 4 });
            for base in [vec![], vec![0x62u8]] {
                for ops in &seqs {
                    if mine(&mut id) {
                        prog.mark(id, &format!("w2 {:?} {:?}", base, ops));
                        out.rec(&run_w2(&membe(), &base, ops));
                        out.rec(&run_w2(&stdbe(), &base, ops));
                    }
                }
            }
        },
        _ => {
            eprintln!("unknown set");
            std::process::exit(2);
        },
    }
    let _ = std::fs::remove_dir_all(&sandbox);
    let n = out.finish();
    eprintln!("handles: {} records", n);
}
