//! C08 driver: runs the REAL `Entries` traversal of rivia on Memfs and on Stdfs for bounded / random trees.
//!
//!   traverse --set ex|rnd --tier quick|thorough --seed N --sandbox DIR --out FILE [--worker i --workers n]
//!            [--stride-free K] [--stride-link K] [--links N] [--two-link-every K] [--rnd-trees N] [--rnd-opts N]
//!
//! set ex : every tree over the names {a, b} with depth <= 2 and at most `--links` links (a link may point to any
//!          path of the namespace incl. "/", itself, another link, a missing path - but never *through* a link)
//!          x every existing root x the option cross-product (thinned by the strides, the phase rotating with
//!          tree and root) x descriptor caps {1, 2, 50} x {Memfs, Stdfs}.
//! set rnd: seeded random trees of at most 12 entries with names of varying length incl. multi-byte ones.
//!
//! Records (ND-JSON):
//!   {"k":"t","set","tid","tree":[{"p":[comps],"k":"dir|file|link","t":[comps],"tk":"dir|file|none|-"}],"root":[comps],
//!    "o":{"filt","follow":"t|f","min","max" (99 = unbounded),"ord":"min|max","cf":"t|f","sort","ix"},
//!    "rk":[{"n":name,"r":rank}],"runs":[{"be":"memfs|stdfs","cap":1|2|50,"s":index into seqs}],
//!    "seqs":[{"o":"ok"|"hang"|"panic"|error kind of entries(),"s":[{"p":[comps],"d":"t|f|-","f","l","e":""|error kind}]}]}
//!   {"k":"ls","set","tid","tree","rk","bes":[{"be","built":"t|f","q":[{"p","exists","is_dir","is_file","is_symlink"}],
//!    "ls":[{"p","op","r":{"o","v":{"ps":[[comps]],"canon","sorted"}}}]}]}
//! Stdfs paths are reported relative to the root directory of the materialised tree.
use std::path::{Path, PathBuf};

use rand::{rngs::StdRng, Rng, SeedableRng};
use rivia::prelude::*;
use rvharness::ops::{apply, call};
use rvharness::*;

const MAXD: u64 = 99;
const ITER_CAP: usize = 10_000;
const CAPS: [u16; 3] = [1, 2, 50];

#[derive(Clone, Debug, PartialEq)]
struct Node {
    p: Vec<String>,
    k: &'static str, // dir | file | link
    t: Vec<String>,
}

#[derive(Clone, Debug)]
struct Tree {
    nodes: Vec<Node>, // parents before children, root first
}

impl Tree {
    fn get(&self, p: &[String]) -> Option<&Node> {
        self.nodes.iter().find(|n| n.p == p)
    }
    /// kind of a path looked at through links (bounded chase)
    fn chase(&self, p: &[String], n: usize) -> &'static str {
        match self.get(p) {
            None => "none",
            Some(x) if x.k != "link" => x.k,
            Some(x) => {
                if n == 0 {
                    "none"
                } else {
                    self.chase(&x.t, n - 1)
                }
            },
        }
    }
    fn tk(&self, n: &Node) -> &'static str {
        if n.k == "link" {
            self.chase(&n.t, 8)
        } else {
            "-"
        }
    }
    fn nlinks(&self) -> usize {
        self.nodes.iter().filter(|n| n.k == "link").count()
    }
    /// no proper prefix of the target is a link (the tree model has no entries below a link)
    fn target_ok(&self, t: &[String]) -> bool {
        (1..t.len()).all(|i| self.get(&t[..i]).map(|x| x.k != "link").unwrap_or(true))
    }
    fn json(&self) -> Value {
        Value::Array(self.nodes.iter().map(|n| json!({"p": n.p, "k": n.k, "t": n.t, "tk": self.tk(n)})).collect())
    }
    /// links ordered so that a link's target is created before it where possible
    fn link_order(&self) -> Vec<&Node> {
        let mut links: Vec<&Node> = self.nodes.iter().filter(|n| n.k == "link").collect();
        let mut out: Vec<&Node> = vec![];
        while !links.is_empty() {
            let pos = links.iter().position(|l| !links.iter().any(|m| m.p != l.p && m.p == l.t)).unwrap_or(0);
            out.push(links.remove(pos));
        }
        out
    }
    fn ranks(&self) -> Value {
        let mut names: Vec<String> = vec![];
        for n in &self.nodes {
            for c in n.p.iter().chain(n.t.iter()) {
                if !names.contains(c) {
                    names.push(c.clone());
                }
            }
        }
        names.sort_by(|a, b| a.as_bytes().cmp(b.as_bytes())); // OsStr order = byte order
        let mut v = vec![json!({"n": "", "r": 0})];
        for (i, n) in names.iter().enumerate() {
            v.push(json!({"n": n, "r": i + 1}));
        }
        Value::Array(v)
    }
}

fn pstr(p: &[String]) -> String {
    format!("/{}", p.join("/"))
}

// ------------------------------------------------------------------ tree generation

fn namespace2() -> Vec<Vec<String>> {
    // the two names: "ab" extends "a" character-wise, so that a string-prefix test where a component-wise one is meant shows
    let names = ["a", "ab"];
    let mut v = vec![];
    for a in names {
        v.push(vec![a.to_string()]);
    }
    for a in names {
        for b in names {
            v.push(vec![a.to_string(), b.to_string()]);
        }
    }
    v
}

/// all trees over {a,b} x depth 2 with at most `maxlinks` links, in a fixed order (link-free trees first)
fn all_trees(maxlinks: usize) -> Vec<Tree> {
    let pos = namespace2(); // a, b, a/a, a/b, b/a, b/b
    let mut targets: Vec<Vec<String>> = vec![vec![]];
    targets.extend(pos.iter().cloned());
    let kinds = ["absent", "file", "dir", "link"];
    let mut out: Vec<Tree> = vec![];
    let mut with_links: Vec<Tree> = vec![];
    for code in 0..4usize.pow(6) {
        let k: Vec<&str> = (0..6).map(|i| kinds[(code / 4usize.pow(i as u32)) % 4]).collect();
        let parent = |i: usize| -> usize { if i == 2 || i == 3 { 0 } else { 1 } };
        if (2..6).any(|i| k[i] != "absent" && k[parent(i)] != "dir") {
            continue;
        }
        let nl = k.iter().filter(|x| **x == "link").count();
        if nl > maxlinks {
            continue;
        }
        let linkpos: Vec<usize> = (0..6).filter(|i| k[*i] == "link").collect();
        let ncomb = targets.len().pow(nl as u32);
        for tc in 0..ncomb {
            let mut nodes = vec![Node { p: vec![], k: "dir", t: vec![] }];
            for i in 0..6 {
                if k[i] == "absent" {
                    continue;
                }
                let kind: &'static str = match k[i] {
                    "file" => "file",
                    "dir" => "dir",
                    _ => "link",
                };
                let t = if kind == "link" {
                    let j = linkpos.iter().position(|x| *x == i).unwrap();
                    targets[(tc / targets.len().pow(j as u32)) % targets.len()].clone()
                } else {
                    vec![]
                };
                nodes.push(Node { p: pos[i].clone(), k: kind, t });
            }
            let tree = Tree { nodes };
            if tree.nodes.iter().filter(|n| n.k == "link").all(|n| tree.target_ok(&n.t)) {
                if nl == 0 {
                    out.push(tree);
                } else {
                    with_links.push(tree);
                }
            }
        }
    }
    with_links.sort_by_key(|t| t.nlinks());
    out.extend(with_links);
    out
}

const RND_NAMES: [&str; 12] = ["a", "b", "ab", "aa", "B", "a.b", "z", "\u{e9}", "\u{65e5}\u{672c}", "a b", "_", "abcdefghijklmnop"];

fn random_tree(rng: &mut StdRng) -> Tree {
    let want = rng.gen_range(2..=12);
    let maxlinks = rng.gen_range(0..=3);
    let mut tree = Tree { nodes: vec![Node { p: vec![], k: "dir", t: vec![] }] };
    let mut tries = 0;
    while tree.nodes.len() < want + 1 && tries < 200 {
        tries += 1;
        let dirs: Vec<Vec<String>> = tree.nodes.iter().filter(|n| n.k == "dir" && n.p.len() < 4).map(|n| n.p.clone()).collect();
        let d = dirs[rng.gen_range(0..dirs.len())].clone();
        let name = RND_NAMES[rng.gen_range(0..RND_NAMES.len())].to_string();
        let mut p = d.clone();
        p.push(name);
        if tree.get(&p).is_some() {
            continue;
        }
        let r = rng.gen_range(0..10);
        let kind: &'static str = if r < 4 {
            "dir"
        } else if r < 8 || tree.nlinks() >= maxlinks {
            "file"
        } else {
            "link"
        };
        let t = if kind == "link" {
            // mostly an existing entry (directories preferred), sometimes a missing path or the link itself
            let c = rng.gen_range(0..10);
            if c < 6 {
                let ds: Vec<&Node> = tree.nodes.iter().filter(|n| n.k == "dir").collect();
                ds[rng.gen_range(0..ds.len())].p.clone()
            } else if c < 8 {
                tree.nodes[rng.gen_range(0..tree.nodes.len())].p.clone()
            } else if c < 9 {
                let mut m = d.clone();
                m.push("missing".to_string());
                m
            } else {
                p.clone()
            }
        } else {
            vec![]
        };
        if kind == "link" && !tree.target_ok(&t) {
            continue;
        }
        tree.nodes.push(Node { p, k: kind, t });
    }
    // parents before children
    tree.nodes.sort_by(|a, b| a.p.len().cmp(&b.p.len()).then(a.p.cmp(&b.p)));
    tree
}

// ------------------------------------------------------------------ options

#[derive(Clone, Debug)]
struct Opts {
    ix: usize,
    filt: &'static str,
    sort: &'static str,
    cf: bool,
    follow: bool,
    min: u64,
    max: u64,
    ord: &'static str,
}

const NOPTS: usize = 1536;

/// same numbering as OptAt in MC_Traversal.tla
fn opt_at(i: usize) -> Opts {
    let filts = ["none", "dirs", "files", "links"];
    let sorts = ["none", "name", "dirs_first", "files_first"];
    let maxes = [0, 1, 2, MAXD];
    Opts {
        ix: i,
        filt: filts[i % 4],
        sort: sorts[(i / 4) % 4],
        cf: (i / 16) % 2 == 1,
        follow: (i / 32) % 2 == 1,
        min: ((i / 64) % 3) as u64,
        max: maxes[(i / 192) % 4],
        ord: if (i / 768) % 2 == 1 { "max" } else { "min" },
    }
}
fn opt_valid(o: &Opts) -> bool {
    o.ord == "min" || o.min > o.max
}
fn opt_json(o: &Opts) -> Value {
    json!({"filt": o.filt, "follow": if o.follow { "t" } else { "f" }, "min": o.min, "max": o.max, "ord": o.ord,
           "cf": if o.cf { "t" } else { "f" }, "sort": o.sort, "ix": o.ix})
}

// ------------------------------------------------------------------ running one traversal

fn rel_comps(p: &Path, strip: &Path) -> Value {
    if strip.as_os_str().is_empty() || strip == Path::new("/") {
        return ops::comps(p);
    }
    match p.strip_prefix(strip) {
        Ok(r) => ops::comps(r),
        Err(_) => {
            let mut v = vec![Value::String("<outside>".to_string())];
            if let Value::Array(a) = ops::comps(p) {
                v.extend(a);
            }
            Value::Array(v)
        },
    }
}

fn tf(b: bool) -> &'static str {
    if b {
        "t"
    } else {
        "f"
    }
}

fn err_item(e: &RvError, strip: &Path) -> Value {
    let p = match e {
        RvError::Path(PathError::LinkLooping(p)) => rel_comps(p, strip),
        RvError::Path(PathError::DoesNotExist(p)) => rel_comps(p, strip),
        _ => json!([]),
    };
    json!({"p": p, "d": "-", "f": "-", "l": "-", "e": err_kind(e)})
}

/// one traversal: entries(root) + options + descriptor cap, iterated to the end (or to the iteration cap)
fn traverse<V: VirtualFileSystem>(vfs: &V, root: &Path, o: &Opts, cap: u16, strip: &Path) -> Value {
    let r = guard(|| -> Value {
        let mut e = match vfs.entries(root) {
            Ok(e) => e,
            Err(err) => return json!({"o": err_kind(&err), "s": []}),
        };
        e = e.verif_max_descriptors(cap);
        e = e.follow(o.follow);
        let umax = if o.max >= MAXD { usize::MAX } else { o.max as usize };
        if o.ord == "min" {
            e = e.min_depth(o.min as usize).max_depth(umax);
        } else {
            e = e.max_depth(umax).min_depth(o.min as usize);
        }
        e = match o.filt {
            "dirs" => e.dirs(),
            "files" => e.files(),
            _ => e,
        };
        e = match o.sort {
            "name" => e.sort_by_name(),
            "dirs_first" => e.dirs_first(),
            "files_first" => e.files_first(),
            _ => e,
        };
        if o.cf {
            e = e.contents_first();
        }
        let mut it = e.into_iter();
        if o.filt == "links" {
            it = it.filter_p(|x| x.is_symlink());
        }
        let mut items: Vec<Value> = vec![];
        loop {
            match it.next() {
                None => break,
                Some(Ok(x)) => items.push(json!({"p": rel_comps(x.path(), strip), "d": tf(x.is_dir()), "f": tf(x.is_file()), "l": tf(x.is_symlink()), "e": ""})),
                Some(Err(err)) => items.push(err_item(&err, strip)),
            }
            if items.len() > ITER_CAP {
                return json!({"o": "hang", "s": []});
            }
        }
        json!({"o": "ok", "s": items})
    });
    match r {
        Ok(v) => v,
        Err(_) => json!({"o": "panic", "s": []}),
    }
}

/// the same traversal with a pre_op installed: one combined log of P (pre_op called on a directory), Y (entry yielded) and
/// E (error item) events in the order they happen.  `fail`: pre_op returns an error for directories with that name.
fn traverse_preop<V: VirtualFileSystem>(vfs: &V, root: &Path, o: &Opts, strip: &Path, fail: &str) -> Value {
    let log: std::sync::Arc<std::sync::Mutex<Vec<Value>>> = Default::default();
    let log2 = log.clone();
    let (strip2, fail2) = (strip.to_path_buf(), fail.to_string());
    let r = guard(move || -> Value {
        let mut e = match vfs.entries(root) {
            Ok(e) => e,
            Err(err) => return json!({"o": err_kind(&err)}),
        };
        e = e.follow(o.follow);
        let umax = if o.max >= MAXD { usize::MAX } else { o.max as usize };
        if o.ord == "min" {
            e = e.min_depth(o.min as usize).max_depth(umax);
        } else {
            e = e.max_depth(umax).min_depth(o.min as usize);
        }
        e = match o.filt {
            "dirs" => e.dirs(),
            "files" => e.files(),
            _ => e,
        };
        e = match o.sort {
            "name" => e.sort_by_name(),
            "dirs_first" => e.dirs_first(),
            "files_first" => e.files_first(),
            _ => e,
        };
        if o.cf {
            e = e.contents_first();
        }
        let log3 = log2.clone();
        e = e.pre_op(move |x| {
            let name = x.path().file_name().map(|n| n.to_string_lossy().to_string()).unwrap_or_default();
            log3.lock().unwrap().push(json!({"t": "P", "p": rel_comps(x.path(), &strip2), "d": "-", "f": "-", "l": "-", "e": ""}));
            if !fail2.is_empty() && name == fail2 {
                return Err(PathError::does_not_exist(x.path()).into());
            }
            Ok(())
        });
        let mut it = e.into_iter();
        if o.filt == "links" {
            it = it.filter_p(|x| x.is_symlink());
        }
        let mut n = 0;
        loop {
            match it.next() {
                None => break,
                Some(Ok(x)) => log2.lock().unwrap().push(json!({"t": "Y", "p": rel_comps(x.path(), strip), "d": tf(x.is_dir()), "f": tf(x.is_file()), "l": tf(x.is_symlink()), "e": ""})),
                Some(Err(err)) => {
                    let it = err_item(&err, strip);
                    log2.lock().unwrap().push(json!({"t": "E", "p": it["p"], "d": "-", "f": "-", "l": "-", "e": it["e"]}));
                },
            }
            n += 1;
            if n > ITER_CAP {
                return json!({"o": "hang"});
            }
        }
        json!({"o": "ok"})
    });
    let ev = log.lock().map(|g| g.clone()).unwrap_or_default();
    match r {
        Ok(v) => json!({"o": v["o"], "ev": ev}),
        Err(_) => json!({"o": "panic", "ev": ev}),
    }
}

// ------------------------------------------------------------------ building a tree on both backends

fn build_memfs(tree: &Tree) -> (Memfs, bool) {
    let m = Memfs::new();
    let ok = guard(|| {
        let mut ok = true;
        for n in tree.nodes.iter().filter(|n| !n.p.is_empty()) {
            match n.k {
                "dir" => ok &= m.mkdir_p(pstr(&n.p)).is_ok(),
                "file" => ok &= m.mkfile(pstr(&n.p)).is_ok(),
                _ => {},
            }
        }
        for n in tree.link_order() {
            ok &= m.symlink(pstr(&n.p), pstr(&n.t)).is_ok();
        }
        ok
    })
    .unwrap_or(false);
    (m, ok)
}

/// plain std::fs, no rivia involved
fn build_std(tree: &Tree, base: &Path) -> bool {
    let _ = std::fs::remove_dir_all(base);
    let mut ok = std::fs::create_dir_all(base).is_ok();
    let at = |p: &[String]| -> PathBuf {
        let mut b = base.to_path_buf();
        for c in p {
            b.push(c);
        }
        b
    };
    for n in tree.nodes.iter().filter(|n| !n.p.is_empty()) {
        match n.k {
            "dir" => ok &= std::fs::create_dir(at(&n.p)).is_ok(),
            "file" => ok &= std::fs::File::create(at(&n.p)).is_ok(),
            _ => {},
        }
    }
    for n in tree.link_order() {
        ok &= std::os::unix::fs::symlink(at(&n.t), at(&n.p)).is_ok();
    }
    ok
}

fn strip_listing(r: &mut Value, nstrip: usize, prefix: &[String]) {
    if r["o"] != "ok" {
        return;
    }
    if let Some(ps) = r["v"]["ps"].as_array_mut() {
        for p in ps.iter_mut() {
            if let Some(a) = p.as_array() {
                let under = a.len() >= nstrip && a.iter().take(nstrip).zip(prefix.iter()).all(|(x, y)| x.as_str() == Some(y.as_str()));
                if under {
                    *p = Value::Array(a[nstrip..].to_vec());
                } else {
                    let mut v = vec![Value::String("<outside>".to_string())];
                    v.extend(a.iter().cloned());
                    *p = Value::Array(v);
                }
            }
        }
    }
}

/// exists / is_dir / is_file / is_symlink for every path of interest and the six listing helpers
fn listing_side<V: VirtualFileSystem>(vfs: &V, be: &str, built: bool, paths: &[Vec<String>], base: &Path) -> Value {
    let prefix: Vec<String> = base.to_str().unwrap_or("").split('/').filter(|x| !x.is_empty()).map(|x| x.to_string()).collect();
    let full = |p: &[String]| -> String {
        let mut b = base.to_path_buf();
        for c in p {
            b.push(c);
        }
        b.to_str().unwrap_or("").to_string()
    };
    let mut q = vec![];
    let mut ls = vec![];
    for p in paths {
        let s = full(p);
        let b = |op: &str| -> Value {
            let r = apply(vfs, &call(op, &s, ""));
            match (r["o"].as_str(), r["v"][0].as_str()) {
                (Some("ok"), Some("true")) => json!("t"),
                (Some("ok"), Some("false")) => json!("f"),
                (Some(o), _) => json!(o), // "panic"
                _ => json!("?"),
            }
        };
        q.push(json!({"p": p, "exists": b("exists"), "is_dir": b("is_dir"), "is_file": b("is_file"), "is_symlink": b("is_symlink")}));
        // the canonical spelling and two absolute spellings that are not clean (a lexical detour, a trailing "."): same answers
        for (si, spell) in [s.clone(), format!("{}/zz/..", s.trim_end_matches('/')), format!("{}/.", s.trim_end_matches('/'))].iter().enumerate() {
            for op in ["paths", "dirs", "files", "all_paths", "all_dirs", "all_files"] {
                if si > 0 && !["paths", "all_dirs", "files"].contains(&op) {
                    continue;
                }
                let mut r = apply(vfs, &call(op, spell, ""));
                if r["o"] != "ok" {
                    r = json!({"o": r["o"], "v": {"ps": [], "canon": "-", "sorted": "-"}});
                }
                strip_listing(&mut r, prefix.len(), &prefix);
                ls.push(json!({"p": p, "op": op, "r": r}));
            }
        }
    }
    json!({"be": be, "built": tf(built), "q": q, "ls": ls})
}

struct Ctx {
    out: Out,
    prog: Progress,
    sandbox: PathBuf,
    set: String,
    id: u64,
}

/// all records of one tree: the listing record and one record per (root, options)
fn do_tree(cx: &mut Ctx, tid: usize, tree: &Tree, pick: &mut dyn FnMut(usize, usize, &Tree) -> Vec<Opts>, extra_paths: &[Vec<String>]) {
    // "!" sorts before every name used: like the real root ("" / None) the tree's root directory is the smallest name
    let base = cx.sandbox.join(format!("!t{}", tid));
    cx.id += 1;
    cx.prog.mark(cx.id, &format!("build tree {} {}", tid, tree.json()));
    let (mem, mem_ok) = build_memfs(tree);
    let std_ok = build_std(tree, &base);
    let stdfs = Stdfs::new();
    let tj = tree.json();
    let rk = tree.ranks();

    // listing helpers and predicates
    let mut paths: Vec<Vec<String>> = tree.nodes.iter().map(|n| n.p.clone()).collect();
    for p in extra_paths {
        // paths that lead through a link are outside the tree model (the backends resolve them differently by design)
        if !paths.contains(p) && tree.target_ok(p) {
            paths.push(p.clone());
        }
    }
    cx.id += 1;
    cx.prog.mark(cx.id, &format!("listings tree {} {}", tid, tj));
    // (the wide tree is about the iterator at scale: the per-path listing record - one predicate set per path - is left to the other sets)
    if cx.set != "wide" {
        let lm = listing_side(&mem, "memfs", mem_ok, &paths, Path::new("/"));
        let ls = listing_side(&stdfs, "stdfs", std_ok, &paths, &base);
        cx.out.rec(&json!({"k": "ls", "set": cx.set, "tid": tid, "tree": tj, "rk": rk, "bes": [lm, ls]}));
    }

    // traversals
    for (ri, rn) in tree.nodes.iter().enumerate() {
        for o in pick(tid, ri, tree) {
            cx.id += 1;
            cx.prog.mark(cx.id, &format!("traverse tree {} root {} opts {} {}", tid, pstr(&rn.p), opt_json(&o), tj));
            let mut seqs: Vec<Value> = vec![];
            let mut runs: Vec<Value> = vec![];
            for be in ["memfs", "stdfs"] {
                for cap in CAPS {
                    let s = if be == "memfs" {
                        traverse(&mem, Path::new(&pstr(&rn.p)), &o, cap, Path::new("/"))
                    } else {
                        let mut r = base.clone();
                        for c in &rn.p {
                            r.push(c);
                        }
                        traverse(&stdfs, &r, &o, cap, &base)
                    };
                    let ix = match seqs.iter().position(|x| *x == s) {
                        Some(i) => i,
                        None => {
                            seqs.push(s);
                            seqs.len() - 1
                        },
                    };
                    runs.push(json!({"be": be, "cap": cap, "s": ix + 1}));
                }
            }
            cx.out.rec(&json!({"k": "t", "set": cx.set, "tid": tid, "tree": tj, "root": rn.p, "o": opt_json(&o), "rk": rk, "runs": runs, "seqs": seqs}));
            // every third option set also with a pre_op installed (always Ok / failing on directories named "a")
            if o.ix % 3 == 0 {
                for fail in ["", "a"] {
                    if !fail.is_empty() && o.follow {
                        continue; // a failing pre_op is only judged without follow
                    }
                    let mut sides = vec![];
                    for be in ["memfs", "stdfs"] {
                        let mut v = if be == "memfs" {
                            traverse_preop(&mem, Path::new(&pstr(&rn.p)), &o, Path::new("/"), fail)
                        } else {
                            let mut r = base.clone();
                            for c in &rn.p {
                                r.push(c);
                            }
                            traverse_preop(&stdfs, &r, &o, &base, fail)
                        };
                        v["be"] = json!(be);
                        sides.push(v);
                    }
                    cx.out.rec(&json!({"k": "tp", "set": cx.set, "tid": tid, "tree": tj, "root": rn.p, "o": opt_json(&o), "rk": rk, "fail": fail, "sides": sides}));
                }
            }
        }
    }
    let _ = std::fs::remove_dir_all(&base);
}

fn main() {
    silence_panics();
    let set = arg_or("set", "ex");
    let tier = arg_or("tier", "quick");
    let thorough = tier == "thorough";
    let seed = arg_u64("seed", 1);
    let worker = arg_u64("worker", 0) as usize;
    let workers = arg_u64("workers", 1) as usize;
    let sandbox = PathBuf::from(arg_or("sandbox", "/dev/shm/rvh-traverse")).join(format!("w{:02}", worker));
    let _ = std::fs::remove_dir_all(&sandbox);
    if std::fs::create_dir_all(&sandbox).is_err() {
        eprintln!("cannot create sandbox {:?}", sandbox);
        std::process::exit(2);
    }
    let mut cx = Ctx { out: Out::create(arg_or("out", "/dev/stdout")), prog: Progress::from_env(), sandbox: sandbox.clone(), set: set.clone(), id: 0 };
    match set.as_str() {
        "ex" => {
            let links = arg_u64("links", 2) as usize;
            let stride_free = arg_u64("stride-free", if thorough { 2 } else { 16 }) as usize;
            let stride_link = arg_u64("stride-link", if thorough { 12 } else { 128 }) as usize;
            let stride_link2 = arg_u64("stride-link2", if thorough { 64 } else { 1024 }) as usize;
            let ns = namespace2();
            let mut extra = ns.clone();
            extra.push(vec!["missing".to_string()]);
            let trees = all_trees(links);
            for (tid, tree) in trees.iter().enumerate() {
                if tid % workers != worker {
                    continue;
                }
                let mut pick = |tid: usize, ri: usize, tree: &Tree| -> Vec<Opts> {
                    let st = match tree.nlinks() {
                        0 => stride_free,
                        1 => stride_link,
                        _ => stride_link2,
                    };
                    let off = (tid * 7 + ri * 3) % st;
                    (0..NOPTS).filter(|i| i % st == off).map(opt_at).filter(opt_valid).collect()
                };
                do_tree(&mut cx, tid, tree, &mut pick, &extra);
            }
        },
        "rnd" => {
            let ntrees = arg_u64("rnd-trees", if thorough { 6000 } else { 400 }) as usize;
            let nopts = arg_u64("rnd-opts", if thorough { 10 } else { 6 }) as usize;
            for tid in 0..ntrees {
                if tid % workers != worker {
                    continue;
                }
                let mut rng = StdRng::seed_from_u64(seed.wrapping_mul(1_000_003).wrapping_add(tid as u64));
                let tree = random_tree(&mut rng);
                let mut rng2 = StdRng::seed_from_u64(seed.wrapping_mul(7_000_003).wrapping_add(tid as u64));
                let nroots = tree.nodes.len();
                let mut pick = |_tid: usize, ri: usize, _tree: &Tree| -> Vec<Opts> {
                    // the tree's root always, two other roots at random; nopts random combinations each
                    let take = ri == 0 || rng2.gen_range(0..nroots) < 2;
                    if !take {
                        return vec![];
                    }
                    let mut v = vec![];
                    while v.len() < nopts {
                        let o = opt_at(rng2.gen_range(0..NOPTS));
                        if opt_valid(&o) {
                            v.push(o);
                        }
                    }
                    v
                };
                let extra = vec![vec!["missing".to_string()]];
                do_tree(&mut cx, 1_000_000 + tid, &tree, &mut pick, &extra);
            }
        },
        "wide" => {
            // scale: one directory with more than 255 entries (plus a sub-directory and a link to the wide directory), traversed
            // from the root and from the wide directory under a spread of option combinations
            if worker == 0 {
                let s = |v: &[&str]| -> Vec<String> { v.iter().map(|x| x.to_string()).collect() };
                let mut nodes = vec![Node { p: vec![], k: "dir", t: vec![] }, Node { p: s(&["w"]), k: "dir", t: vec![] }];
                for i in 0..260 {
                    nodes.push(Node { p: vec!["w".to_string(), format!("f{:03}", i)], k: "file", t: vec![] });
                }
                nodes.push(Node { p: s(&["w", "sub"]), k: "dir", t: vec![] });
                nodes.push(Node { p: s(&["w", "sub", "x"]), k: "file", t: vec![] });
                nodes.push(Node { p: s(&["k"]), k: "link", t: s(&["w"]) });
                let tree = Tree { nodes };
                let mut pick = |_tid: usize, ri: usize, _tree: &Tree| -> Vec<Opts> {
                    if ri > 1 {
                        return vec![];
                    }
                    (0..NOPTS).filter(|i| i % 97 == ri * 7).map(opt_at).filter(opt_valid).collect()
                };
                do_tree(&mut cx, 2_000_000, &tree, &mut pick, &[]);
            }
        },
        _ => {
            eprintln!("unknown --set {}", set);
            std::process::exit(2);
        },
    }
    let _ = std::fs::remove_dir_all(&sandbox);
    cx.out.finish();
}
