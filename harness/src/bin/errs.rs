//! The error algebra of rivia (src/errors) observed for real: every variant of every own family (built directly and through
//! its snake_case constructor), the std families that can be built without further crates (Io, Var, Utf8, SystemTime), the
//! `From<&str>` route and the `?` route, each with a payload alphabet.  One record per error value: what RvError reports
//! (family position, variant, Display, as_ref / as_mut Display, the set of types `is::<T>()` accepts, downcast_ref /
//! downcast_mut at the own type and at every other type, source).  Judged by spec/Trace_Errors.tla against spec/Errors.tla.
use rivia::prelude::*;
use rvharness::*;
use serde_json::{json, Value};
use std::error::Error as StdError;
use std::fmt::Debug;

fn is_set(e: &RvError) -> Vec<&'static str> {
    let mut v = vec![];
    if e.is::<CoreError>() { v.push("Core") }
    if e.is::<FileError>() { v.push("File") }
    if e.is::<std::io::Error>() { v.push("Io") }
    if e.is::<IterError>() { v.push("Iter") }
    if e.is::<PathError>() { v.push("Path") }
    if e.is::<StringError>() { v.push("String") }
    if e.is::<std::time::SystemTimeError>() { v.push("SystemTime") }
    if e.is::<UserError>() { v.push("User") }
    if e.is::<std::str::Utf8Error>() { v.push("Utf8") }
    if e.is::<std::env::VarError>() { v.push("Var") }
    if e.is::<VfsError>() { v.push("Vfs") }
    v
}
fn dc_set(e: &mut RvError) -> (Vec<&'static str>, Vec<&'static str>) {
    let (mut r, mut m) = (vec![], vec![]);
    macro_rules! t { ($ty:ty, $n:expr) => {
        if e.downcast_ref::<$ty>().is_some() { r.push($n) }
        if e.downcast_mut::<$ty>().is_some() { m.push($n) }
    } }
    t!(CoreError, "Core"); t!(FileError, "File"); t!(std::io::Error, "Io"); t!(IterError, "Iter"); t!(PathError, "Path");
    t!(StringError, "String"); t!(std::time::SystemTimeError, "SystemTime"); t!(UserError, "User"); t!(std::str::Utf8Error, "Utf8");
    t!(std::env::VarError, "Var"); t!(VfsError, "Vfs");
    (r, m)
}
fn split_kind(e: &RvError) -> (String, String) {
    let k = err_kind(e);
    let mut it = k.splitn(2, "::");
    (it.next().unwrap_or("").to_string(), it.next().unwrap_or("").to_string())
}
/// `gres` + the uniform result shape {"o": "ok", "v": ..} (a panic stays {"o": "panic", ..})
fn wrap<F: FnOnce() -> Value>(f: F) -> Value {
    gres(|| r_ok(f()))
}
fn question<T>(orig: T) -> RvResult<()> where RvError: From<T> {
    Err(orig)?
}

/// an own-family value: everything is compared with the original through PartialEq
fn own<T>(out: &mut Out, how: &str, ctor: &str, arg: &str, orig: T)
where T: StdError + PartialEq + Clone + Debug + 'static, RvError: From<T> {
    let rec = wrap(|| {
        let inner_disp = orig.to_string();
        let mut e = RvError::from(orig.clone());
        let (fam, v) = split_kind(&e);
        let dref = match e.downcast_ref::<T>() { Some(x) if *x == orig => "same", Some(_) => "other", None => "none" };
        let dmut = match e.downcast_mut::<T>() { Some(x) if *x == orig => "same", Some(_) => "other", None => "none" };
        let (rs, ms) = dc_set(&mut e);
        let q = question(orig.clone()).unwrap_err();
        let (qf, qv) = split_kind(&q);
        json!({"fam": fam, "v": v, "disp": e.to_string(), "inner": inner_disp, "asref": e.as_ref().to_string(), "asmut": e.as_mut().to_string(),
               "isset": is_set(&e), "dcref": dref, "dcmut": dmut, "refset": rs, "mutset": ms, "source": if e.source().is_some() { "some" } else { "none" },
               "qfam": qf, "qv": qv, "qdisp": q.to_string(), "qsame": if q.downcast_ref::<T>() == Some(&orig) { "same" } else { "differs" }})
    });
    out.rec(&json!({"k": "e", "how": how, "ctor": ctor, "arg": arg, "r": rec}));
}
/// a std-family value (no PartialEq / Clone in general): built twice by the closure
fn foreign<T, F: Fn() -> T>(out: &mut Out, fam: &str, what: &str, mk: F)
where T: StdError + 'static, RvError: From<T> {
    let rec = wrap(|| {
        let inner_disp = mk().to_string();
        let mut e = RvError::from(mk());
        let (f, v) = split_kind(&e);
        let (rs, ms) = dc_set(&mut e);
        let q = question(mk()).unwrap_err();
        let (qf, _) = split_kind(&q);
        json!({"fam": f, "v": v, "disp": e.to_string(), "inner": inner_disp, "asref": e.as_ref().to_string(), "asmut": e.as_mut().to_string(),
               "isset": is_set(&e), "dcref": if e.downcast_ref::<T>().is_some() { "same" } else { "none" }, "dcmut": if e.downcast_mut::<T>().is_some() { "same" } else { "none" },
               "refset": rs, "mutset": ms, "source": if e.source().is_some() { "some" } else { "none" }, "qfam": qf, "qv": "-", "qdisp": q.to_string(), "qsame": "same"})
    });
    out.rec(&json!({"k": "x", "how": what, "ctor": "-", "arg": "", "want": fam, "r": rec}));
}

fn main() {
    silence_panics();
    let mut out = Out::create(arg_or("out", "/dev/stdout"));
    let prog = Progress::from_env();
    let thorough = arg_or("tier", "quick") == "thorough";
    let mut payloads: Vec<String> = ["", "/", "/a/b", "x: y", "0", "a\u{e9}", "~/$X", "rel/./..//p/"].iter().map(|s| s.to_string()).collect();
    if thorough {
        payloads.extend(all_strings(&["/", "a", ".", " ", ":"], 4));
    }
    let mut n = 0u64;
    for a in &payloads {
        n += 1;
        prog.mark(n, a);
        // Core
        own(&mut out, "variant", "-", a, CoreError::Msg(a.clone()));
        own(&mut out, "variant", "-", a, CoreError::PanicCapture(a.clone()));
        own(&mut out, "ctor", "msg", a, CoreError::msg(a));
        own(&mut out, "ctor", "panic_capture", a, CoreError::panic_capture(a));
        // From<&str>
        let rec = wrap(|| {
            let mut e = RvError::from(a.as_str());
            let (fam, v) = split_kind(&e);
            let (rs, ms) = dc_set(&mut e);
            let same = if e.downcast_ref::<CoreError>() == Some(&CoreError::Msg(a.clone())) { "same" } else { "other" };
            json!({"fam": fam, "v": v, "disp": e.to_string(), "inner": a, "asref": e.as_ref().to_string(), "asmut": e.as_mut().to_string(), "isset": is_set(&e),
                   "dcref": same, "dcmut": same, "refset": rs, "mutset": ms, "source": if e.source().is_some() { "some" } else { "none" },
                   "qfam": "Core", "qv": "Msg", "qdisp": a, "qsame": "same"})
        });
        out.rec(&json!({"k": "s", "how": "str", "ctor": "-", "arg": a, "r": rec}));
        // Path: every variant with a payload, directly and through its constructor
        let p = std::path::PathBuf::from(a);
        macro_rules! pv { ($var:ident, $ctor:ident) => {
            own(&mut out, "variant", "-", a, PathError::$var(p.clone()));
            own(&mut out, "ctor", stringify!($ctor), a, PathError::$ctor(&p));
        } }
        pv!(DirContainsFiles, dir_contains_files); pv!(DirDoesNotMatchParent, dir_does_not_match_parent); pv!(DoesNotExist, does_not_exist);
        pv!(ExistsAlready, exists_already); pv!(ExtensionNotFound, extension_not_found); pv!(FailedToString, failed_to_string);
        pv!(FileNameNotFound, filename_not_found); pv!(InvalidExpansion, invalid_expansion); pv!(IsNotDir, is_not_dir); pv!(IsNotExec, is_not_exec);
        pv!(IsNotFile, is_not_file); pv!(IsNotSymlink, is_not_symlink); pv!(IsNotFileOrSymlinkToFile, is_not_file_or_symlink_to_file);
        pv!(LinkLooping, link_looping); pv!(MultipleHomeSymbols, multiple_home_symbols); pv!(ParentNotFound, parent_not_found);
        // Vfs text carriers
        own(&mut out, "variant", "-", a, VfsError::InvalidChmod(a.clone()));
        own(&mut out, "variant", "-", a, VfsError::InvalidChmodGroup(a.clone()));
        own(&mut out, "variant", "-", a, VfsError::InvalidChmodOp(a.clone()));
        own(&mut out, "variant", "-", a, VfsError::InvalidChmodPermissions(a.clone()));
        own(&mut out, "variant", "-", a, VfsError::InvalidChmodTarget(a.clone()));
    }
    // payload-free variants
    own(&mut out, "variant", "-", "", CoreError::PanicCaptureFailure);
    own(&mut out, "variant", "-", "", FileError::FailedToExtractString);
    own(&mut out, "variant", "-", "", FileError::InsertLocationNotFound);
    own(&mut out, "variant", "-", "", IterError::ItemNotFound);
    own(&mut out, "variant", "-", "", IterError::MultipleItemsFound);
    own(&mut out, "variant", "-", "", IterError::MutuallyExclusiveIndicies);
    own(&mut out, "ctor", "item_not_found", "", IterError::item_not_found());
    own(&mut out, "ctor", "multiple_items_found", "", IterError::multiple_items_found());
    own(&mut out, "ctor", "mutually_exclusive_indices", "", IterError::mutually_exclusive_indices());
    own(&mut out, "variant", "-", "", PathError::Empty);
    own(&mut out, "variant", "-", "", StringError::FailedToString);
    own(&mut out, "variant", "-", "", VfsError::Unavailable);
    own(&mut out, "variant", "-", "", VfsError::WrongProvider);
    for uid in [0u32, 1, 1000, 65534, u32::MAX] {
        own(&mut out, "variant", "-", &uid.to_string(), UserError::DoesNotExistById(uid));
        own(&mut out, "ctor", "does_not_exist_by_id", &uid.to_string(), UserError::does_not_exist_by_id(uid));
    }
    // std families
    use std::io::ErrorKind::*;
    for k in [NotFound, PermissionDenied, AlreadyExists, InvalidInput, InvalidData, UnexpectedEof, Other] {
        foreign(&mut out, "Io", "io::Error::new", move || std::io::Error::new(k, "boom"));
    }
    for code in [1, 2, 13, 17, 20, 21, 39, 40] {
        foreign(&mut out, "Io", "io::Error::from_raw_os_error", move || std::io::Error::from_raw_os_error(code));
    }
    foreign(&mut out, "Var", "VarError::NotPresent", || std::env::VarError::NotPresent);
    foreign(&mut out, "Var", "VarError::NotUnicode", || std::env::VarError::NotUnicode(std::ffi::OsString::from("x")));
    foreign(&mut out, "Utf8", "from_utf8", || std::str::from_utf8(&[0u8, 159, 146, 150]).unwrap_err());
    foreign(&mut out, "Utf8", "from_utf8 (truncated)", || std::str::from_utf8(&[b'a', 0xe2, 0x82]).unwrap_err());
    foreign(&mut out, "SystemTime", "duration_since", || {
        let t1 = std::time::UNIX_EPOCH;
        let t2 = t1 + std::time::Duration::from_secs(5);
        t1.duration_since(t2).unwrap_err()
    });
    out.finish();
}
