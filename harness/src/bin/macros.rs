//! C20 - the assert_vfs_* macros as test oracles (DESIGN 5, `macros`).
//!
//! Real Memfs states are reached by BFS (state = projection, re-created by replaying its call path on a
//! fresh Memfs, as in bfs.rs) over names x depth with <= `links` links and data {"", "x"}.  For every state
//! (or every `stride`-th in BFS order) every macro is invoked for every path of the namespace (two-argument
//! macros: every pair / data value / mode) under `guard` on a fresh replay of that state; one GROUP record
//! per pre-state:
//!   {"k":"g","be":"memfs"|"stdfs","own":{"uid","gid"},"pre":REP,
//!    "steps":[{"c":CALL,"pn":"t|f","msg":STRING,"mn":"t|f","mp":"t|f","mq":"t|f","same":"t|f","post":REP or []}]}
//! CALL is the ops.rs call object (op = macro name without the `assert_vfs_` prefix) with three more fields:
//! "rok"/"rc" = whether / to which components the harness expects the first argument to resolve (only used
//! for the message flags; the validator re-derives it with PathLex) and "relabs" for readlink's expectation.
//! pn = panicked; mn / mp / mq = the panic message contains the macro's own name / the (resolved) first path /
//! the (resolved) second path.  The same trees (<= 1 link) are materialised with std::fs below --sandbox and
//! the macros run on `Vfs::stdfs()`; REP of the sandbox is rebuilt from the real directory tree.
//!   macros --names a,b --depth 2 --links 1 --stride 1 --stdfs-stride 1 --threads 16 --sandbox DIR --out PREFIX
use std::collections::HashMap;
use std::os::unix::fs::{MetadataExt, PermissionsExt};
use std::sync::atomic::{AtomicU64, Ordering};
use std::sync::Mutex;

use rivia::prelude::*;
use rvharness::ops::*;
use rvharness::*;

// ------------------------------------------------------------------------------------------------ invocation

const CHECK1: [&str; 8] = ["exists", "no_exists", "is_dir", "no_dir", "is_file", "no_file", "is_symlink", "no_symlink"];
const ACT1: [&str; 4] = ["mkdir_p", "mkfile", "remove", "remove_all"];

/// one macro invocation; Err(message) when it panicked
fn invoke<V: VirtualFileSystem>(v: &V, mac: &str, a: &Path, b: &Path, d: &[u8], m: u32) -> Result<(), String> {
    let ds = String::from_utf8_lossy(d).to_string();
    guard(|| match mac {
        "exists" => {
            assert_vfs_exists!(v, a);
        },
        "no_exists" => {
            assert_vfs_no_exists!(v, a);
        },
        "is_dir" => {
            assert_vfs_is_dir!(v, a);
        },
        "no_dir" => {
            assert_vfs_no_dir!(v, a);
        },
        "is_file" => {
            assert_vfs_is_file!(v, a);
        },
        "no_file" => {
            assert_vfs_no_file!(v, a);
        },
        "is_symlink" => {
            assert_vfs_is_symlink!(v, a);
        },
        "no_symlink" => {
            assert_vfs_no_symlink!(v, a);
        },
        "read_all" => {
            assert_vfs_read_all!(v, a, ds);
        },
        "readlink" => {
            assert_vfs_readlink!(v, a, b);
        },
        "readlink_abs" => {
            assert_vfs_readlink_abs!(v, a, b);
        },
        "mkdir_p" => {
            assert_vfs_mkdir_p!(v, a);
        },
        "mkdir_m" => {
            assert_vfs_mkdir_m!(v, a, m);
        },
        "mkfile" => {
            assert_vfs_mkfile!(v, a);
        },
        "write_all" => {
            assert_vfs_write_all!(v, a, d);
        },
        "copyfile" => {
            assert_vfs_copyfile!(v, a, b);
        },
        "symlink" => {
            assert_vfs_symlink!(v, a, b);
        },
        "remove" => {
            assert_vfs_remove!(v, a);
        },
        "remove_all" => {
            assert_vfs_remove_all!(v, a);
        },
        _ => panic!("harness: unknown macro {}", mac),
    })
}

/// does `msg` name the path `p`: its Debug form, or its plain spelling delimited by blanks / ends
fn names_path(msg: &str, p: &str) -> bool {
    if msg.contains(&format!("{:?}", Path::new(p))) {
        return true;
    }
    if p.is_empty() {
        return false;
    }
    let mut from = 0;
    while let Some(i) = msg[from..].find(p) {
        let s = from + i;
        let e = s + p.len();
        let before = s == 0 || msg[..s].ends_with(|c: char| c.is_whitespace());
        let after = e == msg.len() || msg[e..].starts_with(|c: char| c.is_whitespace());
        if before && after {
            return true;
        }
        from = s + 1;
        if from >= msg.len() {
            break;
        }
    }
    false
}

fn tf(b: bool) -> &'static str {
    if b { "t" } else { "f" }
}

// ------------------------------------------------------------------------------------------------ arguments

/// One argument spelling: what is handed to the macro, what it resolves to (None: abs() must fail) and the
/// components below the tree root (for the validator; syntactic)
#[derive(Clone)]
struct Arg {
    raw: String,
    res: Option<String>,
    comps: Vec<String>,
    canon: bool,
}

fn comps_str(cs: &[String]) -> String {
    format!("/{}", cs.join("/"))
}

fn namespace(names: &[String], depth: usize) -> Vec<Vec<String>> {
    let mut out: Vec<Vec<String>> = vec![vec![]];
    let mut layer: Vec<Vec<String>> = vec![vec![]];
    for _ in 0..depth {
        let mut next = vec![];
        for s in &layer {
            for n in names {
                let mut q = s.clone();
                q.push(n.clone());
                next.push(q);
            }
        }
        out.extend(next.iter().cloned());
        layer = next;
    }
    out
}

/// navigation from directory `from` to `to` (the harness' own arithmetic; the validator checks it with RelC)
fn rel(from: &[String], to: &[String]) -> Vec<String> {
    let mut n = 0;
    while n < from.len() && n < to.len() && from[n] == to[n] {
        n += 1;
    }
    let mut out: Vec<String> = (0..from.len() - n).map(|_| "..".to_string()).collect();
    out.extend(to[n..].iter().cloned());
    out
}

/// the call object of one invocation
fn mcall(mac: &str, prefix: &str, a: &Arg, b: Option<&Arg>, d: &[u8], m: u32) -> Value {
    let mut c = call_d(mac, &a.raw, d);
    c["m"] = json!(m);
    c["ac"] = json!(a.comps);
    c["aok"] = json!(if a.canon { "t" } else { "f" });
    c["rok"] = json!(tf(a.res.is_some()));
    c["rc"] = json!(a.comps);
    c["relabs"] = json!("f");
    // fields of the shared call object that no macro uses: dropped to keep the records small
    if let Some(o) = c.as_object_mut() {
        for k in ["n", "s", "ls", "f"] {
            o.remove(k);
        }
    }
    if let Some(b) = b {
        c["b"] = chars(&b.raw);
        c["bc"] = json!(b.comps);
        c["bok"] = json!(if b.canon { "t" } else { "f" });
    }
    let _ = prefix;
    c
}

struct Plan {
    /// first-argument spellings, second-argument spellings
    p1: Vec<Arg>,
    p1_extra: Vec<Arg>, // unresolvable / non-canonical spellings (single-path macros and first argument only)
    p2: Vec<Arg>,
    modes: Vec<u32>,
    datas: Vec<Vec<u8>>,
}

fn plan(prefix: &str, paths: &[Vec<String>], with_root: bool, with_extra: bool) -> Plan {
    let mk = |cs: &Vec<String>| -> Arg {
        let s = if cs.is_empty() { if prefix.is_empty() { "/".to_string() } else { prefix.to_string() } } else { format!("{}{}", prefix, comps_str(cs)) };
        Arg { raw: s.clone(), res: Some(s), comps: cs.clone(), canon: true }
    };
    let all: Vec<Arg> = paths.iter().map(mk).collect();
    let p1: Vec<Arg> = all.iter().filter(|a| with_root || !a.comps.is_empty()).cloned().collect();
    let mut p1_extra = vec![];
    if with_extra {
        p1_extra.push(Arg { raw: "".to_string(), res: None, comps: vec![], canon: false });
        if paths.iter().any(|p| p.len() == 1) {
            // a relative, unclean spelling of the first one-component path (cwd of every explored state is the root)
            let n = paths.iter().find(|p| p.len() == 1).unwrap()[0].clone();
            let other = paths.iter().filter(|p| p.len() == 1).last().unwrap()[0].clone();
            p1_extra.push(Arg { raw: format!("{}/../{}", other, n), res: Some(format!("/{}", n)), comps: vec![n], canon: false });
        }
    }
    Plan { p1, p1_extra, p2: all, modes: vec![0o40755, 0o40700, 0o700], datas: vec![vec![], b"x".to_vec()] }
}

/// the invocations of the checking macros: (macro, a, b, data, mode, call)
fn checking_calls(pl: &Plan, prefix: &str) -> Vec<(String, Arg, Option<Arg>, Vec<u8>, u32, Value)> {
    let mut v = vec![];
    let firsts: Vec<Arg> = pl.p1.iter().chain(pl.p1_extra.iter()).cloned().collect();
    for a in &firsts {
        for mac in CHECK1 {
            v.push((mac.to_string(), a.clone(), None, vec![], 0, mcall(mac, prefix, a, None, &[], 0)));
        }
        // also expectations that differ from the fixture's contents by a line terminator only
        for d in pl.datas.iter().chain([b"x\n".to_vec(), b"\n".to_vec(), b"x\r\n".to_vec()].iter()) {
            v.push(("read_all".to_string(), a.clone(), None, d.clone(), 0, mcall("read_all", prefix, a, None, d, 0)));
        }
    }
    for a in &pl.p1 {
        // readlink: the navigation from the link's directory to every path of the namespace, and one absolute spelling
        let parent: Vec<String> = if a.comps.is_empty() { vec![] } else { a.comps[..a.comps.len() - 1].to_vec() };
        for q in &pl.p2 {
            let r = rel(&parent, &q.comps);
            let b = Arg { raw: r.join("/"), res: None, comps: r, canon: false };
            let mut c = mcall("readlink", prefix, a, Some(&b), &[], 0);
            c["bok"] = json!("r");
            v.push(("readlink".to_string(), a.clone(), Some(b), vec![], 0, c));
        }
        if let Some(q) = pl.p2.iter().find(|q| q.comps.len() == 1) {
            let b = Arg { raw: comps_str(&q.comps), res: None, comps: q.comps.clone(), canon: false };
            let mut c = mcall("readlink", prefix, a, Some(&b), &[], 0);
            c["bok"] = json!("r");
            c["relabs"] = json!("t");
            v.push(("readlink".to_string(), a.clone(), Some(b), vec![], 0, c));
        }
        // the right components under a spelling that is not the link's text ("./x", "x/", "x//y"): the reading of a link is a text
        for q in pl.p2.iter().take(3) {
            let r = rel(&parent, &q.comps);
            if r.is_empty() {
                continue;
            }
            for raw in [format!("./{}", r.join("/")), format!("{}/", r.join("/")), r.join("//")] {
                if raw == r.join("/") {
                    continue;
                }
                let b = Arg { raw, res: None, comps: r.clone(), canon: false };
                let mut c = mcall("readlink", prefix, a, Some(&b), &[], 0);
                c["bok"] = json!("r");
                c["bc"] = json!(r);
                c["relabs"] = json!("u");
                v.push(("readlink".to_string(), a.clone(), Some(b), vec![], 0, c));
            }
        }
        for q in &pl.p2 {
            v.push(("readlink_abs".to_string(), a.clone(), Some(q.clone()), vec![], 0, mcall("readlink_abs", prefix, a, Some(q), &[], 0)));
        }
    }
    if let (Some(e), Some(q)) = (pl.p1_extra.first(), pl.p2.get(1)) {
        // unresolvable first / second argument of the two-path checking macro
        v.push(("readlink_abs".to_string(), e.clone(), Some(q.clone()), vec![], 0, mcall("readlink_abs", prefix, e, Some(q), &[], 0)));
        v.push(("readlink_abs".to_string(), q.clone(), Some(e.clone()), vec![], 0, mcall("readlink_abs", prefix, q, Some(e), &[], 0)));
    }
    v
}

fn acting_calls(pl: &Plan, prefix: &str, subset: bool) -> Vec<(String, Arg, Option<Arg>, Vec<u8>, u32, Value)> {
    let mut v = vec![];
    let firsts: Vec<Arg> = pl.p1.iter().chain(pl.p1_extra.iter()).cloned().collect();
    for a in &firsts {
        for mac in ACT1 {
            v.push((mac.to_string(), a.clone(), None, vec![], 0, mcall(mac, prefix, a, None, &[], 0)));
        }
        for d in pl.datas.iter().chain(std::iter::once(&vec![0xffu8, b'y'])) {
            // (the third value is not valid UTF-8: the macro must compare bytes, not text)
            v.push(("write_all".to_string(), a.clone(), None, d.clone(), 0, mcall("write_all", prefix, a, None, d, 0)));
        }
        for m in &pl.modes {
            if subset && *m != pl.modes[1] {
                continue;
            }
            v.push(("mkdir_m".to_string(), a.clone(), None, vec![], *m, mcall("mkdir_m", prefix, a, None, &[], *m)));
        }
    }
    for a in &pl.p1 {
        for q in &pl.p2 {
            v.push(("copyfile".to_string(), a.clone(), Some(q.clone()), vec![], 0, mcall("copyfile", prefix, a, Some(q), &[], 0)));
            v.push(("symlink".to_string(), a.clone(), Some(q.clone()), vec![], 0, mcall("symlink", prefix, a, Some(q), &[], 0)));
        }
    }
    // symlink! with the target spelled relative to the link's directory (what vfs.symlink documents): the link has to point where
    // that spelling leads FROM THE LINK, whatever the cwd is
    for a in pl.p1.iter().filter(|a| a.comps.len() >= 2) {
        let parent: Vec<String> = a.comps[..a.comps.len() - 1].to_vec();
        for q in pl.p2.iter().filter(|q| !q.comps.is_empty()) {
            let r = rel(&parent, &q.comps);
            if r.is_empty() {
                continue;
            }
            let b = Arg { raw: r.join("/"), res: None, comps: q.comps.clone(), canon: false };
            let mut c = mcall("symlink", prefix, a, Some(&b), &[], 0);
            c["bc"] = json!(q.comps);
            c["bok"] = json!("t");
            v.push(("symlink".to_string(), a.clone(), Some(b), vec![], 0, c));
        }
    }
    if let (Some(e), Some(q)) = (pl.p1_extra.first(), pl.p2.get(1)) {
        // (an empty symlink TARGET is not issued: the target is documented to be taken relative to the link's directory and
        // whether "" then means that directory or is an error belongs to C10, not to the macro)
        for mac in ["copyfile", "symlink"] {
            v.push((mac.to_string(), e.clone(), Some(q.clone()), vec![], 0, mcall(mac, prefix, e, Some(q), &[], 0)));
            if mac == "copyfile" {
                v.push((mac.to_string(), q.clone(), Some(e.clone()), vec![], 0, mcall(mac, prefix, q, Some(e), &[], 0)));
            }
        }
    }
    v
}

fn step(c: &Value, r: &Result<(), String>, a: &Arg, b: &Option<Arg>, same: bool, post: Value) -> Value {
    let mac = c["op"].as_str().unwrap_or("");
    let (pn, msg) = match r {
        Ok(_) => (false, String::new()),
        Err(m) => (true, m.clone()),
    };
    let apath = a.res.clone().unwrap_or_else(|| a.raw.clone());
    let mn = pn && msg.contains(&format!("assert_vfs_{}!", mac));
    let mp = pn && names_path(&msg, &apath);
    let mq = pn
        && match b {
            Some(b) => names_path(&msg, &b.res.clone().unwrap_or_else(|| b.raw.clone())),
            None => false,
        };
    let short: String = msg.chars().take(200).collect();
    json!({"c": c, "pn": tf(pn), "msg": short, "mn": tf(mn), "mp": tf(mp), "mq": tf(mq), "same": tf(same), "post": if same { json!([]) } else { post }})
}

// ------------------------------------------------------------------------------------------------ Memfs BFS

struct Cfg {
    names: Vec<String>,
    depth: usize,
    links: usize,
    maxdata: usize,
}

/// calls that generate the bounded state space (every tree of the bound is reachable with them: an empty file is
/// mkfile, content "x" is write_all, anything is taken away again with remove; links by symlink)
fn mutators(cfg: &Cfg, paths: &[String]) -> Vec<Value> {
    let mut v = vec![];
    for p in paths {
        v.push(call("mkfile", p, ""));
        v.push(call("mkdir_p", p, ""));
        v.push(call_d("write_all", p, b"x"));
        v.push(call("remove", p, ""));
    }
    if cfg.links > 0 {
        for a in paths {
            for b in paths {
                v.push(call("symlink", a, b));
            }
        }
    }
    v
}

fn svec(v: &Value) -> Vec<String> {
    v.as_array().map(|a| a.iter().map(|x| x.as_str().unwrap_or("").to_string()).collect()).unwrap_or_default()
}

/// structural check deciding whether a state is part of the bounded exploration (same as bfs.rs)
fn expandable(cfg: &Cfg, st: &Value) -> bool {
    if st["po"] != "f" || st.get("err").is_some() {
        return false;
    }
    let ents = match st["e"].as_array() {
        Some(e) => e,
        None => return false,
    };
    let mut kinds: HashMap<Vec<String>, (String, Vec<String>)> = HashMap::new();
    let mut nlinks = 0;
    for e in ents {
        let p = svec(&e["p"]);
        if p.len() > cfg.depth || p.iter().any(|n| !cfg.names.contains(n)) || e["kc"] != "t" || e["pk"] != "t" {
            return false;
        }
        let k = e["k"].as_str().unwrap_or("").to_string();
        if k.starts_with('l') {
            nlinks += 1;
        }
        if e["uid"] != 1000 || e["gid"] != 1000 {
            return false;
        }
        kinds.insert(p, (k, svec(&e["ch"])));
    }
    if nlinks > cfg.links {
        return false;
    }
    for p in kinds.keys() {
        if !p.is_empty() {
            match kinds.get(&p[..p.len() - 1].to_vec()) {
                Some((k, ch)) if k == "d" && ch.contains(&p[p.len() - 1]) => {},
                _ => return false,
            }
        }
    }
    for (p, (k, ch)) in kinds.iter() {
        if k != "d" && !ch.is_empty() {
            return false;
        }
        for n in ch {
            let mut q = p.clone();
            q.push(n.clone());
            if !kinds.contains_key(&q) {
                return false;
            }
        }
    }
    let files = match st["f"].as_array() {
        Some(f) => f,
        None => return false,
    };
    if files.len() != kinds.values().filter(|(k, _)| k == "f").count() {
        return false;
    }
    for f in files {
        match kinds.get(&svec(&f["p"])) {
            Some((k, _)) if k == "f" => {},
            _ => return false,
        }
        if f["d"].as_array().map(|d| d.len()).unwrap_or(99) > cfg.maxdata {
            return false;
        }
    }
    true
}

// ------------------------------------------------------------------------------------------------ Stdfs sandbox

/// a tree to materialise: (components, kind d|f|l, data, link target components)
type Tree = Vec<(Vec<String>, char, Vec<u8>, Vec<String>)>;

fn tree_of(rep: &Value) -> Tree {
    let mut data: HashMap<Vec<String>, Vec<u8>> = HashMap::new();
    for f in rep["f"].as_array().unwrap() {
        data.insert(svec(&f["p"]), f["d"].as_array().unwrap().iter().map(|x| x.as_u64().unwrap_or(0) as u8).collect());
    }
    let mut t: Tree = vec![];
    for e in rep["e"].as_array().unwrap() {
        let p = svec(&e["p"]);
        let k = e["k"].as_str().unwrap_or("");
        let kind = if k.starts_with('l') { 'l' } else if k == "d" { 'd' } else { 'f' };
        let d = data.get(&p).cloned().unwrap_or_default();
        t.push((p, kind, d, svec(&e["alt"])));
    }
    t.sort_by(|a, b| (a.0.len(), &a.0).cmp(&(b.0.len(), &b.0)));
    t
}

fn materialise(sb: &Path, t: &Tree) {
    let _ = std::fs::remove_dir_all(sb);
    for (p, kind, d, target) in t {
        let mut path = sb.to_path_buf();
        for c in p {
            path.push(c);
        }
        match kind {
            'd' => {
                std::fs::create_dir(&path).expect("sandbox mkdir");
                std::fs::set_permissions(&path, std::fs::Permissions::from_mode(0o755)).unwrap();
            },
            'f' => {
                std::fs::write(&path, d).expect("sandbox write");
                std::fs::set_permissions(&path, std::fs::Permissions::from_mode(0o644)).unwrap();
            },
            _ => {
                // relative link text, the way Stdfs::symlink itself records a target ("." for the link's own directory)
                let r = rel(&p[..p.len() - 1], target);
                let text = if r.is_empty() { ".".to_string() } else { r.join("/") };
                std::os::unix::fs::symlink(&text, &path).expect("sandbox symlink");
            },
        }
    }
}

/// REP of the real directory tree below `sb` (same shape as memproj::project; root = the sandbox directory)
fn stdproj(sb: &Path) -> Value {
    fn walk(sb: &Path, dir: &Path, cs: &Vec<String>, ents: &mut Vec<Value>, files: &mut Vec<Value>) {
        let md = match std::fs::symlink_metadata(dir) {
            Ok(m) => m,
            Err(_) => return,
        };
        let ft = md.file_type();
        let mut names: Vec<String> = vec![];
        let mut k = "f".to_string();
        let mut alt: Vec<String> = vec![];
        let mut altc = "t";
        let mut reltext = String::new();
        if ft.is_symlink() {
            let text = std::fs::read_link(dir).map(|t| t.to_string_lossy().to_string()).unwrap_or_default();
            reltext = text.clone();
            // lexical resolution of the link text against the link's directory, then relative to the sandbox
            let base: String = if text.starts_with('/') { String::new() } else { dir.parent().map(|p| p.to_string_lossy().to_string()).unwrap_or_default() };
            let mut stack: Vec<String> = vec![];
            for c in base.split('/').chain(text.split('/')) {
                match c {
                    "" | "." => {},
                    ".." => {
                        stack.pop();
                    },
                    x => stack.push(x.to_string()),
                }
            }
            let sbc: Vec<String> = sb.to_string_lossy().split('/').filter(|x| !x.is_empty()).map(|x| x.to_string()).collect();
            if stack.len() >= sbc.len() && stack[..sbc.len()] == sbc[..] {
                alt = stack[sbc.len()..].to_vec();
            } else {
                alt = vec!["<outside-sandbox>".to_string()];
                altc = "f";
            }
            k = match std::fs::metadata(dir) {
                Ok(m) if m.is_dir() => "ld".to_string(),
                Ok(m) if m.is_file() => "lf".to_string(),
                _ => "l".to_string(),
            };
        } else if ft.is_dir() {
            k = "d".to_string();
            if let Ok(rd) = std::fs::read_dir(dir) {
                names = rd.filter_map(|e| e.ok()).map(|e| e.file_name().to_string_lossy().to_string()).collect();
                names.sort();
            }
        } else if ft.is_file() {
            let d = std::fs::read(dir).unwrap_or_default();
            files.push(json!({"p": cs, "kc": "t", "d": bytes(&d)}));
        } else {
            k = "other".to_string();
        }
        ents.push(json!({"p": cs, "kc": "t", "pk": "t", "k": k, "alt": alt, "altc": altc, "rel": chars(&reltext),
            "mode": md.mode(), "uid": md.uid(), "gid": md.gid(), "fo": "f", "hf": if ft.is_dir() { "t" } else { "f" }, "ch": names}));
        if ft.is_dir() {
            for n in &names {
                let mut q = cs.clone();
                q.push(n.clone());
                walk(sb, &dir.join(n), &q, ents, files);
            }
        }
    }
    let mut ents = vec![];
    let mut files = vec![];
    walk(sb, sb, &vec![], &mut ents, &mut files);
    ents.sort_by(|a, b| comps_str(&svec(&a["p"])).cmp(&comps_str(&svec(&b["p"]))));
    files.sort_by(|a, b| comps_str(&svec(&a["p"])).cmp(&comps_str(&svec(&b["p"]))));
    json!({"cwd": [], "cwdc": "t", "root": [], "rootc": "t", "po": "f", "e": ents, "f": files})
}

// ------------------------------------------------------------------------------------------------ main

fn main() {
    silence_panics();
    limit_memory(6 << 30);
    unsafe {
        libc::umask(0o022);
    }
    let cfg = Cfg {
        names: arg_or("names", "a,b").split(',').map(|x| x.to_string()).collect(),
        depth: arg_u64("depth", 2) as usize,
        links: arg_u64("links", 1) as usize,
        maxdata: arg_u64("maxdata", 1) as usize,
    };
    let threads = arg_u64("threads", 8) as usize;
    let stride = arg_u64("stride", 1).max(1) as usize;
    let std_stride = arg_u64("stdfs-stride", 1) as usize; // 0 = no Stdfs part
    let offset = arg_u64("seed", 1) as usize;
    let maxstates = arg_u64("maxstates", 2_000_000) as usize;
    let sandbox = arg_or("sandbox", "");
    let prefix = arg_or("out", "/dev/shm/macros").trim_end_matches(".ndjson").to_string();
    let nspaths = namespace(&cfg.names, cfg.depth);
    let strpaths: Vec<String> = nspaths.iter().map(|p| comps_str(p)).collect();
    let muts = mutators(&cfg, &strpaths);
    let prog = Progress::from_env();
    let counter = AtomicU64::new(0);

    // ---- 1. reachable states of the real Memfs (projection -> call path), breadth first, deterministic order
    let mut index: HashMap<String, usize> = HashMap::new();
    let mut pathsto: Vec<Vec<u32>> = vec![vec![]];
    index.insert(to_ascii_json(&memproj::project(&Memfs::new())), 0);
    let mut frontier: Vec<usize> = vec![0];
    let mut levels = 0;
    while !frontier.is_empty() && index.len() < maxstates {
        let chunks: Vec<Vec<(usize, usize)>> = (0..threads).map(|t| frontier.iter().cloned().enumerate().skip(t).step_by(threads).collect()).collect();
        let found: Vec<Vec<(usize, String, Vec<u32>)>> = std::thread::scope(|sc| {
            let hs: Vec<_> = chunks
                .iter()
                .enumerate()
                .map(|(t, mine)| {
                    let (cfg, muts, pathsto, prog, counter) = (&cfg, &muts, &pathsto, &prog, &counter);
                    sc.spawn(move || {
                        let mut newst = vec![];
                        for &(rank, si) in mine {
                            let path = &pathsto[si];
                            let prekey = to_ascii_json(&memproj::project(&build(muts, path)));
                            for (ci, c) in muts.iter().enumerate() {
                                let m = build(muts, path);
                                let id = counter.fetch_add(1, Ordering::Relaxed);
                                prog.mark_slot(t, id, &format!("bfs state-path={:?} call={}", path, to_ascii_json(c)));
                                let _ = apply(&m, c);
                                let post = memproj::project(&m);
                                let key = to_ascii_json(&post);
                                if key != prekey && expandable(cfg, &post) {
                                    let mut np = path.clone();
                                    np.push(ci as u32);
                                    newst.push((rank * muts.len() + ci, key, np));
                                }
                            }
                        }
                        newst
                    })
                })
                .collect();
            hs.into_iter().map(|h| h.join().unwrap()).collect()
        });
        let mut all: Vec<(usize, String, Vec<u32>)> = found.into_iter().flatten().collect();
        all.sort_by_key(|x| x.0);
        let mut next = vec![];
        for (_, k, p) in all {
            if !index.contains_key(&k) {
                let i = pathsto.len();
                index.insert(k, i);
                pathsto.push(p);
                next.push(i);
            }
        }
        levels += 1;
        eprintln!("macros: bfs level {} frontier {} -> states {}", levels, frontier.len(), index.len());
        frontier = next;
    }
    let nstates = pathsto.len();

    // ---- 2. the macros on Memfs
    let selected: Vec<usize> = (0..nstates).filter(|i| *i < 8 || (i + offset) % stride == 0).collect();
    let mem_plan = plan("", &nspaths, true, true);
    let mem_check = checking_calls(&mem_plan, "");
    let mem_act = acting_calls(&mem_plan, "", false);
    let outs: Vec<Mutex<Out>> = (0..threads).map(|i| Mutex::new(Out::create(format!("{}.t{:02}.ndjson", prefix, i)))).collect();
    let nsteps = AtomicU64::new(0);
    let npanics = AtomicU64::new(0);
    // distinct trees for the Stdfs part (Memfs states that differ only in a link's recorded kind give one tree)
    let trees: Mutex<Vec<(usize, String, Tree)>> = Mutex::new(vec![]);
    std::thread::scope(|sc| {
        for t in 0..threads {
            let (muts, pathsto, prog, counter, outs, selected, mem_check, mem_act, nsteps, npanics, trees) =
                (&muts, &pathsto, &prog, &counter, &outs, &selected, &mem_check, &mem_act, &nsteps, &npanics, &trees);
            sc.spawn(move || {
                let mut out = outs[t].lock().unwrap();
                for &si in selected.iter().skip(t).step_by(threads) {
                    let path = &pathsto[si];
                    let pre = memproj::project(&build(muts, path));
                    let prekey = to_ascii_json(&pre);
                    let tr = tree_of(&pre);
                    trees.lock().unwrap().push((si, format!("{:?}", tr), tr));
                    let mut steps = vec![];
                    // checking macros on one instance (they must not change it: verified by projection afterwards)
                    let qm = build(muts, path);
                    for (mac, a, b, d, m, c) in mem_check.iter() {
                        let id = counter.fetch_add(1, Ordering::Relaxed);
                        prog.mark_slot(t, id, &format!("memfs state-path={:?} macro={}", path, to_ascii_json(c)));
                        let bp = b.as_ref().map(|x| PathBuf::from(&x.raw)).unwrap_or_default();
                        let r = invoke(&qm, mac, Path::new(&a.raw), &bp, d, *m);
                        if r.is_err() {
                            npanics.fetch_add(1, Ordering::Relaxed);
                        }
                        steps.push(step(c, &r, a, b, true, json!([])));
                    }
                    let after = memproj::project(&qm);
                    if to_ascii_json(&after) != prekey {
                        let a = Arg { raw: "/".into(), res: Some("/".into()), comps: vec![], canon: true };
                        steps.push(step(&mcall("checking-macros-changed-state", "", &a, None, &[], 0), &Ok(()), &a, &None, false, after));
                    }
                    for (mac, a, b, d, m, c) in mem_act.iter() {
                        let fsys = build(muts, path);
                        let id = counter.fetch_add(1, Ordering::Relaxed);
                        prog.mark_slot(t, id, &format!("memfs state-path={:?} macro={}", path, to_ascii_json(c)));
                        let bp = b.as_ref().map(|x| PathBuf::from(&x.raw)).unwrap_or_default();
                        let r = invoke(&fsys, mac, Path::new(&a.raw), &bp, d, *m);
                        if r.is_err() {
                            npanics.fetch_add(1, Ordering::Relaxed);
                        }
                        let post = memproj::project(&fsys);
                        let same = to_ascii_json(&post) == prekey;
                        steps.push(step(c, &r, a, b, same, post));
                    }
                    nsteps.fetch_add(steps.len() as u64, Ordering::Relaxed);
                    out.rec(&json!({"k": "g", "be": "memfs", "own": {"uid": 1000, "gid": 1000}, "pre": pre, "steps": steps}));
                }
                prog.mark_slot(t, counter.load(Ordering::Relaxed), "idle");
            });
        }
    });
    let mem_groups = selected.len();
    let mem_steps = nsteps.load(Ordering::Relaxed);

    // ---- 3. the same trees on a Stdfs sandbox
    let mut std_groups = 0usize;
    let mut ntrees = 0usize;
    if std_stride > 0 && !sandbox.is_empty() {
        let mut tl = trees.into_inner().unwrap();
        tl.sort_by_key(|x| x.0);
        let mut seen: HashMap<String, ()> = HashMap::new();
        let mut uniq: Vec<Tree> = vec![];
        for (_, k, t) in tl {
            if seen.insert(k, ()).is_none() {
                uniq.push(t);
            }
        }
        ntrees = uniq.len();
        let chosen: Vec<&Tree> = uniq.iter().enumerate().filter(|(i, _)| *i < 8 || (i + offset) % std_stride == 0).map(|(_, t)| t).collect();
        std_groups = chosen.len();
        let (uid, gid) = unsafe { (libc::geteuid(), libc::getegid()) };
        std::fs::create_dir_all(&sandbox).expect("sandbox");
        let sandbox = std::fs::canonicalize(&sandbox).expect("sandbox path").to_string_lossy().to_string();
        std::thread::scope(|sc| {
            for t in 0..threads {
                let (prog, counter, outs, chosen, nsteps, npanics, nspaths, sandbox) = (&prog, &counter, &outs, &chosen, &nsteps, &npanics, &nspaths, &sandbox);
                sc.spawn(move || {
                    let sb = format!("{}/t{:02}/root", sandbox, t);
                    std::fs::create_dir_all(format!("{}/t{:02}", sandbox, t)).unwrap();
                    let sbp = PathBuf::from(&sb);
                    let pl = plan(&sb, nspaths, false, false);
                    let checks = checking_calls(&pl, &sb);
                    let acts = acting_calls(&pl, &sb, true);
                    let vfs = Vfs::stdfs();
                    let mut out = outs[t].lock().unwrap();
                    for tr in chosen.iter().skip(t).step_by(threads) {
                        materialise(&sbp, tr);
                        let pre = stdproj(&sbp);
                        let prekey = to_ascii_json(&pre);
                        let mut steps = vec![];
                        for (mac, a, b, d, m, c) in checks.iter() {
                            let id = counter.fetch_add(1, Ordering::Relaxed);
                            prog.mark_slot(t, id, &format!("stdfs tree={:?} macro={}", tr, to_ascii_json(c)));
                            let bp = b.as_ref().map(|x| PathBuf::from(&x.raw)).unwrap_or_default();
                            let r = invoke(&vfs, mac, Path::new(&a.raw), &bp, d, *m);
                            if r.is_err() {
                                npanics.fetch_add(1, Ordering::Relaxed);
                            }
                            steps.push(step(c, &r, a, b, true, json!([])));
                        }
                        let after = stdproj(&sbp);
                        if to_ascii_json(&after) != prekey {
                            let a = pl.p1[0].clone();
                            steps.push(step(&mcall("checking-macros-changed-state", &sb, &a, None, &[], 0), &Ok(()), &a, &None, false, after));
                        }
                        for (mac, a, b, d, m, c) in acts.iter() {
                            materialise(&sbp, tr);
                            let id = counter.fetch_add(1, Ordering::Relaxed);
                            prog.mark_slot(t, id, &format!("stdfs tree={:?} macro={}", tr, to_ascii_json(c)));
                            let bp = b.as_ref().map(|x| PathBuf::from(&x.raw)).unwrap_or_default();
                            let r = invoke(&vfs, mac, Path::new(&a.raw), &bp, d, *m);
                            if r.is_err() {
                                npanics.fetch_add(1, Ordering::Relaxed);
                            }
                            let post = stdproj(&sbp);
                            let same = to_ascii_json(&post) == prekey;
                            steps.push(step(c, &r, a, b, same, post));
                        }
                        nsteps.fetch_add(steps.len() as u64, Ordering::Relaxed);
                        out.rec(&json!({"k": "g", "be": "stdfs", "own": {"uid": uid, "gid": gid}, "pre": pre, "steps": steps}));
                    }
                    let _ = std::fs::remove_dir_all(format!("{}/t{:02}", sandbox, t));
                    prog.mark_slot(t, counter.load(Ordering::Relaxed), "idle");
                });
            }
        });
    }
    for o in outs {
        o.into_inner().unwrap().finish();
    }
    let total = nsteps.load(Ordering::Relaxed);
    let summary = json!({"states": nstates, "bfs_levels": levels, "memfs_groups": mem_groups, "memfs_steps": mem_steps,
        "distinct_trees": ntrees, "stdfs_groups": std_groups, "stdfs_steps": total - mem_steps, "panics": npanics.load(Ordering::Relaxed),
        "memfs_invocations_per_state": mem_check.len() + mem_act.len(), "longest_path": pathsto.iter().map(|p| p.len()).max().unwrap_or(0)});
    std::fs::write(format!("{}.summary.json", prefix), to_ascii_json(&summary)).unwrap();
    eprintln!("macros: {}", summary);
}

fn build(muts: &[Value], path: &[u32]) -> Memfs {
    let m = Memfs::new();
    for &ci in path {
        let _ = apply(&m, &muts[ci as usize]);
    }
    m
}
