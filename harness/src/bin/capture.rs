//! testing::capture_panic: nesting shapes executed for real (sequentially: every shape up to depth 3; in parallel:
//! seeded shapes on several threads), with the process-wide panic hook probed before, inside and after.
//! A program is a token list: "E" enters a capture, "X:ok" | "X:text" | "X:string" | "X:other" ends the innermost one by
//! returning / panicking with a &str / a String / a non-text payload.
use rand::{rngs::StdRng, Rng, SeedableRng};
use rivia::prelude::*;
use rvharness::*;
use std::os::unix::io::AsRawFd;
use std::sync::{Arc, Mutex};

/// does the currently installed panic hook print?  stderr is redirected to a scratch file while a probe panic is caught
fn hook_prints(scratch: &std::path::Path) -> bool {
    let f = std::fs::OpenOptions::new().create(true).write(true).truncate(true).open(scratch).unwrap();
    unsafe {
        let saved = libc::dup(2);
        libc::dup2(f.as_raw_fd(), 2);
        let _ = std::panic::catch_unwind(|| panic!("probe"));
        libc::dup2(saved, 2);
        libc::close(saved);
    }
    std::fs::metadata(scratch).map(|m| m.len() > 0).unwrap_or(false)
}

/// run the tokens from position i; returns the position after the matching exit and pushes results / inside-probes
fn run(prog: &[String], i: usize, res: &Arc<Mutex<Vec<String>>>, probes: &Arc<Mutex<Vec<String>>>, scratch: Option<&std::path::Path>) -> usize {
    // prog[i] == "E"
    let mut j = i + 1;
    let (res2, probes2) = (res.clone(), probes.clone());
    let progv = prog.to_vec();
    let next = Arc::new(Mutex::new(j));
    let next2 = next.clone();
    let scratch2 = scratch.map(|p| p.to_path_buf());
    let r = testing::capture_panic(move || {
        let mut k = i + 1;
        if let Some(s) = &scratch2 {
            probes2.lock().unwrap().push(if hook_prints(s) { "default".into() } else { "silent".into() });
        }
        // nested captures first
        while progv[k] == "E" {
            k = run(&progv, k, &res2, &probes2, scratch2.as_deref());
        }
        *next2.lock().unwrap() = k + 1;
        match progv[k].as_str() {
            "X:text" => panic!("boom"),
            "X:string" => panic!("{}", String::from("boom-string")),
            "X:other" => std::panic::panic_any(42u32),
            _ => {},
        }
    });
    j = *next.lock().unwrap();
    res.lock().unwrap().push(match r {
        Ok(()) => "Ok".to_string(),
        Err(e) => format!("Err:{}", err_kind(&e)),
    });
    j
}

fn shapes(depth: usize) -> Vec<Vec<String>> {
    // all well-nested token lists with one top-level capture, nesting depth <= depth, <= 2 children per capture
    let outs = ["X:ok", "X:text", "X:string", "X:other"];
    fn rec(d: usize, outs: &[&str]) -> Vec<Vec<String>> {
        let mut v = vec![];
        let kids: Vec<Vec<Vec<String>>> = if d == 0 { vec![vec![]] } else {
            let sub = rec(d - 1, outs);
            let mut k = vec![vec![]];
            for a in &sub {
                k.push(vec![a.clone()]);
            }
            if d <= 1 {
                for a in &sub {
                    for b in &sub {
                        k.push(vec![a.clone(), b.clone()]);
                    }
                }
            }
            k
        };
        for ks in kids {
            for o in outs {
                let mut p = vec!["E".to_string()];
                for c in &ks {
                    p.extend(c.iter().cloned());
                }
                p.push(o.to_string());
                v.push(p);
            }
        }
        v
    }
    rec(depth, &outs)
}

fn main() {
    // keep the DEFAULT hook: this driver observes it
    let mode = arg_or("mode", "seq");
    let seed = arg_u64("seed", 1);
    let mut out = Out::create(arg_or("out", "/dev/stdout"));
    let prog = Progress::from_env();
    let scratch = std::path::PathBuf::from(arg_or("sandbox", "/dev/shm")).join(format!("capture-probe-{}", std::process::id()));
    match mode.as_str() {
        "seq" => {
            for (n, p) in shapes(arg_u64("depth", 2) as usize).into_iter().enumerate() {
                prog.mark(n as u64, &p.join(" "));
                let res = Arc::new(Mutex::new(vec![]));
                let probes = Arc::new(Mutex::new(vec![]));
                let before = if hook_prints(&scratch) { "default" } else { "silent" };
                let end = run(&p, 0, &res, &probes, Some(&scratch));
                let after = if hook_prints(&scratch) { "default" } else { "silent" };
                out.rec(&json!({"k": "c", "prog": p, "consumed": end, "res": *res.lock().unwrap(), "inside": *probes.lock().unwrap(), "before": before, "after": after}));
            }
        },
        _ => {
            // parallel: threads x seeded shapes, no probes inside (stderr is process-wide); quiescent probe at the end of each round
            let all = shapes(2);
            let mut rng = StdRng::seed_from_u64(seed);
            for round in 0..arg_u64("rounds", 200) {
                prog.mark(round, "parallel round");
                let th = arg_u64("threads", 4) as usize;
                let progs: Vec<Vec<String>> = (0..th).map(|_| all[rng.gen_range(0..all.len())].clone()).collect();
                let hs: Vec<_> = progs.iter().cloned().map(|p| std::thread::spawn(move || {
                    let res = Arc::new(Mutex::new(vec![]));
                    let probes = Arc::new(Mutex::new(vec![]));
                    // the default hook would print here: silence the output of the panics themselves by redirecting nothing -
                    // messages of other threads' panics may appear on stderr while some capture is NOT in progress: that is
                    // exactly what the machine allows (count = 0 => default hook)
                    run(&p, 0, &res, &probes, None);
                    let r = res.lock().unwrap().clone();
                    r
                })).collect();
                let res: Vec<Vec<String>> = hs.into_iter().map(|h| h.join().unwrap_or_default()).collect();
                let after = if hook_prints(&scratch) { "default" } else { "silent" };
                out.rec(&json!({"k": "cp", "progs": progs, "res": res, "after": after}));
            }
        },
    }
    let _ = std::fs::remove_file(&scratch);
    out.finish();
}
