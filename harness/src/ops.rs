//! The call alphabet of the VFS drivers: a call is a JSON object
//!   {"op":NAME,"a":[chars],"b":[chars],"d":[bytes],"m":int,"n":int,"s":[chars],"ls":[[bytes]..],"f":"flags"}
//! (all fields always present: one TLC type per field) and `apply` executes it on any
//! `VirtualFileSystem` and renders the result as RES = {"o":"ok"|kind|"panic","v":VALUE}.
use std::path::{Path, PathBuf};

use rivia::prelude::*;
use serde_json::{json, Value};

use crate::{bytes, chars, gres, r_err, r_ok, res, res_unit, vbool};

/// components of a string that is trivially a canonical absolute path (decided syntactically here, without
/// rivia): the validator then skips the character-level resolution; anything else is resolved by the spec.
/// In call arguments the character U+00FF stands for the raw byte 0xFF: the path handed to rivia is then NOT valid UTF-8
/// (the Debug projection of Memfs renders such a byte as \xff, which memproj reads back as U+00FF - the same marker).
pub const INV: char = '\u{ff}';
pub fn to_path(s: &str) -> PathBuf {
    if !s.contains(INV) {
        return PathBuf::from(s);
    }
    use std::os::unix::ffi::OsStringExt;
    let mut bytes: Vec<u8> = vec![];
    for ch in s.chars() {
        if ch == INV {
            bytes.push(0xff);
        } else {
            let mut buf = [0u8; 4];
            bytes.extend_from_slice(ch.encode_utf8(&mut buf).as_bytes());
        }
    }
    PathBuf::from(std::ffi::OsString::from_vec(bytes))
}
fn canon_arg(s: &str) -> (Value, &'static str) {
    if s.contains(INV) {
        return (json!([]), "x"); // not valid UTF-8: every path resolution has to refuse it
    }
    if s.starts_with('/') && !s.contains('~') && !s.contains('$') && !s.contains(':') {
        let cs: Vec<&str> = if s == "/" { vec![] } else { s[1..].split('/').collect() };
        if cs.iter().all(|c| !c.is_empty() && *c != "." && *c != "..") {
            return (json!(cs), "t");
        }
    }
    (json!([]), "f")
}
fn mk(op: &str, a: &str, b: &str, d: &[u8], m: u32, n: u32, sym: &str, ls: &[&str], flags: &str) -> Value {
    let (ac, aok) = canon_arg(a);
    let (bc, bok) = canon_arg(b);
    json!({"op": op, "a": chars(a), "ac": ac, "aok": aok, "b": chars(b), "bc": bc, "bok": bok, "d": bytes(d), "m": m, "n": n, "s": chars(sym),
           "ls": ls.iter().map(|x| bytes(x.as_bytes())).collect::<Vec<_>>(), "f": chars(flags)})
}
pub fn call(op: &str, a: &str, b: &str) -> Value {
    mk(op, a, b, &[], 0, 0, "", &[], "")
}
pub fn call_d(op: &str, a: &str, d: &[u8]) -> Value {
    mk(op, a, "", d, 0, 0, "", &[], "")
}
pub fn call_m(op: &str, a: &str, m: u32, n: u32) -> Value {
    mk(op, a, "", &[], m, n, "", &[], "")
}
pub fn call_ls(op: &str, a: &str, ls: &[&str]) -> Value {
    mk(op, a, "", &[], 0, 0, "", ls, "")
}
/// builder calls: chmod_b / chown_b / copy_b; flags: r = recursive, R = no_recurse, F = follow,
/// a/d/f = octal applies to all/dirs/files (chmod_b, copy_b), u/g = set uid (m) / gid (n) (chown_b)
pub fn call_b(op: &str, a: &str, b: &str, m: u32, n: u32, sym: &str, flags: &str) -> Value {
    mk(op, a, b, &[], m, n, sym, &[], flags)
}

/// symbolic expressions a builder program can pick (index in the step's argument)
pub const SEQ_SYMS: [&str; 3] = ["f:u+x", "d:go-rx", "a:a=r"];
/// a builder program call: steps = [(code, argument)], see "chmod_seq" / "chown_seq" / "copy_seq" in `apply`
pub fn call_seq(op: &str, a: &str, b: &str, steps: &[(u8, u32)]) -> Value {
    let mut c = mk(op, a, b, &[], 0, 0, "", &[], "");
    c["ls"] = Value::Array(steps.iter().map(|(k, arg)| json!([*k, (arg / 256) as u8, (arg % 256) as u8])).collect());
    c
}

fn s_of(v: &Value) -> String {
    v.as_array().map(|a| a.iter().map(|c| c.as_str().unwrap_or("")).collect::<String>()).unwrap_or_default()
}
fn b_of(v: &Value) -> Vec<u8> {
    v.as_array().map(|a| a.iter().map(|c| c.as_u64().unwrap_or(0) as u8).collect()).unwrap_or_default()
}

/// A path as component array + whether its spelling is the canonical "/" + comps.join("/")
pub fn comps(p: &Path) -> Value {
    let s = p.to_str().unwrap_or("<non-utf8>");
    let cs: Vec<&str> = s.split('/').filter(|x| !x.is_empty()).collect();
    json!(cs)
}
pub fn canon(p: &Path) -> bool {
    let s = p.to_str().unwrap_or("<non-utf8>");
    let cs: Vec<&str> = s.split('/').filter(|x| !x.is_empty()).collect();
    s == format!("/{}", cs.join("/"))
}
/// a path value: components + "c" = spelled canonically (absolute: "/"+join; relative: join)
pub fn pv(p: &Path) -> Value {
    let s = p.to_str().unwrap_or("<non-utf8>");
    let cs: Vec<&str> = s.split('/').filter(|x| !x.is_empty()).collect();
    let c = if s.starts_with('/') { s == format!("/{}", cs.join("/")) } else { s == cs.join("/") };
    json!({"p": cs, "c": if c { "t" } else { "f" }, "abs": if s.starts_with('/') { "t" } else { "f" }})
}
fn res_path(r: RvResult<PathBuf>) -> Value {
    res(r, |p| pv(&p))
}
fn res_paths(r: RvResult<Vec<PathBuf>>) -> Value {
    res(r, |v| {
        let ok = v.iter().all(|p| canon(p));
        let cs: Vec<Vec<String>> = v.iter().map(|p| p.to_str().unwrap_or("").split('/').filter(|x| !x.is_empty()).map(|x| x.to_string()).collect()).collect();
        let sorted = cs.windows(2).all(|w| w[0] < w[1]);
        json!({"ps": v.iter().map(|p| comps(p)).collect::<Vec<_>>(), "canon": if ok { "t" } else { "f" }, "sorted": if sorted { "t" } else { "f" }})
    })
}
fn tf(b: bool) -> &'static str {
    if b { "t" } else { "f" }
}
/// the accessors of the wrapped backend entry, called on the concrete type (C13: the enum must be transparent)
fn inner_view<E: Entry>(e: &E) -> Value {
    json!({
        "path": pv(e.path()), "alt": pv(e.alt()), "rel": pv(e.rel()), "name": chars(&e.file_name().map(|n| n.to_string_lossy().to_string()).unwrap_or_default()),
        "dir": tf(e.is_dir()), "file": tf(e.is_file()), "link": tf(e.is_symlink()),
        "ldir": tf(e.is_symlink_dir()), "lfile": tf(e.is_symlink_file()),
        "exec": tf(e.is_exec()), "ro": tf(e.is_readonly()), "following": tf(e.following()), "mode": e.mode(),
        "same_bufs": tf(e.path_buf() == e.path() && e.alt_buf() == e.alt() && e.rel_buf() == e.rel()),
    })
}
pub fn entry_view(e: &VfsEntry) -> Value {
    let mut v = entry_view0(e);
    let inner = match e {
        VfsEntry::Memfs(x) => inner_view(x),
        VfsEntry::Stdfs(x) => inner_view(x),
    };
    let same = inner == v;
    v["wrap"] = json!(tf(same));
    v
}
fn entry_view0(e: &VfsEntry) -> Value {
    json!({
        "path": pv(e.path()), "alt": pv(e.alt()), "rel": pv(e.rel()), "name": chars(&e.file_name().map(|n| n.to_string_lossy().to_string()).unwrap_or_default()),
        "dir": tf(e.is_dir()), "file": tf(e.is_file()), "link": tf(e.is_symlink()),
        "ldir": tf(e.is_symlink_dir()), "lfile": tf(e.is_symlink_file()),
        "exec": tf(e.is_exec()), "ro": tf(e.is_readonly()), "following": tf(e.following()), "mode": e.mode(),
        "same_bufs": tf(e.path_buf() == e.path() && e.alt_buf() == e.alt() && e.rel_buf() == e.rel()),
    })
}

/// builder programs with the "L" flag: the builder is created, the cwd is moved to the root, `exec()` runs, the cwd is put back -
/// the path was given (and is documented to be resolved) when the builder was created
fn late_exec<V: VirtualFileSystem, F: FnOnce() -> RvResult<()>>(v: &V, late: bool, exec: F) -> RvResult<()> {
    if !late {
        return exec();
    }
    let old = v.cwd()?;
    if !v.is_dir(&old) {
        return exec(); // a cwd that was removed or replaced cannot be restored afterwards: run in place
    }
    v.set_cwd("/")?;
    let r = exec();
    let _ = v.set_cwd(old);
    r
}

/// Execute one call; every panic becomes {"o":"panic"}
pub fn apply<V: VirtualFileSystem>(v: &V, c: &Value) -> Value {
    let op = c["op"].as_str().unwrap_or("");
    let a = to_path(&s_of(&c["a"]));
    let b = to_path(&s_of(&c["b"]));
    let d = b_of(&c["d"]);
    let m = c["m"].as_u64().unwrap_or(0) as u32;
    let n = c["n"].as_u64().unwrap_or(0) as u32;
    let sym = s_of(&c["s"]);
    let flags = s_of(&c["f"]);
    let lines: Vec<String> = c["ls"].as_array().map(|x| x.iter().map(|l| String::from_utf8_lossy(&b_of(l)).to_string()).collect()).unwrap_or_default();
    gres(|| match op {
        "mkfile" => res_path(v.mkfile(&a)),
        "mkfile_m" => res_path(v.mkfile_m(&a, m)),
        "mkdir_p" => res_path(v.mkdir_p(&a)),
        "mkdir_m" => res_path(v.mkdir_m(&a, m)),
        "write_all" => res_unit(v.write_all(&a, &d)),
        "append_all" => res_unit(v.append_all(&a, &d)),
        "write_lines" => res_unit(v.write_lines(&a, &lines)),
        "append_lines" => res_unit(v.append_lines(&a, &lines)),
        "append_line" => res_unit(v.append_line(&a, lines.first().cloned().unwrap_or_default())),
        "remove" => res_unit(v.remove(&a)),
        "remove_all" => res_unit(v.remove_all(&a)),
        "move_p" => res_unit(v.move_p(&a, &b)),
        "copy" => res_unit(v.copy(&a, &b)),
        "copy_b" => res_unit(v.copy_b(&a, &b).and_then(|mut cp| {
            if flags.contains('a') {
                cp = cp.chmod_all(m);
            }
            if flags.contains('d') {
                cp = cp.chmod_dirs(m);
            }
            if flags.contains('f') {
                cp = cp.chmod_files(m);
            }
            if flags.contains('F') {
                cp = cp.follow(true);
            }
            cp.exec()
        })),
        "symlink" => res_path(v.symlink(&a, &b)),
        "set_cwd" => res_path(v.set_cwd(&a)),
        "chmod" => res_unit(v.chmod(&a, m)),
        "chmod_b" => res_unit(v.chmod_b(&a).and_then(|mut ch| {
            if flags.contains('a') {
                ch = ch.all(m);
            }
            if flags.contains('d') {
                ch = ch.dirs(m);
            }
            if flags.contains('f') {
                ch = ch.files(n);
            }
            if flags.contains('F') {
                ch = ch.follow();
            }
            if flags.contains('r') {
                ch = ch.recurse();
            }
            if flags.contains('R') {
                ch = ch.no_recurse();
            }
            if flags.contains('s') {
                ch = ch.sym(&sym);
            }
            if flags.contains('o') {
                ch = ch.readonly();
            }
            if flags.contains('S') {
                ch = ch.secure();
            }
            ch.exec()
        })),
        "chown" => res_unit(v.chown(&a, m, n)),
        "chown_b" => res_unit(v.chown_b(&a).and_then(|mut ch| {
            if flags.contains('u') {
                ch = ch.uid(m);
            }
            if flags.contains('g') {
                ch = ch.gid(n);
            }
            if flags.contains('o') {
                ch = ch.owner(m, n);
            }
            if flags.contains('F') {
                ch = ch.follow();
            }
            if flags.contains('r') {
                ch = ch.recurse(true);
            }
            if flags.contains('R') {
                ch = ch.recurse(false);
            }
            ch.exec()
        })),
        // ---- builder programs (last-setter-wins algebra of Chmod / Chown / Copier): c.ls = [[code, hi, lo]..]
        "chmod_seq" => res_unit(v.chmod_b(&a).and_then(|mut ch| {
            for st in c["ls"].as_array().unwrap() {
                let st = b_of(st);
                let arg = (st[1] as u32) * 256 + st[2] as u32;
                ch = match st[0] {
                    1 => ch.all(arg),
                    2 => ch.dirs(arg),
                    3 => ch.files(arg),
                    4 => ch.follow(),
                    5 => ch.recurse(),
                    6 => ch.no_recurse(),
                    7 => ch.sym(SEQ_SYMS[(arg as usize) % SEQ_SYMS.len()]),
                    8 => ch.readonly(),
                    _ => ch.secure(),
                };
            }
            late_exec(v, flags.contains('L'), || ch.exec())
        })),
        "chown_seq" => res_unit(v.chown_b(&a).and_then(|mut ch| {
            for st in c["ls"].as_array().unwrap() {
                let st = b_of(st);
                ch = match st[0] {
                    1 => ch.uid(st[1] as u32),
                    2 => ch.gid(st[2] as u32),
                    3 => ch.owner(st[1] as u32, st[2] as u32),
                    4 => ch.follow(),
                    5 => ch.recurse(true),
                    _ => ch.recurse(false),
                };
            }
            late_exec(v, flags.contains('L'), || ch.exec())
        })),
        "copy_seq" => res_unit(v.copy_b(&a, &b).and_then(|mut cp| {
            for st in c["ls"].as_array().unwrap() {
                let st = b_of(st);
                let arg = (st[1] as u32) * 256 + st[2] as u32;
                cp = match st[0] {
                    1 => cp.chmod_all(arg),
                    2 => cp.chmod_dirs(arg),
                    3 => cp.chmod_files(arg),
                    4 => cp.follow(true),
                    _ => cp.follow(false),
                };
            }
            cp.exec()
        })),
        // ---- queries
        "abs" => res_path(v.abs(&a)),
        "cwd" => res_path(v.cwd()),
        "root" => r_ok(pv(&v.root())),
        "exists" => r_ok(vbool(v.exists(&a))),
        "is_dir" => r_ok(vbool(v.is_dir(&a))),
        "is_file" => r_ok(vbool(v.is_file(&a))),
        "is_symlink" => r_ok(vbool(v.is_symlink(&a))),
        "is_symlink_dir" => r_ok(vbool(v.is_symlink_dir(&a))),
        "is_symlink_file" => r_ok(vbool(v.is_symlink_file(&a))),
        "is_exec" => r_ok(vbool(v.is_exec(&a))),
        "is_readonly" => r_ok(vbool(v.is_readonly(&a))),
        "mode" => res(v.mode(&a), |x| json!([x])),
        "uid" => res(v.uid(&a), |x| json!([x])),
        "gid" => res(v.gid(&a), |x| json!([x])),
        "owner" => res(v.owner(&a), |x| json!([x.0, x.1])),
        "read_all" => res(v.read_all(&a), |s| bytes(s.as_bytes())),
        "read_lines" => res(v.read_lines(&a), |ls| Value::Array(ls.iter().map(|l| bytes(l.as_bytes())).collect())),
        "read" => match v.read(&a) {
            Ok(mut h) => {
                let mut buf = vec![];
                match std::io::Read::read_to_end(&mut h, &mut buf) {
                    Ok(_) => r_ok(bytes(&buf)),
                    Err(e) => r_err(&format!("Io::{:?}", e.kind())),
                }
            },
            Err(e) => r_err(&crate::err_kind(&e)),
        },
        "readlink" => res_path(v.readlink(&a)),
        "readlink_abs" => res_path(v.readlink_abs(&a)),
        "paths" => res_paths(v.paths(&a)),
        "dirs" => res_paths(v.dirs(&a)),
        "files" => res_paths(v.files(&a)),
        "all_paths" => res_paths(v.all_paths(&a)),
        "all_dirs" => res_paths(v.all_dirs(&a)),
        "all_files" => res_paths(v.all_files(&a)),
        "entry" => res(v.entry(&a), |e| {
            let before = entry_view(&e);
            let f1 = e.clone().follow(true);
            let after1 = entry_view(&f1);
            // a kept copy of a followed entry is still a followed entry: following the copy again changes nothing either
            let fc = entry_view(&f1.clone().follow(true));
            let f2 = f1.follow(true);
            let after2 = entry_view(&f2);
            let nf = e.clone().follow(false);
            // follow(false) after follow(true) does not un-follow (the backends' entries are one-way)
            let f1nf = e.clone().follow(true).follow(false);
            json!({"e": before, "f1": after1, "f2": after2, "fc": fc, "nf": entry_view(&nf), "f1nf": entry_view(&f1nf)})
        }),
        _ => r_err("harness::unknown-op"),
    })
}
