"""Shared machinery of the rivia checks: build, supervised drivers, TLC runs, verdict
classification against known_findings.json, evidence, exit codes.

Exit codes: 0 held (KNOWN-FINDING lines allowed), 1 VIOLATION, 2 tool error."""
import atexit, fnmatch, hashlib, json, os, re, shutil, signal, subprocess, sys, time
from concurrent.futures import ThreadPoolExecutor

ROOT = os.path.dirname(os.path.abspath(__file__))
SPEC = os.path.join(ROOT, "spec")
HARNESS = os.path.join(ROOT, "harness")
BIN = os.path.join(HARNESS, "target", "release")
EVID = os.path.join(ROOT, "evidence")
REPLAYS = os.path.join(ROOT, "replays")
TLA_CP = "/opt/veriftools/tla/tla2tools.jar:/opt/veriftools/tla/CommunityModules-deps.jar"
NCPU = os.cpu_count() or 8

_scratch = None


class ToolError(Exception):
    pass


import threading
_scratch_lock = threading.Lock()


def scratch():
    """Per-process scratch directory (tmpfs), removed at exit."""
    with _scratch_lock:
        return _scratch_locked()


def _scratch_locked():
    global _scratch
    if _scratch is None:
        base = "/dev/shm" if os.path.isdir("/dev/shm") and os.access("/dev/shm", os.W_OK) else os.path.join(ROOT, ".scratch")
        _scratch = os.path.join(base, "rvverif-%d" % os.getpid())
        shutil.rmtree(_scratch, ignore_errors=True)
        os.makedirs(_scratch)
        atexit.register(lambda: shutil.rmtree(_scratch, ignore_errors=True))
    return _scratch


def sub(name):
    d = os.path.join(scratch(), name)
    os.makedirs(d, exist_ok=True)
    return d


def log(*a):
    print(*a, file=sys.stderr, flush=True)


# ---------------------------------------------------------------- build

_built = set()


def build(*bins):
    """cargo build --release --offline of the named harness binaries (rebuilds rivia from /repo's working tree)."""
    need = [b for b in bins if b not in _built]
    if not need:
        return
    cmd = ["cargo", "build", "--release", "--offline", "--quiet"]
    for b in need:
        cmd += ["--bin", b]
    env = dict(os.environ, CARGO_NET_OFFLINE="true")
    t = time.time()
    p = subprocess.run(cmd, cwd=HARNESS, env=env, stdout=subprocess.PIPE, stderr=subprocess.STDOUT, text=True)
    if p.returncode != 0:
        errs = [l for l in p.stdout.splitlines() if not l.startswith("warning") ]
        raise ToolError("harness build failed:\n" + "\n".join(p.stdout.splitlines()[-60:]))
    _built.update(need)
    log("[build] %s in %.1fs" % (",".join(need), time.time() - t))


# ---------------------------------------------------------------- supervised drivers

class Stall(Exception):
    def __init__(self, what, worker, progress):
        self.what, self.worker, self.progress = what, worker, progress


def run_workers(binname, args, nworkers, outdir, prefix, stall_s=20, total_s=3600, env=None, per_worker_args=None, clean_env=False):
    """Run nworkers copies of a driver (--worker i --workers n --out file).  Each is watched through
    its progress file: no progress for stall_s seconds, or abnormal death, raises Stall with the
    description of the call that was being executed."""
    procs = []
    for i in range(nworkers):
        out = os.path.join(outdir, "%s.w%02d.ndjson" % (prefix, i))
        prog = os.path.join(outdir, "%s.w%02d.progress" % (prefix, i))
        open(prog, "w").close()
        e = dict(RVH_PROGRESS=prog) if clean_env else dict(os.environ, RVH_PROGRESS=prog)
        if env:
            e.update(env)
        a = [os.path.join(BIN, binname)] + list(args) + ["--worker", str(i), "--workers", str(nworkers), "--out", out]
        if per_worker_args:
            a += per_worker_args(i)
        errf = open(os.path.join(outdir, "%s.w%02d.err" % (prefix, i)), "w")
        p = subprocess.Popen(a, env=e, stdout=errf, stderr=errf, cwd=outdir)
        procs.append(dict(p=p, out=out, prog=prog, last=None, t=time.time(), i=i, err=errf.name))
    t0 = time.time()
    try:
        while True:
            alive = 0
            for w in procs:
                rc = w["p"].poll()
                try:
                    cur = open(w["prog"], "rb").read(1600 * 40).decode("utf-8", "replace").rstrip()
                except OSError:
                    cur = ""
                if rc is None:
                    alive += 1
                    if cur != w["last"]:
                        w["last"], w["t"] = cur, time.time()
                    elif time.time() - w["t"] > stall_s:
                        raise Stall("hang (no progress for %ds)" % stall_s, w["i"], cur)
                elif rc != 0:
                    tail = open(w["err"]).read()[-2000:]
                    if rc == 2:
                        raise ToolError("driver %s worker %d: %s" % (binname, w["i"], tail))
                    raise Stall("worker died rc=%s: %s" % (rc, tail[-300:]), w["i"], cur)
            if alive == 0:
                break
            if time.time() - t0 > total_s:
                raise ToolError("driver %s exceeded %ds" % (binname, total_s))
            time.sleep(0.05)
    finally:
        for w in procs:
            if w["p"].poll() is None:
                w["p"].kill()
                w["p"].wait()
    return [w["out"] for w in procs]


def split_chunks(files, outdir, prefix, max_records=40000):
    """Split ND-JSON files into chunks of at most max_records lines; returns chunk paths."""
    chunks = []
    k = 0
    for f in files:
        if not os.path.exists(f):
            continue
        n = 0
        cur = None
        with open(f, "rb") as fh:
            for line in fh:
                if cur is None or n >= max_records:
                    if cur:
                        cur.close()
                    name = os.path.join(outdir, "%s.c%04d.ndjson" % (prefix, k))
                    cur = open(name, "wb")
                    chunks.append(name)
                    k += 1
                    n = 0
                cur.write(line)
                n += 1
        if cur:
            cur.close()
    return chunks


def count_lines(files):
    n = 0
    for f in files:
        with open(f, "rb") as fh:
            for _ in fh:
                n += 1
    return n


# ---------------------------------------------------------------- TLC

def _java_opts(tmp, xmx="2g", gcthreads=2):
    return ["java", "-XX:+UseParallelGC", "-XX:ParallelGCThreads=%d" % gcthreads, "-Xmx" + xmx, "-Xss1g",
            "-Dfile.encoding=UTF-8", "-Dtlc2.tool.queue.IStateQueue=StateDeque", "-Djava.io.tmpdir=" + tmp,
            "-cp", TLA_CP, "tlc2.TLC"]


def tlc_validate_one(module, chunk, extra_env=None, timeout=1800, cfg=None):
    """Run one trace validator on one chunk; returns the verdict dict written by the spec."""
    work = chunk + ".tlc"
    os.makedirs(work, exist_ok=True)
    outp = chunk + ".verdict.json"
    env = dict(os.environ, TRACE=chunk, OUT=outp)
    env.pop("JAVA_TOOL_OPTIONS", None)
    if extra_env:
        env.update(extra_env(chunk) if callable(extra_env) else extra_env)
    cmd = _java_opts(work) + ["-workers", "1", "-metadir", os.path.join(work, "meta"), "-cleanup", "-noGenerateSpecTE",
                              "-config", os.path.join(SPEC, cfg or (module + ".cfg")), os.path.join(SPEC, module + ".tla")]
    try:
        p = subprocess.run(cmd, cwd=SPEC, env=env, stdout=subprocess.PIPE, stderr=subprocess.STDOUT, text=True, timeout=timeout)
    except subprocess.TimeoutExpired:
        raise ToolError("TLC validator %s timed out on %s" % (module, chunk))
    finally:
        shutil.rmtree(work, ignore_errors=True)
    if "Model checking completed. No error has been found." not in p.stdout or not os.path.exists(outp):
        raise ToolError("TLC validator %s failed on %s:\n%s" % (module, chunk, "\n".join(p.stdout.splitlines()[-40:])))
    v = json.load(open(outp))
    v["chunk"] = chunk
    return v


def tlc_validate(module, chunks, extra_env=None, parallel=None, timeout=1800, cfg=None):
    """Validate chunks in parallel; merge class tallies.  Returns (checked, classes) with classes a list of
    dict(c=tuple, n=count, ex=(chunk, line))."""
    parallel = parallel or min(NCPU, 16)
    t = time.time()
    with ThreadPoolExecutor(max_workers=parallel) as ex:
        verdicts = list(ex.map(lambda c: tlc_validate_one(module, c, extra_env, timeout, cfg), chunks))
    merged = {}
    checked = 0
    for v in verdicts:
        checked += v["checked"]
        for c in v.get("classes", []) or []:
            key = tuple(c["c"])
            if key in merged:
                merged[key]["n"] += c["n"]
            else:
                merged[key] = dict(c=key, n=c["n"], ex=(v["chunk"], c["ex"]))
    log("[tlc] %s: %d records in %d chunks, %d classes, %.1fs" % (module, checked, len(chunks), len(merged), time.time() - t))
    return checked, list(merged.values())


def read_line(path, lineno):
    with open(path, "rb") as fh:
        for i, line in enumerate(fh, 1):
            if i == lineno:
                return line.decode("utf-8")
    return None


def tlc_mc(module, cfg=None, workers=8, timeout=3000, xmx="8g", coverage=True, extra_env=None, deadlock=False, extra_args=None, expect_violation=False):
    """Exhaustive model-checking run of a design-level config.  Returns dict(ok, generated, distinct, depth,
    actions={name: count}, out=stdout tail).  A property violation in the *specification* is a tool error for the
    checks (the documented machine must satisfy its own invariants)."""
    work = sub("mc-%s-%d" % (module, int(time.time() * 1000) % 100000))
    env = dict(os.environ)
    env.pop("JAVA_TOOL_OPTIONS", None)
    if extra_env:
        env.update(extra_env)
    cmd = ["java", "-XX:+UseParallelGC", "-Xmx" + xmx, "-Xss512m", "-Dfile.encoding=UTF-8", "-Djava.io.tmpdir=" + work,
           "-cp", TLA_CP, "tlc2.TLC", "-workers", str(workers), "-metadir", os.path.join(work, "meta"), "-cleanup",
           "-noGenerateSpecTE"]
    if coverage:
        cmd += ["-coverage", "1"]
    if deadlock:
        cmd += ["-deadlock"]
    if extra_args:
        cmd += extra_args
    cmd += ["-config", os.path.join(SPEC, cfg or (module + ".cfg")), os.path.join(SPEC, module + ".tla")]
    t = time.time()
    try:
        p = subprocess.run(cmd, cwd=SPEC, env=env, stdout=subprocess.PIPE, stderr=subprocess.STDOUT, text=True, timeout=timeout)
    except subprocess.TimeoutExpired:
        raise ToolError("TLC model checking of %s timed out after %ds" % (module, timeout))
    finally:
        shutil.rmtree(work, ignore_errors=True)
    out = p.stdout
    ok = "Model checking completed. No error has been found." in out
    m = re.search(r"(\d[\d,]*) states generated, (\d[\d,]*) distinct states found", out)
    gen, dist = (int(m.group(1).replace(",", "")), int(m.group(2).replace(",", ""))) if m else (0, 0)
    md = re.search(r"depth of the complete state graph search is (\d+)", out)
    actions = {}
    for am in re.finditer(r"<(\w+) line \d+, col \d+ to line \d+, col \d+ of module (\w+)>: (\d+):(\d+)", out):
        actions[am.group(1)] = actions.get(am.group(1), 0) + int(am.group(4))
    res = dict(ok=ok, generated=gen, distinct=dist, depth=int(md.group(1)) if md else 0, actions=actions,
               wall_s=round(time.time() - t, 1), tail="\n".join(out.splitlines()[-30:]))
    log("[mc] %s/%s: ok=%s generated=%d distinct=%d in %.1fs" % (module, cfg or "", ok, gen, dist, time.time() - t))
    res["violated"] = re.findall(r"(?:Invariant|property) (\w+) is violated", out) + (["Temporal"] if "Temporal properties were violated" in out else [])
    if expect_violation:
        if ok or not res["violated"]:
            raise ToolError("negative control %s (%s) was expected to violate a property but did not:\n%s" % (module, cfg, res["tail"]))
        return res
    if not ok:
        raise ToolError("design-level model checking of %s (%s) did not complete cleanly:\n%s" % (module, cfg, res["tail"]))
    return res


def sany(module):
    p = subprocess.run(["java", "-cp", TLA_CP, "tla2sany.SANY", os.path.join(SPEC, module + ".tla")], cwd=SPEC,
                       stdout=subprocess.PIPE, stderr=subprocess.STDOUT, text=True)
    bad = p.returncode != 0 or "*** Errors" in p.stdout or "Fatal" in p.stdout or "Could not" in p.stdout
    return (not bad), p.stdout


# ---------------------------------------------------------------- findings / verdicts

def load_findings():
    p = os.path.join(ROOT, "known_findings.json")
    if not os.path.exists(p):
        return []
    return json.load(open(p)).get("findings", [])


def match_sig(pattern, cls):
    """pattern: list of fnmatch patterns; a trailing '**' matches any remainder."""
    if pattern and pattern[-1] == "**":
        pattern = pattern[:-1]
        if len(cls) < len(pattern):
            return False
        cls = cls[:len(pattern)]
    if len(pattern) != len(cls):
        return False
    return all(fnmatch.fnmatchcase(str(c), str(p)) for p, c in zip(pattern, cls))


class Outcome:
    """Accumulates what a check saw; prints KNOWN-FINDING / VIOLATION lines; writes evidence; exits."""

    def __init__(self, prop, tier, seed, level="model_checking"):
        self.prop, self.tier, self.seed, self.level = prop, tier, seed, level
        self.t0 = time.time()
        self.findings = [f for f in load_findings() if prop in f.get("properties", []) and f.get("status", "open") == "open"]
        self.known_hits = {}
        self.violations = []
        self.beyond = []                     # mismatches of validators that judge behaviour outside the listed property (never alarms)
        self.cov = dict(evaluations=0, distinct_nontrivial=0, samples=[], states=0, transitions=0,
                        traces_validated_against_impl=0, runs=[])
        self.assumptions = []
        self.nontrivial_keys = set()

    # ---- classes from a validator
    def absorb(self, validator, checked, classes, is_bad=lambda c: c[0] == "BAD", nontrivial=lambda c: True, label=None, grouped=False, beyond=False):
        """beyond=True: the validator judges behaviour OUTSIDE the statement of the listed property (specification growth, DESIGN 3.9 / 10):
        a mismatch is reported (BEYOND-PROPERTY line + evidence) but never as a violation of the property - the property does not speak about it."""
        run = dict(validator=validator, label=label or validator, records=checked, classes=[])
        self.cov["evaluations"] += checked
        self.cov["traces_validated_against_impl"] += checked
        for c in sorted(classes, key=lambda x: -x["n"]):
            key = list(c["c"])
            run["classes"].append(dict(c=key, n=c["n"]))
            if not is_bad(key):
                if "nt" in key:
                    self.cov["distinct_nontrivial"] += c["n"]
                continue
            rec = None
            if c.get("ex"):
                chunk, ex = c["ex"]
                if grouped:
                    rec = read_line(chunk, ex // 1000)
                    if rec:
                        g = json.loads(rec)
                        i = ex % 1000
                        if grouped == "pair":
                            tree, memtree = g.get("tree"), g.get("memtree")
                            if g.get("k") == "ph":            # chain of paired steps: the pre-states of step i are the last changed post-states before it
                                for st in g["steps"][:max(i - 1, 0)]:
                                    if st["std"]["same"] == "f":
                                        tree = st["std"]["post"]
                                    if st["mem"]["same"] == "f":
                                        memtree = st["mem"]["post"]
                            rec = json.dumps(dict(k="p", tree=tree, memtree=memtree, own=g.get("own"), steps=[g["steps"][i - 1]] if 0 < i <= len(g["steps"]) else []))
                        elif g.get("k") == "h":
                            cur = g["init"]
                            for st in g["steps"][:max(i - 1, 0)]:
                                if st["same"] == "f":
                                    cur = st["post"]
                            rec = json.dumps(dict(k="g", be=g.get("be"), route=g.get("route"), pre=cur, steps=[g["steps"][i - 1]] if 0 < i <= len(g["steps"]) else [],
                                                  history_calls=[st["c"] for st in g["steps"][:max(i - 1, 0)]][-40:]))
                        else:
                            rec = json.dumps(dict(k=g.get("k"), be=g.get("be"), pre=g.get("pre"), steps=[g["steps"][i - 1]] if 0 < i <= len(g["steps"]) else []))
                else:
                    rec = read_line(chunk, ex)
            hit = None
            for f in self.findings:
                for m in f.get("match", []):
                    if m.get("validator") in (None, validator) and match_sig(m["class"], key):
                        hit = f
                        break
                if hit:
                    break
            if hit:
                h = self.known_hits.setdefault(hit["id"], dict(f=hit, n=0, classes=[]))
                h["n"] += c["n"]
                h["classes"].append(key)
            elif beyond:
                self.beyond.append(dict(validator=validator, cls=key, n=c["n"], record=json.loads(rec) if rec else None))
            else:
                self.violations.append(dict(validator=validator, cls=key, n=c["n"], record=json.loads(rec) if rec else None))
        self.cov["runs"].append(run)

    def add_violation(self, what, record=None, validator="harness"):
        self.violations.append(dict(validator=validator, cls=["BAD"] + list(what), n=1, record=record))

    def add_mc(self, name, res):
        self.cov["states"] += res["distinct"]
        self.cov["transitions"] += res["generated"]
        zero = sorted(a for a, n in res["actions"].items() if n == 0)
        self.cov.setdefault("design_runs", []).append(dict(config=name, distinct=res["distinct"], generated=res["generated"],
                                                           depth=res["depth"], actions=res["actions"], never_fired=zero,
                                                           wall_s=res["wall_s"]))

    def sample(self, s):
        if len(self.cov["samples"]) < 6:
            self.cov["samples"].append(s)

    def sample_from(self, path, lines=(1, 1000, 30000)):
        for ln in lines:
            r = read_line(path, ln)
            if r:
                try:
                    self.sample(json.loads(r))
                except Exception:
                    pass

    def finish(self, extra=None):
        wall = time.time() - self.t0
        cov = self.cov
        if extra:
            cov.update(extra)
        cov["known_findings_seen"] = [dict(id=k, n=v["n"]) for k, v in sorted(self.known_hits.items())]
        if self.beyond:
            cov["beyond_property_mismatches"] = [dict(validator=b["validator"], cls=b["cls"], n=b["n"]) for b in self.beyond[:40]]
            os.makedirs(REPLAYS, exist_ok=True)
            for b in self.beyond[:20]:
                h = hashlib.sha1(json.dumps(b, sort_keys=True).encode()).hexdigest()[:10]
                path = os.path.join(REPLAYS, "%s-beyond-%s.json" % (self.prop, h))
                with open(path, "w") as fh:
                    json.dump(dict(property=self.prop, beyond_property=True, validator=b["validator"], cls=b["cls"], count=b["n"], record=b["record"]), fh, indent=1)
                    fh.write("\n")
                print("BEYOND-PROPERTY: near=%s validator=%s class=%s x%d record=%s (behaviour outside the property's statement differs from the specification; not a violation of %s)"
                      % (self.prop, b["validator"], b["cls"], b["n"], path, self.prop), flush=True)
        if not cov["samples"]:
            cov["samples"] = ["(no sample recorded)"]
        ev = dict(property_id=self.prop, tier=self.tier, seed=self.seed, level=self.level, coverage=cov,
                  assumptions=self.assumptions, wall_s=round(wall, 1), violations=len(self.violations))
        os.makedirs(EVID, exist_ok=True)
        with open(os.path.join(EVID, self.prop + ".json"), "w") as fh:
            json.dump(ev, fh, indent=1, sort_keys=True)
            fh.write("\n")
        for k, v in sorted(self.known_hits.items()):
            print("KNOWN-FINDING: property=%s %s: %s (seen %d times)" % (self.prop, k, v["f"]["text"], v["n"]), flush=True)
        if self.violations:
            os.makedirs(REPLAYS, exist_ok=True)
            for v in self.violations[:60]:
                h = hashlib.sha1(json.dumps(v, sort_keys=True).encode()).hexdigest()[:10]
                path = os.path.join(REPLAYS, "%s-%s.json" % (self.prop, h))
                with open(path, "w") as fh:
                    json.dump(dict(property=self.prop, validator=v["validator"], cls=v["cls"], count=v["n"], record=v["record"],
                                   rerun="./check %s --replay %s" % (self.prop, path)), fh, indent=1)
                    fh.write("\n")
                print("VIOLATION property=%s replay=%s" % (self.prop, path), flush=True)
                log("   class: %s  (x%d)" % (v["cls"], v["n"]))
            sys.exit(1)
        log("[%s] held on everything explored (%.1fs)" % (self.prop, wall))
        sys.exit(0)


def apalache_inductive(module, inv="IndInv", cinit="ConstInit", init="Init", indinit="IndInit", timeout=300, expect_violation=False):
    """Inductive-invariant check with Apalache (symbolic, behaviours of ANY length): Init => inv at length 0 and
    indinit /\\ Next => inv' at length 1.  An extra on top of the TLC runs: when apalache-mc is missing, times out or fails for a
    reason other than a violated invariant the result says so (status 'unavailable') and nothing depends on it."""
    work = sub("apalache-%s-%d" % (module, int(time.time() * 1000) % 100000))
    t = time.time()
    res = dict(module=module, invariant=inv, steps=[], status="proved")
    try:
        for (i0, ln) in ((init, 0), (indinit, 1)):
            if expect_violation and ln == 0:
                continue
            cmd = ["apalache-mc", "check", "--out-dir=" + os.path.join(work, "out"), "--cinit=" + cinit, "--init=" + i0, "--inv=" + inv,
                   "--length=%d" % ln, os.path.join(SPEC, module + ".tla")]
            try:
                p = subprocess.run(cmd, cwd=work, stdout=subprocess.PIPE, stderr=subprocess.STDOUT, text=True, timeout=timeout)
            except (subprocess.TimeoutExpired, OSError) as e:
                res["status"] = "unavailable: %s" % type(e).__name__
                break
            o = p.stdout
            if "EXITCODE: OK" in o and "no error" in o:
                res["steps"].append(dict(init=i0, length=ln, result="no error"))
            elif "invariant" in o and "violated" in o:
                res["steps"].append(dict(init=i0, length=ln, result="invariant violated"))
                res["status"] = "violated"
                break
            else:
                res["status"] = "unavailable: " + " ".join(o.split()[-12:])[:200]
                break
    finally:
        shutil.rmtree(work, ignore_errors=True)
    res["wall_s"] = round(time.time() - t, 1)
    log("[apalache] %s %s: %s in %.1fs" % (module, inv, res["status"], res["wall_s"]))
    if res["status"] == "violated" and not expect_violation:
        raise ToolError("Apalache: %s is not inductive in %s (the specification must satisfy its own invariants)" % (inv, module))
    if expect_violation and res["status"] == "proved":
        raise ToolError("Apalache: negative control %s was NOT rejected" % module)
    return res


def stall_violation(out, st, what_driver):
    slots = [x.strip() for x in st.progress.split("\n") if x.strip() and not x.strip().endswith("\tidle")]
    out.add_violation([what_driver, "no-return", st.what[:80]], record=dict(in_flight=slots, worker=st.worker), validator="supervisor")


def stall_beyond(out, st, what_driver):
    """a driver of behaviour outside the listed property did not return: reported, never an alarm of the property"""
    slots = [x.strip() for x in st.progress.split("\n") if x.strip() and not x.strip().endswith("\tidle")]
    out.beyond.append(dict(validator="supervisor", cls=["BAD", what_driver, "no-return", st.what[:80]], n=1, record=dict(in_flight=slots, worker=st.worker)))


def seed_tier():
    tier = os.environ.get("VERIF_TIER", "quick")
    seed = int(os.environ.get("VERIF_SEED", "1") or 1)
    return tier, seed
