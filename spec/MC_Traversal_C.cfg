CONSTANTS
  MaxLinks = 1
  OptStride = 96
  LinkStride = 512
  PermMax = 4
SPECIFICATION Spec
INVARIANTS Terminates NothingRejected StackBounded EndBag EndValid EndAllOuts EndExpected EndLoop EndParentChild EndSiblings EndOnce EndExactSet PredicateTight ExpectedAdmissible ListingLemma
CHECK_DEADLOCK TRUE
