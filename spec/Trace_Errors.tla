------------------------------- MODULE Trace_Errors -------------------------------
(* Validator of the records of harness/src/bin/errs.rs against Errors.tla: every real error value must sit at the position of
   its own family, be the documented variant of its constructor, render the documented text, be accepted by `is` / `downcast`
   at exactly its own type (and given back unchanged), have no source, and arrive unchanged through `?`. *)
EXTENDS Errors, Tally, Json, IOUtils
Recs == ndJsonDeserialize(IOEnv.TRACE)
ToSet(s) == {s[i] : i \in DOMAIN s}
Common(r, fam) ==
   IF r.r.o # "ok" THEN <<"BAD", "errors", "call-" \o r.r.o, r.how>>
   ELSE LET x == r.r.v IN
   IF x.fam # fam THEN <<"BAD", "errors", "wrapped-at-foreign-position", fam, x.fam>>
   ELSE IF x.disp # x.inner \/ x.asref # x.inner \/ x.asmut # x.inner THEN <<"BAD", "errors", "display-not-transparent", fam, x.v>>
   ELSE IF ToSet(x.isset) # {fam} \ {"Nix"} THEN <<"BAD", "errors", "is-accepts-other-than-own-type", fam, x.v>>
   ELSE IF ToSet(x.refset) # {fam} \/ ToSet(x.mutset) # {fam} THEN <<"BAD", "errors", "downcast-accepts-other-than-own-type", fam, x.v>>
   ELSE IF x.dcref # "same" \/ x.dcmut # "same" THEN <<"BAD", "errors", "downcast-changes-the-value", fam, x.v>>
   ELSE IF x.source # "none" THEN <<"BAD", "errors", "source-invented", fam, x.v>>
   ELSE IF x.qfam # fam \/ x.qdisp # x.disp \/ x.qsame # "same" THEN <<"BAD", "errors", "question-mark-differs-from-From", fam, x.v>>
   ELSE <<"ok">>
JudgeOwn(r) ==
   IF r.r.o # "ok" THEN << Common(r, "-") >> ELSE
   LET x == r.r.v
       want == IF r.k = "s" THEN "Msg" ELSE IF r.how = "ctor" THEN (IF HasCtor(x.fam, r.ctor) THEN CtorTarget(x.fam, r.ctor) ELSE "?") ELSE x.v IN
   IF ~HasVariant(x.fam, x.v) THEN << <<"BAD", "errors", "variant-unknown-to-the-specification", x.fam, x.v>> >>
   ELSE IF want # x.v THEN << <<"BAD", "errors", "constructor-builds-other-variant", x.fam, r.ctor, x.v>> >>
   ELSE IF x.qv # x.v THEN << <<"BAD", "errors", "question-mark-differs-from-From", x.fam, x.v>> >>
   ELSE LET c == Common(r, x.fam) e == Inner(x.fam, x.v, r.arg) IN
   IF c[1] = "BAD" THEN << c >>
   ELSE IF x.disp # Display(e) THEN << <<"BAD", "errors", "display-text-not-the-documented-one", x.fam, x.v>> >>
   ELSE IF ~(IsExactlyOwnFamily(e) /\ DowncastInverse(e) /\ DisplayTransparent(e)) THEN << <<"BAD", "errors", "spec-law-fails", x.fam, x.v>> >>
   ELSE << <<"ok", "errors", x.fam, r.how, IF r.arg # "" THEN "nt" ELSE "tr">> >>
JudgeForeign(r) == LET c == Common(r, r.want) IN
   IF c[1] = "BAD" THEN << c >> ELSE << <<"ok", "errors", r.want, "std-family", "nt">> >>
Judge(r) == IF r.k = "x" THEN JudgeForeign(r) ELSE JudgeOwn(r)
VARIABLES l
Init == l = 1 /\ TLCSet(1, <<>>)
Next == /\ l <= Len(Recs) /\ TLCSet(1, UpdAll(TLCGet(1), Judge(Recs[l]), l)) /\ l' = l + 1
Done == (l = Len(Recs) + 1) => JsonSerialize(IOEnv.OUT, [checked |-> Len(Recs), classes |-> TLCGet(1)])
Spec == Init /\ [][Next]_l
=============================================================================
