------------------------------- MODULE MC_ChmodSym -------------------------------
(* The symbolic chmod grammar  clause ("," clause)*,  clause = [dfa] ":" [ugoa]+ [-+=] [rwx]+  (Chmod rustdoc:
   "All segments are required ... the pattern can be repeated by separating repetitions with a comma") as a
   one-character-per-step SCANNER with the states Target / Colon / Group / Perms.  A clause takes effect when its
   last character has been read (at the "," or at the end of the input) and only if its target letter selects the
   entry's kind; a clause whose target letter does not select the entry is skipped and the scan goes on.
   TLC starts the machine from every expression of the bound (all well-formed single clauses, a cross product of
   double clauses, every string up to MaxLen over the grammar's alphabet, longer strings with a legal head, and
   hand-written expressions) x kind {file, dir, link} x a set of start permissions and checks

     AgreesWithSymMode  the halted machine = ChmodSym!SymMode (the recursive operator that judges the implementation)
     TypeBitsKept       file-type bits and the setuid/setgid/sticky bits never change
     LinksUnchanged     a symlink itself is never altered
     FirstClauseError   first clause malformed  <=>  error, and then the mode is the start mode
     Frame / Algebra    a clause only touches the bits of its groups; "=" assigns, "+" adds, "-" removes; repeating a
                        clause changes nothing; "+P" then "-P" clears exactly P within the group; "-P" then "+P" sets it;
                        a later "=" on the same groups forgets the earlier clause; a skipped clause does not stop later ones
     Progress           every step consumes a character or halts (termination) *)
EXTENDS ChmodSym
CONSTANTS MaxLen,        \* every string over Alphabet up to this length
          LongLen,       \* strings  [dfa] ":" s  with Len(s) <= LongLen - 2
          StartPerms,    \* start permission values (12 bits: special bits included)
          StringPerms,   \* start permission values used with the raw strings
          RawKinds,      \* entry kinds used with the raw strings
          DoubleGroups, DoublePerms    \* group / permission spellings used for the cross product of double clauses
VARIABLES expr, kind, m0,      \* the input: expression, kind of the entry, its start mode (never change)
          inp,                 \* characters not yet read
          st,                  \* "target" | "colon" | "group" | "perms" | "ok" | "err" | "unsettled"
          ci,                  \* number of the clause being read
          tgt, gacc, op, pacc, \* the clause read so far: target letter, group bits, operator, permission bits
          perm,                \* current permission bits (set of bit positions 0..8)
          log                  \* one record per completed clause

vars == <<expr, kind, m0, inp, st, ci, tgt, gacc, op, pacc, perm, log>>
Alphabet == {"d", "f", "a", ":", "u", "g", "o", "+", "-", "=", "r", "w", "x", ","}
Kinds == {"file", "dir", "link"}
TypeOfKind(k) == CASE k = "file" -> 32768 [] k = "dir" -> 16384 [] k = "link" -> 40960

\* ---- the expressions of the bound ----
Pick(base, S) == SelectSeq(base, LAMBDA x : x \in {base[i] : i \in S})                 \* sub-sequence at the positions S
SubSeqs(base) == {Pick(base, S) : S \in (SUBSET (1..Len(base))) \ {{}}}
GroupSpellings == SubSeqs(<<"u", "g", "o", "a">>)                                       \* 15
PermSpellings  == SubSeqs(<<"r", "w", "x">>)                                            \* 7
Clause(t, g, o, p) == <<t, ":">> \o g \o <<o>> \o p
Singles == {Clause(t, g, o, p) : t \in {"d", "f", "a"}, g \in GroupSpellings, o \in {"-", "+", "="}, p \in PermSpellings}   \* 945
DoubleGroupsDef == {<<"u">>, <<"g", "o">>, <<"a">>}
DoublePermsDef  == {<<"r">>, <<"w", "x">>, <<"r", "w", "x">>}
DoubleGroupsT == {<<"u">>, <<"o">>, <<"g", "o">>, <<"a">>}
DoublePermsT  == {<<"r">>, <<"x">>, <<"w", "x">>, <<"r", "w", "x">>}
DClauses == {Clause(t, g, o, p) : t \in {"d", "f", "a"}, g \in DoubleGroups, o \in {"-", "+", "="}, p \in DoublePerms}
Doubles == {c1 \o <<",">> \o c2 : c1 \in DClauses, c2 \in DClauses}
\* the raw strings are enumerated by Init length by length (TLC's UNION of large sets is quadratic):
\*   Strings  = every string over Alphabet up to MaxLen
\*   Longs    = [dfa] ":" s  for every s with MaxLen - 1 <= Len(s) <= LongLen - 2 (a string with another head is rejected within two steps whatever follows)
\*   LaterBad = "a:u+x," s   for every s up to MaxLen - 1 (a good clause, then any string)
GoodHead == <<"a", ":", "u", "+", "x", ",">>
HandWritten == {
   <<"a", ":", "a", "=", "r", "w", "x", ",", "f", ":", "a", "-", "x", ",", "d", ":", "o", "-", "w">>,    \* three clauses
   <<"d", ":", "u", "-", "r", ",", "a", ":", "o", "a", "+", "w">>,                                        \* group letters in any order
   <<"f", ":", "a", "+", "r", ",", "f", ":", "a", "-", "w", "x">>,                                        \* readonly()
   <<"a", ":", "g", "o", "-", "r", "w", "x">>,                                                            \* secure()
   <<"a", ":", "u", "u", "=", "r", "r">>,                                                                 \* repeated letters
   <<"a", ":", "a", "+", "x", "w", "r">>,
   <<"f", "f", ":", "u", "+", "x">>, <<"d", "f", ":", "a", "+", "r">>,                                    \* two target letters: malformed in the one-letter reading of ChmodSym (the crate's unit tests use "ad:", "af:": not judged by Trace_VfsPerm)
   <<"a", ":", "u", "+", "x", ",">>, <<"a", ":", "u", "+", "x", ",", ",", "a", ":", "u", "+", "r">>,      \* empty later clause: unsettled
   <<"a", ":", "u", "+", "x", ",", "f", ":", "a", "+">>,                                                  \* later clause without permission
   <<"a", ":", "u", "+", "-", "x">>, <<"a", ":", "+", "x">>, <<"a", "u", "+", "x">>, <<"u", "+", "x">> }
IsRaw(e) == \/ \E n \in 0..MaxLen : e \in [1..n -> Alphabet]
            \/ \E n \in (MaxLen - 1)..(LongLen - 2) : \E t \in {"d", "f", "a"} : \E x \in [1..n -> Alphabet] : e = <<t, ":">> \o x
            \/ \E n \in 0..(MaxLen - 1) : \E x \in [1..n -> Alphabet] : e = GoodHead \o x

\* ---- the scanner ----
Matched == kind # "link" /\ (tgt = "a" \/ (tgt = "d" /\ kind = "dir") \/ (tgt = "f" /\ kind = "file"))
Applied == LET B == gacc \cap pacc IN
           IF ~Matched THEN perm
           ELSE CASE op = "-" -> perm \ B [] op = "+" -> perm \cup B [] op = "=" -> (perm \ gacc) \cup B
Entry == [t |-> tgt, G |-> gacc, o |-> op, P |-> pacc, m |-> Matched, b |-> perm, a |-> Applied]

\* well-formed expressions from every start permission; the raw strings (whose fate does not depend on the mode) from StringPerms
Init == /\ \/ (expr \in Singles \/ expr \in Doubles \/ expr \in HandWritten) /\ kind \in Kinds /\ \E p \in StartPerms : m0 = TypeOfKind(kind) + p
           \/ IsRaw(expr) /\ kind \in RawKinds /\ \E p \in StringPerms : m0 = TypeOfKind(kind) + p
        /\ inp = expr /\ st = "target" /\ ci = 1 /\ tgt = "-" /\ gacc = {} /\ op = "0" /\ pacc = {}
        /\ perm = Bits(m0) \cap 0..8 /\ log = <<>>

Eat == inp' = Tail(inp)
Same(v) == UNCHANGED v
Empty == /\ st = "target" /\ expr = <<>>                                   \* no expression: nothing to do
         /\ st' = "ok" /\ Same(<<expr, kind, m0, inp, ci, tgt, gacc, op, pacc, perm, log>>)
TargetLetter == /\ st = "target" /\ inp # <<>> /\ IsTarget(Head(inp))
                /\ tgt' = Head(inp) /\ gacc' = {} /\ op' = "0" /\ pacc' = {} /\ st' = "colon" /\ Eat
                /\ Same(<<expr, kind, m0, ci, perm, log>>)
Colon == /\ st = "colon" /\ inp # <<>> /\ Head(inp) = ":"
         /\ st' = "group" /\ Eat /\ Same(<<expr, kind, m0, ci, tgt, gacc, op, pacc, perm, log>>)
GroupLetter == /\ st = "group" /\ inp # <<>> /\ IsGroup(Head(inp))
               /\ gacc' = gacc \cup GroupBits(Head(inp)) /\ Eat
               /\ Same(<<expr, kind, m0, st, ci, tgt, op, pacc, perm, log>>)
Operator == /\ st = "group" /\ inp # <<>> /\ IsOp(Head(inp)) /\ gacc # {}                  \* at least one group letter
            /\ op' = Head(inp) /\ st' = "perms" /\ Eat
            /\ Same(<<expr, kind, m0, ci, tgt, gacc, pacc, perm, log>>)
PermLetter == /\ st = "perms" /\ inp # <<>> /\ IsPerm(Head(inp))
              /\ pacc' = pacc \cup PermBits(Head(inp)) /\ Eat
              /\ Same(<<expr, kind, m0, st, ci, tgt, gacc, op, perm, log>>)
Comma == /\ st = "perms" /\ inp # <<>> /\ Head(inp) = "," /\ pacc # {}                     \* at least one permission letter
         /\ perm' = Applied /\ log' = Append(log, Entry) /\ ci' = ci + 1 /\ st' = "target" /\ Eat
         /\ Same(<<expr, kind, m0, tgt, gacc, op, pacc>>)
Finish == /\ st = "perms" /\ inp = <<>> /\ pacc # {}
          /\ perm' = Applied /\ log' = Append(log, Entry) /\ st' = "ok"
          /\ Same(<<expr, kind, m0, inp, ci, tgt, gacc, op, pacc>>)
\* the next character (or the end of the input) is not allowed here
Legal == IF inp = <<>> THEN (st = "perms" /\ pacc # {}) \/ (st = "target" /\ expr = <<>>)
         ELSE LET c == Head(inp) IN
              CASE st = "target" -> IsTarget(c)
                [] st = "colon"  -> c = ":"
                [] st = "group"  -> IsGroup(c) \/ (IsOp(c) /\ gacc # {})
                [] st = "perms"  -> IsPerm(c) \/ (c = "," /\ pacc # {})
                [] OTHER -> FALSE
Scanning == st \in {"target", "colon", "group", "perms"}
RejectFirst == /\ Scanning /\ ~Legal /\ ci = 1                            \* first clause malformed: error, nothing applied
               /\ st' = "err" /\ Same(<<expr, kind, m0, inp, ci, tgt, gacc, op, pacc, perm, log>>)
RejectLater == /\ Scanning /\ ~Legal /\ ci > 1                            \* later clause malformed: not settled by the documentation
               /\ st' = "unsettled" /\ Same(<<expr, kind, m0, inp, ci, tgt, gacc, op, pacc, perm, log>>)
Next == Empty \/ TargetLetter \/ Colon \/ GroupLetter \/ Operator \/ PermLetter \/ Comma \/ Finish \/ RejectFirst \/ RejectLater
Spec == Init /\ [][Next]_vars

\* ---- what is checked ----
Halted == st \in {"ok", "err", "unsettled"}
Mode == TypeBits(m0) + SumPow((Bits(m0) \cap 9..11) \cup perm)
Ref == SymMode(kind, m0, expr)
AgreesWithSymMode == Halted => /\ Ref.st = (IF st = "unsettled" THEN "*" ELSE st)
                               /\ (st # "unsettled" => Ref.mode = Mode)
TypeBitsKept == /\ perm \subseteq 0..8
                /\ (Halted => TypeBits(Mode) = TypeBits(m0) /\ Bits(Mode) \cap 9..11 = Bits(m0) \cap 9..11)
                /\ (Halted /\ st # "unsettled" => TypeBits(Ref.mode) = TypeBits(m0) /\ Bits(Ref.mode) \cap 9..11 = Bits(m0) \cap 9..11)
LinksUnchanged == kind = "link" => perm = Bits(m0) \cap 0..8 /\ (Halted /\ st # "unsettled" => Ref.mode = m0 /\ Mode = m0)
FirstClauseError == Halted => /\ (st = "err" <=> (expr # <<>> /\ ~WellFormed(Clauses(expr)[1])))
                              /\ (st = "err" => Mode = m0 /\ log = <<>>)
                              /\ (st = "ok" => \A i \in 1..Len(Clauses(expr)) : expr = <<>> \/ WellFormed(Clauses(expr)[i]))
LogOK == Len(log) = IF st \in {"ok"} /\ expr # <<>> THEN Len(Clauses(expr)) ELSE ci - 1
\* every clause touches only G /\ P resp. G; unmatched clauses do nothing
Frame == \A i \in 1..Len(log) : LET e == log[i] IN
            /\ e.a \ e.G = e.b \ e.G
            /\ (~e.m => e.a = e.b)
            /\ (e.m /\ e.o = "=" => e.a \cap e.G = e.G \cap e.P)
            /\ (e.m /\ e.o = "+" => e.b \subseteq e.a /\ e.a \ e.b \subseteq e.G \cap e.P /\ e.G \cap e.P \subseteq e.a)
            /\ (e.m /\ e.o = "-" => e.a \subseteq e.b /\ e.b \ e.a \subseteq e.G \cap e.P /\ e.a \cap (e.G \cap e.P) = {})
            /\ (i > 1 => e.b = log[i - 1].a)
Algebra == \A i \in 2..Len(log) : LET e1 == log[i - 1]  e2 == log[i]  B == e2.G \cap e2.P IN
            /\ (e1.t = e2.t /\ e1.G = e2.G /\ e1.o = e2.o /\ e1.P = e2.P => e2.a = e2.b)                                   \* repeating a clause: idempotent
            /\ (e2.m /\ e1.t = e2.t /\ e1.G = e2.G /\ e1.P = e2.P /\ e1.o = "+" /\ e2.o = "-" => e2.a = e1.b \ B)           \* +P then -P clears exactly P within G
            /\ (e2.m /\ e1.t = e2.t /\ e1.G = e2.G /\ e1.P = e2.P /\ e1.o = "-" /\ e2.o = "+" => e2.a = e1.b \cup B)        \* -P then +P sets exactly P within G
            /\ (e2.m /\ e1.t = e2.t /\ e1.G = e2.G /\ e2.o = "=" => e2.a = (e1.b \ e2.G) \cup B)                            \* "=" forgets the earlier clause on G
\* a clause that does not select the entry is skipped, the following clauses still apply (what A11 violates)
SkipLaw == (st = "ok" /\ Len(log) = 2 /\ ~log[1].m /\ log[2].m) =>
              LET c2 == Clauses(expr)[2] IN Mode = SymMode(kind, m0, c2).mode /\ (log[2].a # log[2].b => Mode # m0)
Progress == [][Len(inp') < Len(inp) \/ (~Halted /\ Halted')]_vars
=============================================================================
