------------------------------- MODULE MC_Abs -------------------------------
(* C05 on the specification: for every string up to MaxLen over Alphabet, every cwd
   of Cwds and every HOME of Homes, PathLex!Abs returns an absolute clean path that
   names the lexical join of the (expanded, scheme-trimmed) argument onto the cwd; it
   is idempotent; and it fails only for the empty path, an invalid expansion / unset
   variable, or ".." climbing above the root. *)
EXTENDS PathLex
CONSTANTS MaxLen, Alphabet
VARIABLES s, cwd, env
CwdsDef == { <<Sep>>, <<Sep, "a">>, <<Sep, "a", Sep, "b">> }
HomesDef == { <<>>, [x \in {HomeName} |-> <<Sep, "h">>], [x \in {HomeName} |-> <<Sep, "h", Sep, "a">>] }
Init == /\ s \in UNION {[1..k -> Alphabet] : k \in 0..MaxLen}
        /\ cwd \in CwdsDef /\ env \in HomesDef
Next == UNCHANGED <<s, cwd, env>>
Spec == Init /\ [][Next]_<<s, cwd, env>>

R == Abs(env, cwd, s)
ExpectedErrors == {"Path::Empty", "Path::MultipleHomeSymbols", "Path::InvalidExpansion", "Var::NotPresent", "Path::ParentNotFound"}
Shape == R.o = "ok" => IsAbs(R.v) /\ IsCleanForm(R.v)
Idempotent == R.o = "ok" => Abs(env, cwd, R.v) = R
OnlyDocumentedFailures == R.o # "ok" => R.o \in ExpectedErrors
EmptyFails == (s = <<>>) <=> (R.o = "Path::Empty")
\* the lexical join: cleaning cwd/x gives the same location unless the walk leaves the root
JoinLaw == LET e == Expand(env, s) IN (s # <<>> /\ e.o = "ok") =>
             LET x == TrimProtocol(e.v)  j == IF IsAbs(x) THEN x ELSE cwd \o <<Sep>> \o x IN
               /\ (R.o = "ok" => R.v = Clean(j))
               /\ (R.o # "ok" => R.o = "Path::ParentNotFound")
\* ParentNotFound exactly when the ".." of the relative argument outnumber the cwd's components
ClimbLaw == LET e == Expand(env, s) IN (s # <<>> /\ e.o = "ok" /\ ~IsAbs(Clean(TrimProtocol(e.v)))) =>
             LET c == Segs(Clean(TrimProtocol(e.v)))  up == Cardinality({i \in 1..Len(c) : c[i] = DotDot}) IN
               (R.o = "Path::ParentNotFound") <=> (up > Len(Segs(cwd)))
=============================================================================
