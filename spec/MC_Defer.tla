------------------------------- MODULE MC_Defer -------------------------------
(* Design-level exploration of the defer machine of CoreExt: TLC starts it from EVERY program shape of the
   bound (nesting depth <= MaxDepth, 0..MaxG guards per scope, KidsAt[d] nested scopes at depth d, every
   combination of fall-through / return / panic exits) and checks on every reachable state that the log obeys
   the property statement - each closure at most once and only after its guard was created, reverse order
   of creation inside a scope and across scopes, not before the scope ends and not later - and on every final
   state that every created guard ran exactly once and that the run equals the closed form DeferLog used by
   the trace validator.  The machine may not get stuck (deadlock check) and finishes within StepBound steps. *)
EXTENDS CoreExt
CONSTANTS MaxDepth, MaxG, KidsAt
VARIABLES prog, d, n
vars == <<prog, d, n>>

KidSeqs(S, k) == UNION {[1..m -> S] : m \in 0..k}
RECURSIVE Shp(_)
Shp(depth) == IF depth > MaxDepth THEN {} ELSE [g : 0..MaxG, kids : KidSeqs(Shp(depth + 1), KidsAt[depth]), x : Exits]
RECURSIVE NScopes(_)
RECURSIVE SumKids(_, _)
SumKids(ks, i) == IF i > Len(ks) THEN 0 ELSE NScopes(ks[i]) + SumKids(ks, i + 1)
NScopes(s) == 1 + SumKids(s.kids, 1)
StepBound == 9 * NScopes(prog)              \* per scope: 5 statements + <= 2 closures + pop (+ 1 spare)

Init == prog \in Shp(1) /\ d = DInit(prog) /\ n = 0
Tick == n' = n + 1 /\ UNCHANGED prog
CreateGuard == EnCreate(d) /\ d' = DoCreate(d) /\ Tick
SkipGuard == EnSkipGuard(d) /\ d' = DoAdvance(d) /\ Tick
EnterScope == EnEnter(d) /\ d' = DoEnter(d) /\ Tick
SkipScope == EnSkipKid(d) /\ d' = DoAdvance(d) /\ Tick
ExitFall == EnExit(d, "fall") /\ d' = DoExit(d, "fall") /\ Tick
ExitReturn == EnExit(d, "return") /\ d' = DoExit(d, "return") /\ Tick
ExitPanic == EnExit(d, "panic") /\ d' = DoExit(d, "panic") /\ Tick
RunClosure == EnRunGuard(d) /\ d' = DoRunGuard(d) /\ Tick
PopScope == EnPop(d) /\ d' = DoPop(d) /\ Tick
Finished == d.mode = "done" /\ UNCHANGED vars
Next == CreateGuard \/ SkipGuard \/ EnterScope \/ SkipScope \/ ExitFall \/ ExitReturn \/ ExitPanic \/ RunClosure \/ PopScope \/ Finished
Spec == Init /\ [][Next]_vars

B2N(b) == IF b THEN 1 ELSE 0
Deterministic == d.mode # "done" =>
   B2N(EnCreate(d)) + B2N(EnSkipGuard(d)) + B2N(EnEnter(d)) + B2N(EnSkipKid(d)) + B2N(EnExit(d, "fall")) + B2N(EnExit(d, "return"))
     + B2N(EnExit(d, "panic")) + B2N(EnRunGuard(d)) + B2N(EnPop(d)) = 1
\* The log predicates quantify over positions only, so they hold on every prefix of a log on which they hold:
\* every reachable log is a prefix of a final one (Terminates + deadlock check), evaluating them there is enough.
AtMostOnceInv == d.mode = "done" => AtMostOnce(d.log) /\ RunAfterCreate(d.log)
ReverseInv == d.mode = "done" => ReverseOrder(d.log) /\ Lifo(d.log)
ScopeEndInv == d.mode = "done" => NotEarly(d.log) /\ Prompt(d.log)
\* live guards are exactly the created ones whose closure has not run (nothing is forgotten while running)
RECURSIVE LiveOf(_, _)
LiveOf(st, i) == IF i > Len(st) THEN {} ELSE {st[i].live[k] : k \in DOMAIN st[i].live} \cup LiveOf(st, i + 1)
LiveInv == LiveOf(d.stack, 1) = {d.log[i] : i \in {j \in DOMAIN d.log : IsGuard(d.log[j]) /\ ~\E m \in DOMAIN d.log : d.log[m] = -d.log[j]}}
RECURSIVE ScopeAt(_, _)
ScopeAt(s, code) == IF code = 1 THEN s ELSE ScopeAt(s, code \div 10).kids[code % 10]
LastMark(log) == log[CHOOSE i \in DOMAIN log : IsMark(log[i]) /\ \A j \in (i + 1)..Len(log) : ~IsMark(log[j])]
FinalInv == d.mode = "done" => /\ ExactlyOnce(d.log)
                               /\ d.stack = <<>>
                               /\ d.how = (IF ScopeAt(prog, ScopeOf(LastMark(d.log))).x = "panic" THEN "panicked" ELSE "returned")
                               /\ DeferLog(prog).log = d.log /\ DeferLog(prog).how = d.how
Terminates == n <= StepBound
\* bounds (cfg files cannot contain tuples)
KidsDeep == <<1, 2, 0>>         \* depth 3:  7 380 programs (one nested scope at the top, two at the second level)
KidsFlat == <<2, 0>>            \* depth 2:    819 programs (two nested scopes at the top)
KidsWide == <<2, 1, 0>>         \* depth 3: 73 719 programs (thorough tier; ~40 s)
=============================================================================
