------------------------------- MODULE Trace_Conc -------------------------------
(* C04: validator of schedules executed on real threads under the controlled scheduler (records "s") and of
   free-running stress runs whose critical sections were stamped under the lock (records "x").
   "s": [prog, sched (thread id per released gate: first gate of a call = invoke gate, then one per guard),
         gates (guards taken per call), kinds, res, final (REP), nested, deadlock, poisoned]
   Judged: no deadlock, no nested acquisition, no poisoning, no panic; every call of C04's single-step list took
   exactly ONE guard (so it is one critical section); the results and the final state are those of a sequential
   execution of the calls - the order of the critical sections when every call has one (that order respects
   program order and real-time precedence by construction), otherwise some order found by search that respects
   both; the final representation is well formed (C03 at quiescence). *)
EXTENDS VfsJudge, Integers
Recs == ndJsonDeserialize(IOEnv.TRACE)

SingleStep == {"mkdir_p", "mkdir_m", "mkfile", "remove", "remove_all", "move_p", "copy", "symlink", "set_cwd", "append_all", "write_all",
               "append_line", "append_lines", "write_lines",      \* one append_all / write_all each
               "read_all", "read_lines", "read", "exists", "is_dir", "is_file", "is_symlink", "is_symlink_dir", "is_symlink_file", "is_exec",
               "is_readonly", "mode", "owner", "uid", "gid", "readlink", "readlink_abs", "cwd", "root", "entry", "abs",
               "paths", "dirs", "files", "all_paths", "all_dirs", "all_files"}       \* "listing snapshots"
WriteOps == {"mkdir_p", "mkdir_m", "mkfile", "remove", "remove_all", "move_p", "copy", "symlink", "set_cwd", "append_all", "write_all",
             "append_line", "append_lines", "write_lines"}

\* the tree every run starts from (harness: default_tree): /a/c directories, /f file "0"
Init0 == [fs |-> (Root :> NDir(MemOwn)), cwd |-> Root]
InitSt == LET a == Op_mkdir_p(Init0, MemOwn, <<"a", "c">>).st IN Op_write_all(a, MemOwn, <<"f">>, <<48>>).st

\* ---- sequential step on a SET of candidate states (outcomes the documentation leaves open branch) ----
NextStates(s, c, got) == LET o == Expected(s, c, MemOwn) IN
   IF ~ResMatch(s, c, o.res, got) THEN {}
   ELSE IF o.paired THEN (IF got.o = "ok" THEN {o.st} ELSE {s})
   ELSE {o.st} \cup o.alt
StepSet(S, c, got) == UNION {NextStates(s, c, got) : s \in S}
RECURSIVE RunSeq(_, _, _, _)      \* order: sequence of <<t, i>>
RunSeq(S, order, prog, res) == IF order = <<>> \/ S = {} THEN S
   ELSE LET x == order[1] IN RunSeq(StepSet(S, prog[x[1]][x[2]], res[x[1]][x[2]]), Tail(order), prog, res)
FinalOK(S, final) == \E s \in S : StEq(s, final)

\* ---- positions: walk the schedule; per call: invoke position, positions of its guards ----
\* W = [pc, left (guards still to come for the current call, -1 = waiting at the invoke gate), inv, rsp, lin, pos]
RECURSIVE Walk(_, _, _, _)
Walk(sched, gates, k, W) == IF k > Len(sched) THEN W ELSE
   LET t == sched[k] IN
   IF W.pc[t] > Len(gates[t]) THEN [W EXCEPT !.bad = TRUE]
   ELSE IF W.left[t] = -1 THEN       \* invoke gate of call pc[t]
        LET n == gates[t][W.pc[t]] IN
        Walk(sched, gates, k + 1,
             IF n = 0 THEN [W EXCEPT !.inv[t] = Append(@, k), !.rsp[t] = Append(@, k), !.lin[t] = Append(@, k), !.pc[t] = @ + 1]
             ELSE [W EXCEPT !.inv[t] = Append(@, k), !.left[t] = n])
   ELSE LET last == W.left[t] = 1 IN   \* a guard gate: the critical section runs now
        Walk(sched, gates, k + 1,
             IF last THEN [W EXCEPT !.left[t] = -1, !.rsp[t] = Append(@, k), !.lin[t] = Append(@, k), !.pc[t] = @ + 1]
             ELSE [W EXCEPT !.left[t] = @ - 1])
Walk0(r) == LET n == Len(r.prog) IN
   Walk(r.sched, r.gates, 1, [pc |-> [t \in 1..n |-> 1], left |-> [t \in 1..n |-> -1], inv |-> [t \in 1..n |-> <<>>], rsp |-> [t \in 1..n |-> <<>>],
                              lin |-> [t \in 1..n |-> <<>>], bad |-> FALSE])

CallIds(prog) == {x \in (1..Len(prog)) \X (1..8) : x[2] <= Len(prog[x[1]])}
RECURSIVE SortByLin(_, _)
SortByLin(S, W) == IF S = {} THEN <<>> ELSE
   LET m == CHOOSE x \in S : \A y \in S : W.lin[x[1]][x[2]] <= W.lin[y[1]][y[2]] IN <<m>> \o SortByLin(S \ {m}, W)
RECURSIVE Orders(_)
Orders(S) == IF S = {} THEN {<<>>} ELSE UNION {{<<x>> \o o : o \in Orders(S \ {x})} : x \in S}
Before(W, a, b) == (a[1] = b[1] /\ a[2] < b[2]) \/ (a[1] # b[1] /\ W.rsp[a[1]][a[2]] < W.inv[b[1]][b[2]])

ProgOps(prog) == {prog[x[1]][x[2]].op : x \in CallIds(prog)}
OpsTag(prog) == IF ProgOps(prog) \cap WriteOps = {} THEN "readers-only" ELSE IF Cardinality(ProgOps(prog) \cap WriteOps) >= 2 THEN "writers" ELSE "one-writer-op"

JudgeS(r) ==
   IF r.deadlock = "t" THEN << <<"BAD", "sched", "deadlock-or-call-never-returned">> >>
   ELSE IF r.nested = "t" THEN << <<"BAD", "sched", "nested-guard-acquisition">> >>
   ELSE IF r.poisoned # "f" THEN << <<"BAD", "sched", "lock-poisoned">> >>
   ELSE IF \E x \in CallIds(r.prog) : r.res[x[1]][x[2]].o = "panic" THEN << <<"BAD", "sched", "panic">> >>
   ELSE LET ids == CallIds(r.prog)
            multi == {x \in ids : r.prog[x[1]][x[2]].op \in SingleStep /\ r.gates[x[1]][x[2]] # 1}
            viol == RepViolation(r.final)
        IN IF multi # {} THEN LET x == CHOOSE y \in multi : TRUE IN
                << <<"BAD", "sched", "single-step-call-is-not-one-critical-section", r.prog[x[1]][x[2]].op, IF r.gates[x[1]][x[2]] = 0 THEN "no-guard" ELSE "several-guards">> >>
           ELSE IF \E x \in ids : r.prog[x[1]][x[2]].op \in WriteOps /\ r.gates[x[1]][x[2]] = 1 /\ r.kinds[x[1]][x[2]] # <<"W">> THEN
                LET x == CHOOSE y \in ids : r.prog[y[1]][y[2]].op \in WriteOps /\ r.gates[y[1]][y[2]] = 1 /\ r.kinds[y[1]][y[2]] # <<"W">> IN
                << <<"BAD", "sched", "mutator-not-under-the-exclusive-guard", r.prog[x[1]][x[2]].op>> >>      \* a shared guard does not exclude readers: not atomic
           ELSE IF viol # "-" THEN << <<"BAD", "sched", "quiescent-state-illformed", viol>> >>
           ELSE IF r.judge = "wf" THEN << <<"ok", "sched-composite", OpsTag(r.prog), "nt">> >>      \* C03: several-guard calls are not claimed atomic
           ELSE LET W == Walk0(r)  final == AbsOf(r.final) IN
                IF W.bad THEN << <<"BAD", "sched", "schedule-log-inconsistent">> >>
                ELSE IF \A x \in ids : r.gates[x[1]][x[2]] = 1 THEN
                     \* every call is one critical section: the order of the critical sections is the linearization
                     (IF FinalOK(RunSeq({InitSt}, SortByLin(ids, W), r.prog, r.res), final) THEN << <<"ok", "sched", OpsTag(r.prog), "nt">> >>
                      ELSE << <<"BAD", "sched", "not-the-sequential-outcome-of-the-critical-section-order", OpsTag(r.prog)>> >>)
                ELSE (IF \E o \in Orders(ids) : (\A i, j \in 1..Len(o) : i < j => ~Before(W, o[j], o[i])) /\ FinalOK(RunSeq({InitSt}, o, r.prog, r.res), final)
                      THEN << <<"ok", "sched", OpsTag(r.prog), "nt">> >>
                      ELSE << <<"BAD", "sched", "not-linearizable", OpsTag(r.prog)>> >>)

\* stress: steps are the calls in the order of the stamps taken under the lock
RECURSIVE RunX(_, _, _)
RunX(S, steps, i) == IF i > Len(steps) \/ S = {} THEN [S |-> S, at |-> i] ELSE RunX(StepSet(S, steps[i].c, steps[i].r), steps, i + 1)
JudgeX(r) ==
   IF r.poisoned # "f" THEN << <<"BAD", "stress", "lock-poisoned">> >>
   ELSE IF r.guard_count_mismatch # 0 THEN << <<"BAD", "stress", "some-call-is-not-one-critical-section">> >>
   ELSE IF \E i \in 1..Len(r.steps) : r.steps[i].r.o = "panic" THEN << <<"BAD", "stress", "panic">> >>
   ELSE IF RepViolation(r.final) # "-" THEN << <<"BAD", "stress", "quiescent-state-illformed", RepViolation(r.final)>> >>
   ELSE LET x == RunX({InitSt}, r.steps, 1) IN
        IF x.S = {} THEN << <<"BAD", "stress", "result-not-explained-by-lock-order", r.steps[x.at - 1].c.op>> >>
        ELSE IF FinalOK(x.S, AbsOf(r.final)) THEN << <<"ok", "stress", "nt">> >> ELSE << <<"BAD", "stress", "final-state-not-explained-by-lock-order">> >>

Judge(r) == IF r.k = "s" THEN JudgeS(r) ELSE JudgeX(r)

VARIABLES l
Init == l = 1 /\ TLCSet(1, <<>>) /\ TLCSet(2, 0)
Next == /\ l <= Len(Recs)
        /\ TLCSet(1, UpdAll(TLCGet(1), Judge(Recs[l]), l))
        /\ TLCSet(2, TLCGet(2) + (IF Recs[l].k = "x" THEN Len(Recs[l].steps) ELSE 0))
        /\ l' = l + 1
Done == (l = Len(Recs) + 1) => JsonSerialize(IOEnv.OUT, [checked |-> Len(Recs), events |-> TLCGet(2), classes |-> TLCGet(1)])
Spec == Init /\ [][Next]_l
=============================================================================
