INIT TInit
NEXT TNext
INVARIANT Done
CHECK_DEADLOCK FALSE
CONSTANTS
  Methods = {"any"}
