INIT Init
NEXT Next
INVARIANT Done
CHECK_DEADLOCK FALSE
