------------------------------- MODULE LockProto -------------------------------
(* The lock protocol behind Memfs: one std::sync::RwLock, every access through a guard taken for the
   duration of one critical section.  std's RwLock may prefer writers: once a writer waits, new readers wait
   too.  Under the discipline the code follows - a thread never acquires while it already holds a guard
   (NoNestedAcquire; the harness detects a violation of it through the guard hooks on every schedule) - every
   acquisition is eventually granted.  With Nesting = TRUE (a thread re-acquiring a read guard while holding
   one) TLC finds the classic deadlock: reader holds, writer queues, reader re-enters behind the writer.
   That configuration is the negative control. *)
EXTENDS Naturals, FiniteSets
CONSTANTS Threads, Nesting
VARIABLES readers,   \* function thread -> number of read guards held
          writer,    \* thread holding the write guard, or 0
          want,      \* thread -> "none" | "read" | "write" (waiting for a guard)
          done       \* critical sections completed per thread
vars == <<readers, writer, want, done>>
MaxCS == 2
Init == readers = [t \in Threads |-> 0] /\ writer = 0 /\ want = [t \in Threads |-> "none"] /\ done = [t \in Threads |-> 0]
Holds(t) == readers[t] > 0 \/ writer = t
WriterWaiting == \E t \in Threads : want[t] = "write"
Request(t, k) == /\ want[t] = "none" /\ done[t] < MaxCS
                 /\ (Holds(t) => (Nesting /\ k = "read" /\ readers[t] = 1))       \* the discipline: request only when holding nothing
                 /\ want' = [want EXCEPT ![t] = k] /\ UNCHANGED <<readers, writer, done>>
GrantRead(t) == /\ want[t] = "read" /\ writer = 0 /\ ~WriterWaiting                \* writer preference
                /\ readers' = [readers EXCEPT ![t] = @ + 1] /\ want' = [want EXCEPT ![t] = "none"] /\ UNCHANGED <<writer, done>>
GrantWrite(t) == /\ want[t] = "write" /\ writer = 0 /\ \A u \in Threads : readers[u] = 0
                 /\ writer' = t /\ want' = [want EXCEPT ![t] = "none"] /\ UNCHANGED <<readers, done>>
Release(t) == /\ want[t] = "none" /\ Holds(t)
              /\ IF writer = t THEN writer' = 0 /\ UNCHANGED readers ELSE readers' = [readers EXCEPT ![t] = @ - 1] /\ UNCHANGED writer
              /\ done' = [done EXCEPT ![t] = IF ~Holds(t)' THEN @ + 1 ELSE @] /\ UNCHANGED want
RequestRead == \E t \in Threads : Request(t, "read")
RequestWrite == \E t \in Threads : Request(t, "write")
GrantR == \E t \in Threads : GrantRead(t)
GrantW == \E t \in Threads : GrantWrite(t)
Rel == \E t \in Threads : Release(t)
Next == RequestRead \/ RequestWrite \/ GrantR \/ GrantW \/ Rel
Fair == WF_vars(GrantR) /\ WF_vars(GrantW) /\ WF_vars(Rel)
Spec == Init /\ [][Next]_vars /\ Fair

MutualExclusion == /\ (writer # 0 => \A t \in Threads : readers[t] = 0)
                   /\ \A t \in Threads : readers[t] <= (IF Nesting THEN 2 ELSE 1)
NoNestedAcquire == \A t \in Threads : want[t] # "none" => ~Holds(t)
\* a waiting thread can always be served eventually: no state in which somebody waits and nothing can move
NoDeadlock == (\E t \in Threads : want[t] # "none") => (ENABLED GrantR \/ ENABLED GrantW \/ ENABLED Rel)
EveryAcquireEventuallyGranted == \A t \in Threads : (want[t] # "none") ~> (want[t] = "none")
=============================================================================
