------------------------------- MODULE Trace_CoreExt -------------------------------
(* Record validator for C19: every record written by harness/src/bin/coreext.rs (one input, the outputs of the
   real rivia helpers on it) is judged against the definitions of CoreExt.tla.
   Classes: <<"ok", kind, "nt"|"tr">>, <<"skip", why>>, <<"BAD", function, violated law, input-class flags...>>. *)
EXTENDS CoreExt, Tally, Json, IOUtils

Recs == ndJsonDeserialize(IOEnv.TRACE)

Flag(b, x) == IF b THEN x ELSE "-"
Sign(name, i) == name \o (IF i = 0 THEN "=0" ELSE IF i > 0 THEN ">0" ELSE "<0")
BoolV(b) == IF b THEN <<"true">> ELSE <<"false">>
Panicked(x) == x.o = "panic"
\* one check: a panic is BAD whatever the law; `holds` is only evaluated when the call returned
Chk(x, fn, law, flags, holds) == IF Panicked(x) THEN << <<"BAD", fn, "panic">> \o flags >>
                                 ELSE IF holds THEN <<>> ELSE << <<"BAD", fn, law>> \o flags >>
Is(x, e) == x.o = e.o /\ x.v = e.v                                     \* result records (a panic record has an extra field)

\* ---- slice / drop
LenClass(len) == IF len <= 2 THEN "len=" \o ToString(len) ELSE "len>2"
SliceFlags(r) == << Sign("r", r.r), Sign("l", r.l), LenClass(r.len) >>
JudgeSL(r) == IF ~InSliceDomain(r.len, r.l)
              THEN (IF Panicked(r.o.slice) \/ Panicked(r.o.x_slice) THEN << <<"BAD", "slice", "panic", "l<-len">> >> ELSE << <<"skip", "slice:l<-len">> >>)
              ELSE LET e == Ok(Slice(r.len, r.l, r.r)) IN
                   Chk(r.o.slice, "slice", "=Slice", SliceFlags(r), Is(r.o.slice, e))
                \o Chk(r.o.x_slice, "x_slice", "=Slice", SliceFlags(r), Is(r.o.x_slice, e))
JudgeDR(r) == LET e == Ok(Drop(r.len, r.n))  fl == << Sign("n", r.n), Flag(Abs(r.n) >= r.len, "|n|>=len") >> IN
                   Chk(r.o.drop, "drop", "=Drop", fl, Is(r.o.drop, e))
                \o Chk(r.o.x_drop, "x_drop", "=Drop", fl, Is(r.o.x_drop, e))

\* ---- first .. consume, Option::has
SeqClass(s) == << IF Len(s) <= 1 THEN "len=" \o ToString(Len(s)) ELSE "len>1" >>
JudgeIT(r) == LET s == r.s  o == r.o  fl == SeqClass(r.s) IN
      Chk(o.first, "first", "=First", fl, Is(o.first, Ok(First(s))))
   \o Chk(o.first_result, "first_result", "=FirstResult", fl, Is(o.first_result, FirstResult(s)))
   \o Chk(o.last_result, "last_result", "=LastResult", fl, Is(o.last_result, LastResult(s)))
   \o Chk(o.single, "single", "=Single", fl, Is(o.single, Single(s)))
   \o Chk(o.some, "some", "=Some", fl, Is(o.some, Ok(BoolV(Some(s)))))
   \o Chk(o.consume, "consume", "nothing-left", fl, Is(o.consume, Ok(Consume(s))))
JudgeOH(r) == LET e == Ok(BoolV(OptionHas(r.opt, r.x)))  fl == << Flag(r.opt = <<>>, "none") >> IN
      Chk(r.o.has, "has", "=OptionHas", fl, Is(r.o.has, e)) \o Chk(r.o.has_s, "has_s", "=OptionHas", fl, Is(r.o.has_s, e))

\* ---- take_while_p: value = <<taken, what the following next() returned, everything after that>>
TwExpected(r) == LET P(x) == IF r.p = "le" THEN x <= r.t ELSE x % 2 = 0 IN TakeWhileP(r.s, P)
TwLaw(v, e) == IF v[1] # e.taken THEN "longest-prefix" ELSE IF v[2] # First(e.rest) THEN "failing-item-unconsumed" ELSE "rest-intact"
TwOk(x, e) == x.o = "ok" /\ x.v = << e.taken, First(e.rest), IF e.rest = <<>> THEN <<>> ELSE Tail(e.rest) >>
JudgeTW(r) == LET e == TwExpected(r)  fl == << r.p, Flag(e.rest = <<>>, "all-pass"), Flag(e.taken = <<>>, "none-pass") >> IN
      Chk(r.o.next, "take_while_p", IF r.o.next.o = "ok" THEN TwLaw(r.o.next.v, e) ELSE "error", fl, TwOk(r.o.next, e))
   \o Chk(r.o.fold, "take_while_p.fold", IF r.o.fold.o = "ok" THEN TwLaw(r.o.fold.v, e) ELSE "error", fl, TwOk(r.o.fold, e))

\* ---- strings
MultiByte(r) == Len(r.ab) # Len(r.a)
JudgeST(r) == LET o == r.o  n == SizeUtf8(r.ab)
                  fl == << Flag(MultiByte(r), "multibyte"), Flag(~ToBool(r.a), "falsey") >> IN
      Chk(o.size, "size", "=characters", fl, n = Size(r.a) /\ Is(o.size, Ok(<<n>>)))
   \o Chk(o.S_size, "String::size", "=characters", fl, Is(o.S_size, Ok(<<n>>)))
   \o Chk(o.to_bool, "to_bool", "=ToBool", fl, Is(o.to_bool, Ok(BoolV(ToBool(r.a)))))
   \o Chk(o.S_to_bool, "String::to_bool", "=ToBool", fl, Is(o.S_to_bool, Ok(BoolV(ToBool(r.a)))))
NonAscii(s) == \E i \in DOMAIN s : s[i] \notin {" ", "0", "a", "F", "f", "l", "s", "e", "A", "L", "S", "E", "\t"}
JudgeTS(r) == LET e == Ok(TrimSuffixStr(r.a, r.b))
                  fl == << Flag(NonAscii(r.a) \/ NonAscii(r.b), "nonascii"), Flag(EndsWithStr(r.a, r.b), "is-suffix") >> IN
      Chk(r.o.trim_suffix, "trim_suffix", "=TrimSuffixStr", fl, Is(r.o.trim_suffix, e))
   \o Chk(r.o.S_trim_suffix, "String::trim_suffix", "=TrimSuffixStr", fl, Is(r.o.S_trim_suffix, e))

\* ---- defer: the observed log of a real execution of the program shape against the machine
DeferLaw(x, e) == IF ~ExactlyOnce(x.log) THEN "exactly-once"
                  ELSE IF ~(ReverseOrder(x.log) /\ Lifo(x.log)) THEN "reverse-order"
                  ELSE IF ~(NotEarly(x.log) /\ Prompt(x.log)) THEN "at-scope-end"
                  ELSE IF x.how # e.how THEN "termination" ELSE "=machine"
JudgeDF1(fn, x, e) == IF x.log = e.log /\ x.how = e.how THEN <<>> ELSE << <<"BAD", fn, DeferLaw(x, e), e.how>> >>
JudgeDF(r) == LET e == DeferLog(r.p) IN JudgeDF1("defer", r.o.func, e) \o JudgeDF1("defer!", r.o.mac, e)
NGuards(log) == Cardinality({i \in DOMAIN log : IsGuard(log[i])})

\* guards created INSIDE a deferred closure (it runs at scope exit, during an unwind when the scope is left by a panic): the closure
\* is a scope of its own - its guards run when it ends, last created first, each exactly once, however the outer scope was left
NestedExpected(n) == <<11, 10, -11>> \o [i \in 1..n |-> 110 + i] \o <<-119>> \o [i \in 1..n |-> -(110 + (n + 1 - i))]
JudgeDN(r) == LET want == NestedExpected(r.n)  how == IF r.x = "panic" THEN "panicked" ELSE "returned"
                  bad(route, o) == IF o.how # how THEN << <<"BAD", "defer-nested", route, "left-differently", r.x>> >>
                                   ELSE IF o.log # want THEN << <<"BAD", "defer-nested", route, IF Len(o.log) < Len(want) THEN "closure-not-run" ELSE "order-or-count", r.x>> >>
                                   ELSE <<>> IN
              bad("func", r.o.func) \o bad("mac", r.o.mac)
Judge(r) == CASE r.k = "dn" -> JudgeDN(r) [] r.k = "sl" -> JudgeSL(r) [] r.k = "dr" -> JudgeDR(r) [] r.k = "it" -> JudgeIT(r) [] r.k = "oh" -> JudgeOH(r)
              [] r.k = "tw" -> JudgeTW(r) [] r.k = "st" -> JudgeST(r) [] r.k = "ts" -> JudgeTS(r) [] r.k = "df" -> JudgeDF(r)
\* a record is non-trivial when the helper had something to do
NT(r) == LET nt(b) == IF b THEN "nt" ELSE "tr" IN
         CASE r.k = "sl" -> nt(Slice(r.len, r.l, r.r) \notin {<<>>, Iota(r.len)})
           [] r.k = "dr" -> nt(0 < Abs(r.n) /\ Abs(r.n) < r.len)
           [] r.k = "it" -> nt(Len(r.s) >= 2)
           [] r.k = "oh" -> nt(r.opt # <<>>)
           [] r.k = "tw" -> nt(TwExpected(r).taken # <<>> /\ TwExpected(r).rest # <<>>)
           [] r.k = "st" -> nt(MultiByte(r) \/ ~ToBool(r.a))
           [] r.k = "ts" -> nt(r.b # <<>> /\ EndsWithStr(r.a, r.b))
           [] r.k = "df" -> nt(NGuards(r.o.func.log) >= 2)
           [] r.k = "dn" -> nt(r.n >= 1)

VARIABLES l
Init == l = 1 /\ TLCSet(1, <<>>)
Next == /\ l <= Len(Recs)
        /\ LET j == Judge(Recs[l]) IN TLCSet(1, UpdAll(TLCGet(1), IF j = <<>> THEN << <<"ok", Recs[l].k, NT(Recs[l])>> >> ELSE j, l))
        /\ l' = l + 1
Done == (l = Len(Recs) + 1) => JsonSerialize(IOEnv.OUT, [checked |-> Len(Recs), classes |-> TLCGet(1)])
Spec == Init /\ [][Next]_l
=============================================================================
