CONSTANTS
  Threads = {1, 2}
  Shapes <- ShapesDef
SPECIFICATION Spec
INVARIANTS CountIsInProgress SilentWhileCapturing DefaultWhenIdle ReportsOwnOutcome
PROPERTY EventuallyIdle
CHECK_DEADLOCK FALSE
