CONSTANTS
  MaxDepth = 2
  MaxG = 2
  KidsAt <- KidsFlat
SPECIFICATION Spec
INVARIANTS Deterministic AtMostOnceInv ReverseInv ScopeEndInv LiveInv FinalInv Terminates
CHECK_DEADLOCK TRUE
