--------------------------- MODULE LockProtoInd ---------------------------
(* Typed transcription of LockProto (Nesting = FALSE: the discipline the code follows) for Apalache: the safety half of the
   protocol as an INDUCTIVE invariant, i.e. for behaviours of any length and any number of critical sections (LockProto's TLC
   run bounds both).  Init => IndInv (length 0) and IndInv /\ Next => IndInv' (length 1, from IndInit) are discharged by
   apalache-mc; the actions are the ones of LockProto.tla line by line (done counters dropped: they only bound TLC's run). *)
EXTENDS Naturals, FiniteSets
CONSTANTS
  \* @type: Set(Int);
  Threads
VARIABLES
  \* @type: Int -> Int;
  readers,
  \* @type: Int;
  writer,
  \* @type: Int -> Str;
  want
ConstInit == Threads = {1, 2, 3, 4}
Init == readers = [t \in Threads |-> 0] /\ writer = 0 /\ want = [t \in Threads |-> "none"]
Holds(t) == readers[t] > 0 \/ writer = t
WriterWaiting == \E t \in Threads : want[t] = "write"
Request(t, k) == /\ want[t] = "none" /\ ~Holds(t)
                 /\ want' = [want EXCEPT ![t] = k] /\ UNCHANGED <<readers, writer>>
GrantRead(t) == /\ want[t] = "read" /\ writer = 0 /\ ~WriterWaiting
                /\ readers' = [readers EXCEPT ![t] = @ + 1] /\ want' = [want EXCEPT ![t] = "none"] /\ UNCHANGED writer
GrantWrite(t) == /\ want[t] = "write" /\ writer = 0 /\ \A u \in Threads : readers[u] = 0
                 /\ writer' = t /\ want' = [want EXCEPT ![t] = "none"] /\ UNCHANGED readers
Release(t) == /\ want[t] = "none" /\ Holds(t)
              /\ IF writer = t THEN writer' = 0 /\ UNCHANGED readers ELSE readers' = [readers EXCEPT ![t] = @ - 1] /\ UNCHANGED writer
              /\ UNCHANGED want
Next == \E t \in Threads : \/ Request(t, "read") \/ Request(t, "write") \/ GrantRead(t) \/ GrantWrite(t) \/ Release(t)
TypeOK == /\ readers \in [Threads -> 0..1] /\ writer \in Threads \cup {0} /\ want \in [Threads -> {"none", "read", "write"}]
MutualExclusion == /\ (writer # 0 => \A t \in Threads : readers[t] = 0)
                   /\ \A t \in Threads : readers[t] <= 1
NoNestedAcquire == \A t \in Threads : want[t] # "none" => ~Holds(t)
\* somebody waits => some grant or release is possible (the ENABLED of LockProto!NoDeadlock written out)
CanMove == \/ \E t \in Threads : want[t] = "read" /\ writer = 0 /\ ~WriterWaiting
           \/ \E t \in Threads : want[t] = "write" /\ writer = 0 /\ \A u \in Threads : readers[u] = 0
           \/ \E t \in Threads : want[t] = "none" /\ Holds(t)
NoDeadlock == (\E t \in Threads : want[t] # "none") => CanMove
IndInv == TypeOK /\ MutualExclusion /\ NoNestedAcquire /\ NoDeadlock
IndInit == IndInv
=============================================================================
