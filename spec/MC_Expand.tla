------------------------------- MODULE MC_Expand -------------------------------
(* Variable expansion inside one path component as a character scanner (states lit /
   dollar / name), explored from every component string up to MaxLen over Alphabet in
   every environment of Envs.  Its final outcome must equal the recursive operator
   PathLex!ExpandSeg that judges the implementation, and the laws of C17 must hold:
   text without '$' is unchanged, an empty name or an unset variable is an error
   (never a guess), every $NAME / ${NAME} is replaced by exactly the variable's value. *)
EXTENDS PathLex
CONSTANTS MaxLen, Alphabet, Values
VARIABLES orig, env, inp, acc, st, nm

VName == <<"V">>
ValuesDef == {<<>>, <<"v">>, <<"x", "/", "y">>}     \* cfg: Values <- ValuesDef (tuples cannot be written in a cfg)
Envs == {<<>>} \cup {[x \in {VName} |-> v] : v \in Values}      \* V unset, or V = one of Values
vars == <<orig, env, inp, acc, st, nm>>
Init == /\ orig \in UNION {[1..k -> Alphabet] : k \in 0..MaxLen}
        /\ env \in Envs
        /\ inp = orig /\ acc = <<>> /\ st = "lit" /\ nm = <<>>

Finish   == st = "lit" /\ inp = <<>> /\ st' = "done" /\ UNCHANGED <<orig, env, inp, acc, nm>>
Literal  == st = "lit" /\ inp # <<>> /\ Head(inp) # "$" /\ acc' = Append(acc, Head(inp)) /\ inp' = Tail(inp) /\ UNCHANGED <<orig, env, st, nm>>
Dollar   == st = "lit" /\ inp # <<>> /\ Head(inp) = "$" /\ st' = "dollar" /\ inp' = Tail(inp) /\ UNCHANGED <<orig, env, acc, nm>>
BraceOpen == st = "dollar" /\ st' = "name" /\ nm' = <<>>
             /\ inp' = (IF inp # <<>> /\ Head(inp) = "{" THEN Tail(inp) ELSE inp) /\ UNCHANGED <<orig, env, acc>>
NameChar == st = "name" /\ inp # <<>> /\ Head(inp) \notin {"$", "}"} /\ nm' = Append(nm, Head(inp)) /\ inp' = Tail(inp) /\ UNCHANGED <<orig, env, acc, st>>
NameEnd  == /\ st = "name" /\ (IF inp = <<>> THEN TRUE ELSE Head(inp) \in {"$", "}"})
            /\ IF nm = <<>> THEN st' = "err:Path::InvalidExpansion" /\ UNCHANGED <<inp, acc>>
               ELSE IF nm \notin DOMAIN env THEN st' = "err:Var::NotPresent" /\ UNCHANGED <<inp, acc>>
               ELSE /\ st' = "lit" /\ acc' = acc \o env[nm]
                    /\ inp' = (IF inp # <<>> /\ Head(inp) = "}" THEN Tail(inp) ELSE inp)
            /\ UNCHANGED <<orig, env, nm>>
Next == Finish \/ Literal \/ Dollar \/ BraceOpen \/ NameChar \/ NameEnd
Spec == Init /\ [][Next]_vars

Outcome == IF st = "done" THEN POk(acc) ELSE IF st = "err:Path::InvalidExpansion" THEN PErr("Path::InvalidExpansion")
           ELSE PErr("Var::NotPresent")
Halted == st = "done" \/ st = "err:Path::InvalidExpansion" \/ st = "err:Var::NotPresent"
AgreesWithOperator == Halted => Outcome = ExpandSeg(env, orig)
PlainUnchanged == (Halted /\ Count(orig, "$") = 0) => Outcome = POk(orig)
NeverGuesses == (st = "done" /\ Count(orig, "$") > 0) => VName \in DOMAIN env     \* success with a '$' needs the variable
NoDollarLeft == (st = "done" /\ \A v \in Values : Count(v, "$") = 0) => Count(acc, "$") = 0
Progress == [][Len(inp') < Len(inp) \/ st' # st]_vars                            \* the scanner always advances: termination
=============================================================================
