------------------------------- MODULE Vfs -------------------------------
(* The reference tree filesystem: what the VirtualFileSystem trait documents, written from the
   rustdoc of src/sys/fs/vfs.rs and the statements of C01/C06/C09/C10/C11 - not from the
   implementations.  A path is a sequence of component strings (root = <<>>).

   st  = [fs |-> [Path -> Node], cwd |-> Path]
   Node = [k: "dir"|"file"|"link", d: Seq(Byte), t: Path (link target, absolute), tk: "dir"|"file"|"none"|"-",
           mode: Nat (type bits included), uid, gid]

   Every operation is an operator  Op_x(st, own, args) = [st, res, alt, partial, paired]  where
     res     = [o |-> "ok" | <documented error kind> | "*" (fails, kind not documented) | "?" (not settled), v |-> value]
     alt     = further admissible post-states (cases the documentation leaves open: DECISIONS)
     partial = TRUE when a failing multi-entry operation may leave a partial result
     paired  = TRUE when "Ok goes with st, Err goes with unchanged" (D4/D5)
   `own` = [uid, gid] given to newly created entries (backend dependent). *)
EXTENDS Naturals, Sequences, FiniteSets, TLC

Root == <<>>
Front(s) == SubSeq(s, 1, Len(s) - 1)
Parent(p) == Front(p)
Base(p) == p[Len(p)]
IsPrefix(p, q) == Len(p) <= Len(q) /\ SubSeq(q, 1, Len(p)) = p
Rebase(q, from, to) == to \o SubSeq(q, Len(from) + 1, Len(q))

FileType == 32768   \* 0o100000
DirType  == 16384   \* 0o040000
LinkType == 40960   \* 0o120000
FileMode == 33188   \* 0o100644
DirMode  == 16877   \* 0o040755
LinkMode == 41471   \* 0o120777
Perm(m) == m % 4096
TypeOf(m) == m - Perm(m)
NFile(d, own)     == [k |-> "file", d |-> d,    t |-> <<>>, tk |-> "-", mode |-> FileMode, uid |-> own.uid, gid |-> own.gid]
NDir(own)         == [k |-> "dir",  d |-> <<>>, t |-> <<>>, tk |-> "-", mode |-> DirMode,  uid |-> own.uid, gid |-> own.gid]
NLink(t, tk, own) == [k |-> "link", d |-> <<>>, t |-> t,    tk |-> tk,  mode |-> LinkMode, uid |-> own.uid, gid |-> own.gid]

Exists(fs, p)  == p \in DOMAIN fs
IsDir(fs, p)   == Exists(fs, p) /\ fs[p].k = "dir"       \* real directory: links excluded (rustdoc of is_dir)
IsFile(fs, p)  == Exists(fs, p) /\ fs[p].k = "file"
IsLink(fs, p)  == Exists(fs, p) /\ fs[p].k = "link"
Children(fs, p) == {q \in DOMAIN fs : Len(q) = Len(p) + 1 /\ Parent(q) = p}
Sub(fs, p)     == {q \in DOMAIN fs : IsPrefix(p, q)}
Put(fs, p, n)  == [q \in DOMAIN fs \cup {p} |-> IF q = p THEN n ELSE fs[q]]
Del(fs, S)     == [q \in DOMAIN fs \ S |-> fs[q]]
\* kind a path has when looked at through links (bounded chase), "none" if it dangles or loops
RECURSIVE KindThrough(_, _, _)
KindThrough(fs, p, n) == IF ~Exists(fs, p) THEN "none" ELSE IF fs[p].k # "link" THEN fs[p].k
                         ELSE IF n = 0 THEN "none" ELSE KindThrough(fs, fs[p].t, n - 1)
ChaseDepth == 6
TK(fs, t) == KindThrough(fs, t, ChaseDepth)

\* kind recorded with a new link: the kind its target has now; "?" (not settled) when the target is itself a link
\* whose recorded kind no longer matches what it points to (stale chain: the backends look one level / all levels)
LinkTK(fs, t) == IF Exists(fs, t) /\ fs[t].k = "link" /\ TK(fs, fs[t].t) # fs[t].tk THEN "?" ELSE TK(fs, t)

ROk(v)   == [o |-> "ok", v |-> v]
RErr(k)  == [o |-> k, v |-> <<>>]
RErrAny  == [o |-> "*", v |-> <<>>]          \* documented to fail, kind not documented
RAny     == [o |-> "?", v |-> <<>>]          \* result not settled by docs/properties
Unit     == <<>>
AnyData  == <<999>>       \* wildcard content (no byte is 999): what a file holds between the open and the flush of a handle
R(st, res) == [st |-> st, res |-> res, alt |-> {}, partial |-> FALSE, paired |-> FALSE]
WithFs(st, fs) == [st EXCEPT !.fs = fs]

\* ---- creation check shared by mkfile / write / append / symlink (rustdoc "### Errors") ----
CreateErr(fs, p, want) ==
  IF p = Root THEN "root"
  ELSE IF ~Exists(fs, Parent(p)) THEN "Path::DoesNotExist"
  ELSE IF ~IsDir(fs, Parent(p)) THEN "Path::IsNotDir"
  ELSE IF Exists(fs, p) /\ fs[p].k # want THEN (IF want = "file" THEN "Path::IsNotFile" ELSE "*")
  ELSE "-"

Op_mkfile(st, own, p) == LET fs == st.fs  e == CreateErr(fs, p, "file") IN
  IF e = "root" THEN R(st, RErrAny)                              \* D1
  ELSE IF e # "-" THEN R(st, RErr(e))
  ELSE R(IF Exists(fs, p) THEN st ELSE WithFs(st, Put(fs, p, NFile(<<>>, own))), ROk(p))

Op_mkfile_m(st, own, p, m) == LET o == Op_mkfile(st, own, p) IN
  IF o.res.o # "ok" THEN o
  ELSE R(WithFs(o.st, [o.st.fs EXCEPT ![p].mode = FileType + Perm(m)]), ROk(p))

RECURSIVE MkdirWalk(_, _, _, _, _)
MkdirWalk(fs, own, p, i, mode) == IF i > Len(p) THEN [fs |-> fs, e |-> "-"] ELSE
  LET q == SubSeq(p, 1, i) IN
  IF Exists(fs, q) THEN (IF IsDir(fs, q) THEN MkdirWalk(fs, own, p, i + 1, mode) ELSE [fs |-> fs, e |-> "Path::IsNotDir"])
  ELSE MkdirWalk(Put(fs, q, [NDir(own) EXCEPT !.mode = mode]), own, p, i + 1, mode)
Op_mkdir_m(st, own, p, mode) == LET r == MkdirWalk(st.fs, own, p, 1, mode) IN
  IF r.e = "-" THEN R(WithFs(st, r.fs), ROk(p)) ELSE R(st, RErr(r.e))
Op_mkdir_p(st, own, p) == Op_mkdir_m(st, own, p, DirMode)

Op_write_all(st, own, p, d) == LET fs == st.fs  e == CreateErr(fs, p, "file") IN
  IF e = "root" THEN R(st, RErrAny)
  ELSE IF e # "-" THEN R(st, RErr(e))
  ELSE R(WithFs(st, Put(fs, p, IF Exists(fs, p) THEN [fs[p] EXCEPT !.d = d] ELSE NFile(d, own))), ROk(Unit))

Op_append_all(st, own, p, d) == LET fs == st.fs  e == CreateErr(fs, p, "file") IN
  IF e = "root" THEN R(st, RErrAny)
  ELSE IF e # "-" THEN R(st, RErr(e))
  ELSE R(WithFs(st, Put(fs, p, IF Exists(fs, p) THEN [fs[p] EXCEPT !.d = @ \o d] ELSE NFile(d, own))), ROk(Unit))

\* line helpers: lines joined by "\n" plus one final "\n"; an empty join does nothing at all (D2)
NL == 10
RECURSIVE JoinLines(_)
JoinLines(ls) == IF ls = <<>> THEN <<>> ELSE IF Len(ls) = 1 THEN ls[1] ELSE ls[1] \o <<NL>> \o JoinLines(Tail(ls))

\* ---- UTF-8 validity (the Unicode table of well-formed byte sequences) ----
RECURSIVE Utf8Valid(_)
Utf8Valid(b) ==
  IF b = <<>> THEN TRUE ELSE
  LET c == b[1]  n == Len(b)
      Cont(i) == i <= n /\ b[i] >= 128 /\ b[i] <= 191
      In(i, lo, hi) == i <= n /\ b[i] >= lo /\ b[i] <= hi
  IN IF c <= 127 THEN Utf8Valid(Tail(b))
     ELSE IF c >= 194 /\ c <= 223 THEN Cont(2) /\ Utf8Valid(SubSeq(b, 3, n))
     ELSE IF c = 224 THEN In(2, 160, 191) /\ Cont(3) /\ Utf8Valid(SubSeq(b, 4, n))
     ELSE IF (c >= 225 /\ c <= 236) \/ c = 238 \/ c = 239 THEN Cont(2) /\ Cont(3) /\ Utf8Valid(SubSeq(b, 4, n))
     ELSE IF c = 237 THEN In(2, 128, 159) /\ Cont(3) /\ Utf8Valid(SubSeq(b, 4, n))
     ELSE IF c = 240 THEN In(2, 144, 191) /\ Cont(3) /\ Cont(4) /\ Utf8Valid(SubSeq(b, 5, n))
     ELSE IF c >= 241 /\ c <= 243 THEN Cont(2) /\ Cont(3) /\ Cont(4) /\ Utf8Valid(SubSeq(b, 5, n))
     ELSE IF c = 244 THEN In(2, 128, 143) /\ Cont(3) /\ Cont(4) /\ Utf8Valid(SubSeq(b, 5, n))
     ELSE FALSE
\* BufRead::lines: split on "\n", strip one trailing "\r", no empty last line
RECURSIVE LinesAcc(_, _, _)
StripCR(l) == IF l # <<>> /\ l[Len(l)] = 13 THEN Front(l) ELSE l
LinesAcc(b, cur, acc) == IF b = <<>> THEN (IF cur = <<>> THEN acc ELSE Append(acc, StripCR(cur)))
   ELSE IF b[1] = NL THEN LinesAcc(Tail(b), <<>>, Append(acc, StripCR(cur)))
   ELSE LinesAcc(Tail(b), Append(cur, b[1]), acc)
Lines(b) == LinesAcc(b, <<>>, <<>>)

ReadErr(fs, p) == IF ~Exists(fs, p) THEN "Path::DoesNotExist" ELSE IF fs[p].k # "file" THEN "Path::IsNotFile" ELSE "-"
Op_read(st, p) == LET e == ReadErr(st.fs, p) IN IF e # "-" THEN R(st, RErr(e)) ELSE R(st, ROk(st.fs[p].d))
Op_read_all(st, p) == LET e == ReadErr(st.fs, p) IN IF e # "-" THEN R(st, RErr(e))
   ELSE IF ~Utf8Valid(st.fs[p].d) THEN R(st, RErrAny) ELSE R(st, ROk(st.fs[p].d))
Op_read_lines(st, p) == LET e == ReadErr(st.fs, p) IN IF e # "-" THEN R(st, RErr(e))
   ELSE IF ~Utf8Valid(st.fs[p].d) THEN R(st, RErrAny) ELSE R(st, ROk(Lines(st.fs[p].d)))

Op_remove(st, p) == LET fs == st.fs IN
  IF p = Root THEN R(st, RErrAny)
  ELSE IF ~Exists(fs, p) THEN (IF Exists(fs, Parent(p)) /\ ~IsDir(fs, Parent(p)) THEN R(st, RAny) ELSE R(st, ROk(Unit)))   \* D3, D8
  ELSE IF IsDir(fs, p) /\ Children(fs, p) # {} THEN R(st, RErr("Path::DirContainsFiles"))
  ELSE R(WithFs(st, Del(fs, {p})), ROk(Unit))

Op_remove_all(st, p) == LET fs == st.fs IN
  IF p = Root THEN [st |-> WithFs(st, Del(fs, DOMAIN fs \ {Root})), res |-> RAny, alt |-> {st}, partial |-> FALSE, paired |-> FALSE]   \* D4
  ELSE R(WithFs(st, Del(fs, Sub(fs, p))), ROk(Unit))

Op_symlink(st, own, l, t) == LET fs == st.fs  e == CreateErr(fs, l, "link") IN
  IF e = "root" THEN R(st, RErrAny)
  ELSE IF e # "-" THEN R(st, RErr(e))
  ELSE IF Exists(fs, l) THEN R(st, RAny)                          \* D6: existing link, unchanged
  ELSE R(WithFs(st, Put(fs, l, NLink(t, LinkTK(fs, t), own))), ROk(l))

\* ---- move ----
MoveTarget(fs, s, d) == IF IsDir(fs, d) THEN Append(d, Base(s)) ELSE d
Relocate(fs, s, t) == LET moved == Sub(fs, s) gone == Sub(fs, t) IN
   [q \in ((DOMAIN fs \ moved) \ gone) \cup {Rebase(x, s, t) : x \in moved} |->
        IF IsPrefix(t, q) /\ \E x \in moved : Rebase(x, s, t) = q THEN fs[Rebase(q, t, s)] ELSE fs[q]]
Op_move_p(st, s, d) == LET fs == st.fs IN
  IF ~Exists(fs, s) THEN R(st, RErr("Path::DoesNotExist"))
  ELSE IF s = Root THEN (IF d = Root THEN R(st, RAny) ELSE R(st, RErrAny))     \* the root cannot be moved; onto itself: no-op or error
  ELSE LET t == MoveTarget(fs, s, d) IN
    IF t = s THEN R(st, ROk(Unit))
    ELSE IF IsPrefix(s, t) THEN R(st, RErrAny)                    \* into itself
    ELSE IF ~IsDir(fs, Parent(t)) THEN R(st, RErrAny)             \* parent missing / not a directory
    ELSE IF ~Exists(fs, t) THEN R(WithFs(st, Relocate(fs, s, t)), ROk(Unit))
    ELSE IF fs[s].k # "dir" /\ fs[t].k # "dir" THEN R(WithFs(st, Relocate(fs, s, t)), ROk(Unit))   \* "replaces destination files"
    ELSE [st |-> WithFs(st, Relocate(fs, s, t)), res |-> RAny, alt |-> {st}, partial |-> FALSE, paired |-> TRUE]  \* D5

\* ---- copy (options: mode for dirs / files, follow) ----
\* The owner of entries created by a copy is not settled by the documentation (the creating user on a real
\* filesystem, the source's owner in memory): AnyId is a wildcard.  Likewise the mode of missing parents (0).
AnyId == 2147483647
CopyOwn == [uid |-> AnyId, gid |-> AnyId]
\* co = [dm |-> mode or 0 (keep source mode), fm |-> mode or 0, follow |-> BOOLEAN]
CopyMode(n, opt, type) == IF opt = 0 THEN n.mode ELSE type + Perm(opt)
\* D12: in a copy into the source's own subtree a source file that lies inside the region being written (IsPrefix(t, x)) may
\* already have been overwritten by this very copy when its turn comes: its copy holds the old or the new bytes and mode (wildcards)
CopyOne(fs, own, snap, x, s, t, co) == LET q == Rebase(x, s, t) n0 == snap[x]
                                           n == IF n0.k = "file" /\ IsPrefix(t, x) THEN [n0 EXCEPT !.d = AnyData, !.mode = 0] ELSE n0 IN      \* bytes and mode: old or new
   IF n.k = "dir" THEN (IF Exists(fs, q) THEN (IF IsDir(fs, q) THEN [fs |-> fs, e |-> "-"] ELSE [fs |-> fs, e |-> "*"])
                        ELSE [fs |-> Put(fs, q, [NDir(own) EXCEPT !.mode = CopyMode(n, co.dm, DirType)]), e |-> "-"])
   ELSE IF n.k = "file" THEN (IF Exists(fs, q) /\ ~IsFile(fs, q) THEN [fs |-> fs, e |-> "*"]
                              ELSE [fs |-> Put(fs, q, IF Exists(fs, q) THEN [fs[q] EXCEPT !.d = n.d, !.mode = CopyMode(n, co.fm, FileType)]      \* an overwritten file takes the copy's mode as well ("chmod_files: mode of copied files"; std::fs::copy copies the permission bits)
                                                      ELSE [NFile(n.d, own) EXCEPT !.mode = CopyMode(n, co.fm, FileType)]), e |-> "-"])
   ELSE (IF Exists(fs, q) THEN (IF IsLink(fs, q) THEN [fs |-> fs, e |-> "-"] ELSE [fs |-> fs, e |-> "*"])
         ELSE [fs |-> Put(fs, q, NLink(n.t, IF IsPrefix(t, n.t) \/ TK(snap, n.t) # n.tk THEN "?" ELSE LinkTK(fs, n.t), own)), e |-> "-"])   \* target inside the destination being built, or stale: order dependent
RECURSIVE CopySeq(_, _, _, _, _, _, _), Op_copy_b(_, _, _, _, _)
CopySeq(fs, own, snap, todo, s, t, co) == IF todo = <<>> THEN [fs |-> fs, e |-> "-"] ELSE
   LET r == CopyOne(fs, own, snap, Head(todo), s, t, co) IN IF r.e # "-" THEN r ELSE CopySeq(r.fs, own, snap, Tail(todo), s, t, co)
RECURSIVE SortByLen(_)
SortByLen(S) == IF S = {} THEN <<>> ELSE LET m == CHOOSE x \in S : \A y \in S : Len(x) <= Len(y) IN <<m>> \o SortByLen(S \ {m})
Op_copy_b(st, own, s, d, co) == LET fs == st.fs IN
  IF s = d THEN R(st, ROk(Unit))
  ELSE IF ~Exists(fs, s) THEN R(st, RErr("Path::DoesNotExist"))
  ELSE IF s = Root THEN [st |-> st, res |-> RAny, alt |-> {}, partial |-> TRUE, paired |-> FALSE]   \* D9
  ELSE IF co.follow /\ IsLink(fs, s) /\ Exists(fs, fs[s].t) /\ ~IsLink(fs, fs[s].t) /\ \A x \in Sub(fs, fs[s].t) : ~IsLink(fs, x)
       THEN (IF IsDir(fs, d) /\ Base(s) # Base(fs[s].t)
             THEN [st |-> st, res |-> RAny, alt |-> {}, partial |-> TRUE, paired |-> FALSE]          \* copied INTO d: under the link's or the target's name? not settled (A24)
             ELSE Op_copy_b(st, own, fs[s].t, d, [co EXCEPT !.follow = FALSE]))                      \* follow: the source link stands for its target
  ELSE IF co.follow /\ \E x \in Sub(fs, s) : IsLink(fs, x)
       THEN [st |-> st, res |-> RAny, alt |-> {}, partial |-> TRUE, paired |-> FALSE]                 \* links below a followed source: placement not settled (A24, open)
  ELSE LET t == IF IsDir(fs, d) THEN Append(d, Base(s)) ELSE d
           pmode == IF co.dm # 0 THEN DirType + Perm(co.dm) ELSE fs[Parent(s)].mode
           pre == IF Len(t) > 0 THEN MkdirWalk(fs, CopyOwn, Parent(t), 1, 0) ELSE [fs |-> fs, e |-> "-"]     \* "creates destination directories as needed" (mode: wildcard)
       IN IF t = s THEN R(st, ROk(Unit))
          ELSE IF pre.e # "-" THEN [st |-> st, res |-> RErrAny, alt |-> {}, partial |-> TRUE, paired |-> FALSE]
          ELSE LET r == CopySeq(pre.fs, CopyOwn, fs, SortByLen(Sub(fs, s)), s, t, co) IN
               IF r.e = "-" THEN R(WithFs(st, r.fs), ROk(Unit))
               ELSE [st |-> WithFs(st, r.fs), res |-> RErrAny, alt |-> {}, partial |-> TRUE, paired |-> FALSE]   \* partial result allowed on Err

Op_readlink_abs(st, p) == IF IsLink(st.fs, p) THEN R(st, ROk(st.fs[p].t)) ELSE R(st, RErrAny)

Op_set_cwd(st, p) == LET fs == st.fs IN
  IF ~Exists(fs, p) THEN R(st, RErr("Path::DoesNotExist"))
  ELSE IF IsDir(fs, p) THEN R([st EXCEPT !.cwd = p], ROk(p))
  ELSE [st |-> [st EXCEPT !.cwd = p], res |-> RAny, alt |-> {st}, partial |-> FALSE, paired |-> TRUE]   \* D7

\* ---- chmod / chown target selection ----
\* entries a recursive walk from p visits, with or without following links (bounded closure)
RECURSIVE Closure(_, _, _, _)
Closure(fs, S, follow, n) ==
   LET step == S \cup UNION {Sub(fs, x) : x \in {y \in S : IsDir(fs, y)}}
               \cup (IF follow THEN {fs[x].t : x \in {y \in S : IsLink(fs, y) /\ Exists(fs, fs[y].t)}} ELSE {})
   IN IF step = S \/ n = 0 THEN S ELSE Closure(fs, step, follow, n - 1)
RECURSIVE LinkChain(_, _, _)      \* a followed link stands for whatever its chain of links ends at
LinkChain(fs, S, n) == LET step == S \cup {fs[x].t : x \in {y \in S : IsLink(fs, y) /\ Exists(fs, fs[y].t)}} IN
                       IF step = S \/ n = 0 THEN S ELSE LinkChain(fs, step, n - 1)
Visit(fs, p, recursive, follow) ==
   IF recursive THEN Closure(fs, {p}, follow, 8)
   ELSE IF follow THEN LinkChain(fs, {p}, 8) ELSE {p}

\* with follow only "clean" links are settled: the target exists, is not itself a link, and still has the kind recorded with the link
HasChain(fs, V) == \E x \in V : IsLink(fs, x) /\ (~Exists(fs, fs[x].t) \/ IsLink(fs, fs[x].t) \/ TK(fs, fs[x].t) # fs[x].tk)
\* co = [dm, fm (0 = unset), sym (char seq), recursive, follow]; SymOf(kind, mode, sym) from ChmodSym
ChmodTargets(fs, p, co) == {x \in Visit(fs, p, co.recursive, co.follow) : ~IsLink(fs, x)}
Op_chown_b(st, p, co) == LET fs == st.fs IN
  IF ~Exists(fs, p) THEN R(st, RErr("Path::DoesNotExist"))
  ELSE IF co.follow /\ HasChain(fs, Visit(fs, p, co.recursive, TRUE))
       THEN [st |-> st, res |-> RAny, alt |-> {}, partial |-> TRUE, paired |-> FALSE]
  ELSE LET V == Visit(fs, p, co.recursive, co.follow)
           Set(n) == [n EXCEPT !.uid = IF co.setu THEN co.uid ELSE @, !.gid = IF co.setg THEN co.gid ELSE @]
           \* with follow the links on the way are stepping stones: whether their own owner changes is not settled (wildcard)
           Loose(n) == [n EXCEPT !.uid = IF co.setu THEN AnyId ELSE @, !.gid = IF co.setg THEN AnyId ELSE @]
       IN R(WithFs(st, [q \in DOMAIN fs |-> IF q \notin V THEN fs[q]
                                             ELSE IF co.follow /\ IsLink(fs, q) THEN Loose(fs[q]) ELSE Set(fs[q])]), ROk(Unit))

\* ---- handles from write() / append() (C06 C07): visible content is constrained at flush and at drop only ----
\* open: validation and creation as mkfile; an existing file opened for writing may be truncated now or at the first flush
Op_h_open(st, own, p, append) == LET fs == st.fs  e == CreateErr(fs, p, "file") IN
  IF e = "root" THEN R(st, RErrAny)
  ELSE IF e # "-" THEN R(st, RErr(e))
  ELSE IF ~Exists(fs, p) THEN R(WithFs(st, Put(fs, p, NFile(<<>>, own))), ROk(Unit))
  ELSE IF append THEN R(st, ROk(Unit))
  ELSE R(WithFs(st, [fs EXCEPT ![p].d = AnyData]), ROk(Unit))
\* write through a handle: buffered or written through - the file's content is not settled until the next flush
Op_h_write(st, p) == IF IsFile(st.fs, p) THEN R(WithFs(st, [st.fs EXCEPT ![p].d = AnyData]), RAny) ELSE R(st, RAny)
\* flush / drop: when nothing else touched the tree since the open (clean) and the path still is a regular file, the file holds
\* exactly `content` (write: the bytes written through the handle; append: what the file held at open followed by them);
\* a stale handle (path removed / replaced / handle not alone) may fail or store what it has - but only ever into a regular file
Op_h_sync(st, p, content, clean) ==
  IF IsFile(st.fs, p) THEN (IF clean THEN R(WithFs(st, [st.fs EXCEPT ![p].d = content]), ROk(Unit))
                            ELSE R(WithFs(st, [st.fs EXCEPT ![p].d = AnyData]), RAny))
  ELSE R(st, RAny)

\* ---- queries ----
BoolV(b) == IF b THEN <<"true">> ELSE <<"false">>
Q_exists(st, p) == BoolV(Exists(st.fs, p))
Q_is_dir(st, p) == BoolV(IsDir(st.fs, p))
Q_is_file(st, p) == BoolV(IsFile(st.fs, p))
Q_is_symlink(st, p) == BoolV(IsLink(st.fs, p))
LinkKindSettled(fs, p) == IsLink(fs, p) => TK(fs, fs[p].t) = fs[p].tk      \* target unchanged since creation
Q_is_symlink_dir(st, p) == BoolV(IsLink(st.fs, p) /\ st.fs[p].tk = "dir")
Q_is_symlink_file(st, p) == BoolV(IsLink(st.fs, p) /\ st.fs[p].tk = "file")

\* ---- chmod ----
CS == INSTANCE ChmodSym
\* co = [dm, fm (octal, 0 = unset), sym (char sequence), recursive, follow]
SymUsed(co) == co.sym # <<>> /\ (co.dm = 0 \/ co.fm = 0)
NewMode(n, co) ==
   IF n.k = "dir" THEN (IF co.dm # 0 THEN DirType + Perm(co.dm) ELSE IF co.sym # <<>> THEN CS!SymMode("dir", n.mode, co.sym).mode ELSE n.mode)
   ELSE IF n.k = "file" THEN (IF co.fm # 0 THEN FileType + Perm(co.fm) ELSE IF co.sym # <<>> THEN CS!SymMode("file", n.mode, co.sym).mode ELSE n.mode)
   ELSE n.mode
Op_chmod_b(st, p, co) == LET fs == st.fs IN
  IF ~Exists(fs, p) THEN R(st, RErr("Path::DoesNotExist"))
  ELSE IF SymUsed(co) /\ ~CS!WellFormed(CS!Clauses(co.sym)[1]) THEN R(st, RErrAny)       \* C11: first clause malformed -> error, nothing changes
  ELSE IF SymUsed(co) /\ \E i \in 2..Len(CS!Clauses(co.sym)) : ~CS!WellFormed(CS!Clauses(co.sym)[i])
       THEN [st |-> st, res |-> RAny, alt |-> {}, partial |-> TRUE, paired |-> FALSE]     \* later clause malformed: not settled
  ELSE IF co.follow /\ HasChain(fs, Visit(fs, p, co.recursive, TRUE))
       THEN [st |-> st, res |-> RAny, alt |-> {}, partial |-> TRUE, paired |-> FALSE]     \* following a link to a link: how far, and whether the walk recurses below the final target, is not settled
  ELSE LET T == ChmodTargets(fs, p, co) IN
       R(WithFs(st, [q \in DOMAIN fs |-> IF q \in T THEN [fs[q] EXCEPT !.mode = NewMode(fs[q], co)] ELSE fs[q]]), ROk(Unit))

\* ---- entry(): the Entry accessors ----
HasBit(m, b) == (m \div b) % 2 = 1
IsExecMode(m) == HasBit(m, 64) \/ HasBit(m, 8) \/ HasBit(m, 1)
IsReadonlyMode(m) == ~HasBit(m, 128) /\ ~HasBit(m, 16) /\ ~HasBit(m, 2)
TF(b) == IF b THEN "t" ELSE "f"
PV(p) == [p |-> p, c |-> "t", abs |-> "t"]

\* ---- listings ----
DirIsh(fs, q)  == fs[q].k = "dir" \/ (fs[q].k = "link" /\ fs[q].tk = "dir")
FileIsh(fs, q) == fs[q].k = "file" \/ (fs[q].k = "link" /\ fs[q].tk = "file")
Listing(fs, p, what) ==
   LET base == IF what \in {"paths", "dirs", "files"} THEN Children(fs, p) ELSE Sub(fs, p) \ {p} IN
   IF what \in {"paths", "all_paths"} THEN base
   ELSE IF what \in {"dirs", "all_dirs"} THEN {q \in base : DirIsh(fs, q)}
   ELSE {q \in base : FileIsh(fs, q)}

\* ---- comparison with wildcards: tk = "?" and mode = 0 in an expected node match anything ----
NodeEq(e, g) == /\ e.k = g.k /\ (e.d = AnyData \/ e.d = g.d) /\ e.t = g.t /\ (e.tk = "?" \/ e.tk = g.tk \/ e.k # "link")
                /\ (e.mode = 0 \/ e.mode = g.mode) /\ (e.uid = AnyId \/ e.uid = g.uid) /\ (e.gid = AnyId \/ e.gid = g.gid)
\* a link's recorded kind may be the kind at creation (in-memory backend) or the kind its target has now (real filesystem)
StEq(E, G) == /\ E.cwd = G.cwd /\ DOMAIN E.fs = DOMAIN G.fs
              /\ \A p \in DOMAIN E.fs : \/ NodeEq(E.fs[p], G.fs[p])
                                         \/ (G.fs[p].k = "link" /\ G.fs[p].tk = TK(G.fs, G.fs[p].t) /\ NodeEq([E.fs[p] EXCEPT !.tk = "?"], G.fs[p]))

TreeOK(fs) == Root \in DOMAIN fs /\ fs[Root].k = "dir" /\ \A p \in DOMAIN fs \ {Root} : IsDir(fs, Parent(p))
=============================================================================
