CONSTANTS
  NameSet = {"a", "b"}
  Depth = 2
  MaxLinks = 1
  MaxData = 1
  MaxOdd = 0
SPECIFICATION Spec
VIEW View
INVARIANTS WellFormedTree CheckingLaws ActingLaws
PROPERTIES NoVacuousPass PanicIffPostFails
CHECK_DEADLOCK FALSE
