------------------------------- MODULE PanicCapture -------------------------------
(* testing::capture_panic as a small concurrent machine (beyond the listed properties; evidence rides on C20).
   Global state: `count` of captures in progress and the process-wide panic `hook` ("default" prints the panic
   message, "silent" swallows it).  A capture is three steps: Enter (count + 1, hook := silent - under the
   mutex), Run (the closure returns or panics; nested captures are separate Enter/Exit pairs of the same thread)
   and Exit (count - 1; when it reaches 0 the default hook is restored - under the mutex).
   Explored: every interleaving of the programs of up to Threads threads, each a nesting shape of captures whose
   closures return / panic with a text / panic with another payload.
   Checked: while any capture is in progress the hook is silent (no test output is polluted), when none is in
   progress the default hook is back, the count never goes negative, and every capture reports exactly what its own
   closure did: Err(PanicCapture(text)) for a text panic, Ok otherwise. *)
EXTENDS Naturals, Sequences, FiniteSets, TLC
CONSTANTS Threads, Shapes           \* Shapes: set of programs; a program is a sequence of "E" / "X:ok" / "X:text" / "X:other" tokens, well nested
VARIABLES count, hook, pc, prog, stack, results
vars == <<count, hook, pc, prog, stack, results>>
Init == /\ count = 0 /\ hook = "default"
        /\ prog \in [Threads -> Shapes] /\ pc = [t \in Threads |-> 1]
        /\ stack = [t \in Threads |-> 0] /\ results = [t \in Threads |-> <<>>]
Tok(t) == prog[t][pc[t]]
Enter(t) == /\ pc[t] <= Len(prog[t]) /\ Tok(t) = "E"
            /\ count' = count + 1 /\ hook' = "silent"
            /\ stack' = [stack EXCEPT ![t] = @ + 1] /\ pc' = [pc EXCEPT ![t] = @ + 1] /\ UNCHANGED <<prog, results>>
\* the closure finishes (returns or panics; a panic is caught by catch_unwind) and the capture exits
Exit(t) == /\ pc[t] <= Len(prog[t]) /\ Tok(t) # "E"
           /\ count' = IF count # 0 THEN count - 1 ELSE 0
           /\ hook' = IF count' = 0 THEN "default" ELSE hook
           /\ results' = [results EXCEPT ![t] = Append(@, IF Tok(t) = "X:text" THEN "Err:PanicCapture" ELSE "Ok")]
           /\ stack' = [stack EXCEPT ![t] = @ - 1] /\ pc' = [pc EXCEPT ![t] = @ + 1] /\ UNCHANGED prog
EnterAny == \E t \in Threads : Enter(t)
ExitAny == \E t \in Threads : Exit(t)
Next == EnterAny \/ ExitAny
Spec == Init /\ [][Next]_vars /\ WF_vars(Next)

InProgress == {t \in Threads : stack[t] > 0}
CountIsInProgress == count = Cardinality({<<t, i>> \in Threads \X (1..8) : i <= stack[t]})      \* one per open capture
SilentWhileCapturing == (count > 0) => hook = "silent"
DefaultWhenIdle == (count = 0) => hook = "default"
Done == \A t \in Threads : pc[t] > Len(prog[t])
ReportsOwnOutcome == Done => \A t \in Threads :
     LET exits == SelectSeq(prog[t], LAMBDA x : x # "E") IN
       /\ Len(results[t]) = Len(exits)
       /\ \A i \in 1..Len(exits) : results[t][i] = (IF exits[i] = "X:text" THEN "Err:PanicCapture" ELSE "Ok")
EventuallyIdle == <>(Done /\ count = 0 /\ hook = "default")
=============================================================================
