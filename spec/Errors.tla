------------------------------- MODULE Errors -------------------------------
(* The error algebra of rivia (src/errors): twelve families wrapped by the one enum RvError, written from the rustdoc.
   An inner error is [fam, v, arg]: its family, its variant and the text of its payload ("" when the variant carries none;
   a path, a message, a chmod symbol string or a decimal user id otherwise).  The wrapper adds NOTHING: `is`, `downcast_ref`,
   `downcast_mut`, `Display`, `as_ref`, `as_mut` and `source` of RvError are those of the wrapped value, `From<T>` embeds each
   family at its own position, `From<&str>` is Core::Msg, and `?` in a function returning RvResult is exactly `From`.
   Beyond the listed properties (C01's "documented error kind" is the pair fam::v judged elsewhere); bound to the code by
   Trace_Errors on the records of harness/src/bin/errs.rs. *)
EXTENDS Naturals, Sequences, FiniteSets, TLC

Families == {"Core", "File", "Io", "Iter", "Nix", "Path", "String", "SystemTime", "User", "Utf8", "Var", "Vfs"}
OwnFamilies == {"Core", "File", "Iter", "Path", "String", "User", "Vfs"}      \* defined by rivia; the rest wrap std / nix errors

V(f, v, a, p) == [fam |-> f, v |-> v, arg |-> a, pre |-> p]
\* variant table: payload kind in {"none", "path", "text", "uid"} and the documented Display text before the payload
Variants == {
  V("Core", "Msg", "text", ""), V("Core", "PanicCapture", "text", ""),
  V("Core", "PanicCaptureFailure", "none", "an error occured during a panic capture"),
  V("File", "FailedToExtractString", "none", "Failed to extract string from file"),
  V("File", "InsertLocationNotFound", "none", "Failed to find the insert location in the file"),
  V("Iter", "ItemNotFound", "none", "iterator item not found"),
  V("Iter", "MultipleItemsFound", "none", "multiple iterator items found"),
  V("Iter", "MutuallyExclusiveIndicies", "none", "mutually exclusive indices"),
  V("Path", "DirContainsFiles", "path", "Target directory contains files: "),
  V("Path", "DirDoesNotMatchParent", "path", "Target path's directory doesn't match parent: "),
  V("Path", "DoesNotExist", "path", "Target path does not exist: "),
  V("Path", "Empty", "none", "path empty"),
  V("Path", "ExistsAlready", "path", "Target path exists already: "),
  V("Path", "ExtensionNotFound", "path", "Target path extension not found: "),
  V("Path", "FailedToString", "path", "Target path failed to convert to string: "),
  V("Path", "FileNameNotFound", "path", "Target path filename not found: "),
  V("Path", "InvalidExpansion", "path", "Target path has an invalid expansion: "),
  V("Path", "IsNotDir", "path", "Target path is not a directory: "),
  V("Path", "IsNotExec", "path", "Target path is not an executable: "),
  V("Path", "IsNotFile", "path", "Target path is not a file: "),
  V("Path", "IsNotSymlink", "path", "Target path is not a symlink: "),
  V("Path", "IsNotFileOrSymlinkToFile", "path", "Target path is not a file or a symlink to a file: "),
  V("Path", "LinkLooping", "path", "Target path causes link looping: "),
  V("Path", "MultipleHomeSymbols", "path", "Target path has multiple home symbols: "),
  V("Path", "ParentNotFound", "path", "Target path's parent not found: "),
  V("String", "FailedToString", "none", "failed to convert value to string"),
  V("User", "DoesNotExistById", "uid", "user does not exist: "),
  V("Vfs", "InvalidChmod", "text", "Invalid chmod symbols given: "),
  V("Vfs", "InvalidChmodGroup", "text", "Invalid chmod group given: "),
  V("Vfs", "InvalidChmodOp", "text", "Invalid chmod operation given: "),
  V("Vfs", "InvalidChmodPermissions", "text", "Invalid chmod permissions given: "),
  V("Vfs", "InvalidChmodTarget", "text", "Invalid chmod target given: "),
  V("Vfs", "Unavailable", "none", "Virtual filesystem is unavailable"),
  V("Vfs", "WrongProvider", "none", "Wrong Virtual filesystem provider was given") }

\* the snake_case constructor functions and the variant each documents ("Return an error indicating ...")
Ctor(f, c, v) == [fam |-> f, ctor |-> c, v |-> v]
Ctors == {
  Ctor("Core", "msg", "Msg"), Ctor("Core", "panic_capture", "PanicCapture"),
  Ctor("Iter", "item_not_found", "ItemNotFound"), Ctor("Iter", "multiple_items_found", "MultipleItemsFound"),
  Ctor("Iter", "mutually_exclusive_indices", "MutuallyExclusiveIndicies"),
  Ctor("Path", "dir_contains_files", "DirContainsFiles"), Ctor("Path", "dir_does_not_match_parent", "DirDoesNotMatchParent"),
  Ctor("Path", "does_not_exist", "DoesNotExist"), Ctor("Path", "exists_already", "ExistsAlready"),
  Ctor("Path", "extension_not_found", "ExtensionNotFound"), Ctor("Path", "failed_to_string", "FailedToString"),
  Ctor("Path", "filename_not_found", "FileNameNotFound"), Ctor("Path", "is_not_dir", "IsNotDir"),
  Ctor("Path", "is_not_exec", "IsNotExec"), Ctor("Path", "is_not_file", "IsNotFile"), Ctor("Path", "is_not_symlink", "IsNotSymlink"),
  Ctor("Path", "is_not_file_or_symlink_to_file", "IsNotFileOrSymlinkToFile"), Ctor("Path", "invalid_expansion", "InvalidExpansion"),
  Ctor("Path", "link_looping", "LinkLooping"), Ctor("Path", "multiple_home_symbols", "MultipleHomeSymbols"),
  Ctor("Path", "parent_not_found", "ParentNotFound"), Ctor("User", "does_not_exist_by_id", "DoesNotExistById") }

HasVariant(f, v) == \E x \in Variants : x.fam = f /\ x.v = v
VariantOf(f, v) == CHOOSE x \in Variants : x.fam = f /\ x.v = v
HasCtor(f, c) == \E x \in Ctors : x.fam = f /\ x.ctor = c
CtorTarget(f, c) == (CHOOSE x \in Ctors : x.fam = f /\ x.ctor = c).v

\* ---- the algebra --------------------------------------------------------------------------------------------------
Inner(f, v, a) == [fam |-> f, v |-> v, arg |-> IF VariantOf(f, v).arg = "none" THEN "" ELSE a]
Display(e) == VariantOf(e.fam, e.v).pre \o e.arg
Wrap(e) == [pos |-> e.fam, inner |-> e]                              \* From<T> for RvError
FromStr(s) == Wrap(Inner("Core", "Msg", s))                          \* From<&str>
Is(w, T) == w.inner.fam = T                                          \* as_ref().is::<T>()
Downcast(w, T) == IF Is(w, T) THEN <<w.inner>> ELSE <<>>             \* downcast_ref / downcast_mut
WDisplay(w) == Display(w.inner)
WSource(w) == <<>>                                                   \* no family defines a source
Question(e) == Wrap(e)                                               \* `Err(e)?` in fn -> RvResult<_>

\* ---- laws (checked by TLC over every variant and a payload alphabet, MC_Errors) --------------------------------------
WrapAtOwnPosition(e) == Wrap(e).pos = e.fam /\ e.fam \in Families
IsExactlyOwnFamily(e) == {T \in Families : Is(Wrap(e), T)} = {e.fam}
DowncastInverse(e) == Downcast(Wrap(e), e.fam) = <<e>> /\ \A T \in Families \ {e.fam} : Downcast(Wrap(e), T) = <<>>
DisplayTransparent(e) == WDisplay(Wrap(e)) = Display(e)
\* two different variants of one family never render the same text for the same payload, except the two message carriers of Core
DisplayDistinguishes(e1, e2) == (e1.fam = e2.fam /\ e1.v # e2.v /\ e1.arg = e2.arg /\ ~({e1.v, e2.v} = {"Msg", "PanicCapture"})) => Display(e1) # Display(e2)
CtorsTotal == \A c \in Ctors : HasVariant(c.fam, c.v) /\ (VariantOf(c.fam, c.v).arg # "none" \/ c.fam = "Iter")
VariantKeysUnique == \A x, y \in Variants : (x.fam = y.fam /\ x.v = y.v) => x = y
CtorKeysUnique == \A x, y \in Ctors : (x.fam = y.fam /\ x.ctor = y.ctor) => x = y
=============================================================================
