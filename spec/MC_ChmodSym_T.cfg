CONSTANTS
  MaxLen = 5
  LongLen = 6
  StartPerms = {0, 420, 511, 83, 2541}
  StringPerms = {420}
  RawKinds = {"file", "dir", "link"}
  DoubleGroups <- DoubleGroupsT
  DoublePerms <- DoublePermsT
SPECIFICATION Spec
INVARIANTS AgreesWithSymMode TypeBitsKept LinksUnchanged FirstClauseError LogOK Frame Algebra SkipLaw
PROPERTY Progress
CHECK_DEADLOCK FALSE
