CONSTANTS
  NameSet = {"a", "b"}
  Depth = 2
  MaxLinks = 0
  MaxData = 1
  MaxOdd = 1
SPECIFICATION Spec
VIEW View
INVARIANTS WellFormedTree CheckingLaws ActingLaws
PROPERTIES NoVacuousPass PanicIffPostFails
CHECK_DEADLOCK FALSE
