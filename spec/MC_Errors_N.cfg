CONSTANTS
  Payloads = {"", "/a"}
SPECIFICATION Spec
INVARIANTS PairwiseNoException
CHECK_DEADLOCK FALSE
