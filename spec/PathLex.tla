------------------------------- MODULE PathLex -------------------------------
(* Character-sequence algebra of rivia's lexical path helpers, written from the
   rustdoc of src/sys/fs/path.rs and the statements of C05/C14/C15/C16/C17.
   A string is a sequence of 1-character strings; characters other than
   / . ~ $ { } : are opaque tokens. *)
EXTENDS Naturals, Sequences, FiniteSets, TLC

Sep == "/"
POk(v)  == [o |-> "ok", v |-> v]
PErr(k) == [o |-> k, v |-> <<>>]

LastOf(s) == s[Len(s)]
FrontOf(s) == SubSeq(s, 1, Len(s) - 1)
RECURSIVE Flatten(_, _)
Flatten(ss, sep) == IF ss = <<>> THEN <<>> ELSE IF Len(ss) = 1 THEN ss[1] ELSE ss[1] \o sep \o Flatten(Tail(ss), sep)
StartsWith(s, p) == Len(p) <= Len(s) /\ SubSeq(s, 1, Len(p)) = p
EndsWith(s, p) == Len(p) <= Len(s) /\ SubSeq(s, Len(s) - Len(p) + 1, Len(s)) = p
Contains(s, t) == \E i \in 1..(Len(s) - Len(t) + 1) : SubSeq(s, i, i + Len(t) - 1) = t
Count(s, c) == Cardinality({i \in 1..Len(s) : s[i] = c})
RECURSIVE StripLeading(_, _)
StripLeading(s, c) == IF s # <<>> /\ s[1] = c THEN StripLeading(Tail(s), c) ELSE s

(* ---- segments and std::path::Components ---- *)
RECURSIVE SegAcc(_, _, _)
SegAcc(s, cur, acc) ==            \* split on "/" dropping empty segments
  IF s = <<>> THEN (IF cur = <<>> THEN acc ELSE Append(acc, cur))
  ELSE IF s[1] = Sep THEN SegAcc(Tail(s), <<>>, IF cur = <<>> THEN acc ELSE Append(acc, cur))
  ELSE SegAcc(Tail(s), Append(cur, s[1]), acc)
Segs(s) == SegAcc(s, <<>>, <<>>)
IsAbs(s) == s # <<>> /\ s[1] = Sep
Dot == <<".">>
DotDot == <<".", ".">>
\* components as std sees them (root not included): inner "." dropped, a leading "." of a relative path kept
KeepSeg(s, g, i) == g[i] # Dot \/ (i = 1 /\ ~IsAbs(s))
RECURSIVE FilterSegs(_, _, _)
FilterSegs(s, g, i) == IF i > Len(g) THEN <<>> ELSE (IF KeepSeg(s, g, i) THEN <<g[i]>> ELSE <<>>) \o FilterSegs(s, g, i + 1)
Comps(s) == FilterSegs(s, Segs(s), 1)
\* components including the root directory as the component "/"
CompsR(s) == (IF IsAbs(s) THEN << <<Sep>> >> ELSE <<>>) \o Comps(s)
\* spelling of a component list (root, if present, first)
JoinR(cs) == IF cs # <<>> /\ cs[1] = <<Sep>> THEN <<Sep>> \o Flatten(Tail(cs), <<Sep>>) ELSE Flatten(cs, <<Sep>>)
Normalize(s) == JoinR(CompsR(s))

(* ---- clean: Go's path.Clean ---- *)
RECURSIVE CleanAcc(_, _, _)
CleanAcc(cs, out, abs) ==
  IF cs = <<>> THEN out
  ELSE LET c == Head(cs) IN
    IF c = Dot THEN CleanAcc(Tail(cs), out, abs)
    ELSE IF c = DotDot THEN
       IF out # <<>> /\ LastOf(out) # DotDot THEN CleanAcc(Tail(cs), FrontOf(out), abs)
       ELSE IF abs THEN CleanAcc(Tail(cs), out, abs)
       ELSE CleanAcc(Tail(cs), Append(out, c), abs)
    ELSE CleanAcc(Tail(cs), Append(out, c), abs)
CleanSegs(s) == CleanAcc(Segs(s), <<>>, IsAbs(s))
Clean(s) == LET out == CleanSegs(s) IN
   IF IsAbs(s) THEN <<Sep>> \o Flatten(out, <<Sep>>) ELSE IF out = <<>> THEN Dot ELSE Flatten(out, <<Sep>>)
IsCleanForm(s) ==      \* shape of a cleaned path
   /\ s # <<>>
   /\ (Len(s) > 1 => LastOf(s) # Sep)
   /\ ~Contains(s, <<Sep, Sep>>)
   /\ LET g == Segs(s) IN
        /\ (s # Dot => \A i \in 1..Len(g) : g[i] # Dot)
        /\ \A i \in 1..Len(g) : g[i] = DotDot => (~IsAbs(s) /\ \A j \in 1..i : g[j] = DotDot)

(* ---- mash ---- *)
Mash(d, p) == LET q == StripLeading(p, Sep) IN IF d = <<>> THEN Normalize(q) ELSE Normalize(d \o <<Sep>> \o q)

(* ---- trims / containment ---- *)
TrimPrefix(p, s) == IF StartsWith(p, s) THEN SubSeq(p, Len(s) + 1, Len(p)) ELSE p
TrimSuffix(p, s) == IF EndsWith(p, s) THEN SubSeq(p, 1, Len(p) - Len(s)) ELSE p

(* ---- extension of the last normal component (std::path::Path::extension) ---- *)
FileName(s) == LET c == Comps(s) IN
   IF c = <<>> \/ LastOf(c) = DotDot \/ (LastOf(c) = Dot) THEN <<>> ELSE LastOf(c)
LastDot(f) == LET I == {i \in 1..Len(f) : f[i] = "."} IN IF I = {} THEN 0 ELSE CHOOSE i \in I : \A j \in I : j <= i
HasExt(s) == LET f == FileName(s) IN f # <<>> /\ LastDot(f) > 1
ExtOf(s) == LET f == FileName(s) IN SubSeq(f, LastDot(f) + 1, Len(f))

(* ---- trim_protocol: one leading file/ftp/http/https scheme, case-insensitive ---- *)
Lower(c) == CASE c = "F" -> "f" [] c = "I" -> "i" [] c = "L" -> "l" [] c = "E" -> "e" [] c = "T" -> "t"
              [] c = "P" -> "p" [] c = "H" -> "h" [] c = "S" -> "s" [] OTHER -> c
LowerS(s) == [i \in 1..Len(s) |-> Lower(s[i])]
Schemes == { <<"f","i","l","e",":","/","/">>, <<"f","t","p",":","/","/">>,
             <<"h","t","t","p",":","/","/">>, <<"h","t","t","p","s",":","/","/">> }
TrimProtocol(s) == IF \E sch \in Schemes : StartsWith(LowerS(s), sch)
                   THEN LET sch == CHOOSE x \in Schemes : StartsWith(LowerS(s), x) IN SubSeq(s, Len(sch) + 1, Len(s))
                   ELSE s

(* ---- parse_paths ---- *)
RECURSIVE SplitOn(_, _, _, _)
SplitOn(s, c, cur, acc) == IF s = <<>> THEN (IF cur = <<>> THEN acc ELSE Append(acc, cur))
   ELSE IF s[1] = c THEN SplitOn(Tail(s), c, <<>>, IF cur = <<>> THEN acc ELSE Append(acc, cur))
   ELSE SplitOn(Tail(s), c, Append(cur, s[1]), acc)
ParsePaths(s) == SplitOn(s, ":", <<>>, <<>>)

(* ---- expand ---- *)
\* env: function from variable names (char sequences) to values (char sequences); unset names are not in DOMAIN env
HomeName == <<"H","O","M","E">>
RECURSIVE TakeName(_)          \* longest prefix without "$" or "}"
TakeName(s) == IF s = <<>> \/ s[1] = "$" \/ s[1] = "}" THEN <<>> ELSE <<s[1]>> \o TakeName(Tail(s))
RECURSIVE ExpandSeg(_, _)      \* one component; returns POk(text) / PErr
ExpandSeg(env, s) ==
  IF s = <<>> THEN POk(<<>>)
  ELSE IF s[1] # "$" THEN LET r == ExpandSeg(env, Tail(s)) IN IF r.o = "ok" THEN POk(<<s[1]>> \o r.v) ELSE r
  ELSE LET a == Tail(s)
           b == IF a # <<>> /\ a[1] = "{" THEN Tail(a) ELSE a
           n == TakeName(b)
           c == SubSeq(b, Len(n) + 1, Len(b))
           d == IF c # <<>> /\ c[1] = "}" THEN Tail(c) ELSE c
       IN IF n = <<>> THEN PErr("Path::InvalidExpansion")
          ELSE IF n \notin DOMAIN env THEN PErr("Var::NotPresent")
          ELSE LET r == ExpandSeg(env, d) IN IF r.o = "ok" THEN POk(env[n] \o r.v) ELSE r
RECURSIVE ExpandSegs(_, _)
ExpandSegs(env, g) == IF g = <<>> THEN POk(<<>>) ELSE
   LET h == ExpandSeg(env, Head(g)) IN IF h.o # "ok" THEN h ELSE
   LET t == ExpandSegs(env, Tail(g)) IN IF t.o # "ok" THEN t ELSE POk(<<h.v>> \o t.v)
\* result of the $-phase is compared as a component list (the documentation fixes no spelling)
ExpandVars(env, s) == IF Count(s, "$") = 0 THEN POk(s) ELSE
   LET r == ExpandSegs(env, Comps(s)) IN IF r.o # "ok" THEN r
   ELSE POk((IF IsAbs(s) THEN <<Sep>> ELSE <<>>) \o Flatten(r.v, <<Sep>>))
ExpandTilde(env, s) ==
   IF Count(s, "~") > 1 THEN PErr("Path::MultipleHomeSymbols")
   ELSE IF Count(s, "~") = 1 /\ s # <<"~">> /\ ~StartsWith(s, <<"~", Sep>>) THEN PErr("Path::InvalidExpansion")
   ELSE IF Count(s, "~") = 0 THEN POk(s)
   ELSE IF HomeName \notin DOMAIN env THEN PErr("Var::NotPresent")
   ELSE IF s = <<"~">> THEN POk(env[HomeName]) ELSE POk(Mash(env[HomeName], SubSeq(s, 3, Len(s))))
Expand(env, s) == LET t == ExpandTilde(env, s) IN IF t.o # "ok" THEN t ELSE ExpandVars(env, t.v)
\* an expanded component that starts with "/" - or a first component of a relative path that expands to
\* nothing - is ambiguous (textual substitution vs component join semantics): not judged
AmbiguousExpand(env, s) == LET t == ExpandTilde(env, s) IN t.o = "ok" /\ Count(t.v, "$") > 0 /\
   \E i \in 1..Len(Comps(t.v)) : LET h == ExpandSeg(env, Comps(t.v)[i]) IN h.o = "ok" /\
        \/ (h.v # <<>> /\ h.v[1] = Sep /\ (i > 1 \/ ~IsAbs(t.v)))
        \/ (h.v = <<>> /\ i = 1 /\ ~IsAbs(t.v))

(* ---- abs ---- *)
RECURSIVE Walk(_, _)            \* cur: cwd segments; rest: cleaned relative segments
Walk(cur, rest) == IF rest # <<>> /\ rest[1] = DotDot
                   THEN IF cur = <<>> THEN PErr("Path::ParentNotFound") ELSE Walk(FrontOf(cur), Tail(rest))
                   ELSE IF rest # <<>> /\ rest[1] = Dot THEN Walk(cur, Tail(rest))
                   ELSE POk(<<Sep>> \o Flatten(cur \o rest, <<Sep>>))
Abs(env, cwd, s) ==
   IF s = <<>> THEN PErr("Path::Empty") ELSE
   LET e == Expand(env, s) IN IF e.o # "ok" THEN e ELSE
   LET c == Clean(TrimProtocol(e.v)) IN
   IF IsAbs(c) THEN POk(c) ELSE Walk(Segs(cwd), Segs(c))

(* ---- relative ---- *)
RECURSIVE CommonLen(_, _)
CommonLen(a, b) == IF a # <<>> /\ b # <<>> /\ a[1] = b[1] THEN 1 + CommonLen(Tail(a), Tail(b)) ELSE 0
Relative(p, b) == LET ps == Segs(p) bs == Segs(b) n == CommonLen(ps, bs) IN
   Flatten([i \in 1..(Len(bs) - n) |-> DotDot] \o SubSeq(ps, n + 1, Len(ps)), <<Sep>>)
=============================================================================
