------------------------------- MODULE MemfsRep -------------------------------
(* Memfs' three-index representation as projected from its Debug rendering (harness memproj.rs):
   rep = [cwd, cwdc, root, rootc, po, e: Seq(entry), f: Seq(file)] with
   entry = [p (key, components), kc (key canonical), pk (entry.path = key), k ("d","f","ld","lf","l",..),
            alt, altc, rel, mode, uid, gid, hf (child set present), ch (child names), fo]
   file  = [p, kc, d].
   RepViolation is C03 verbatim, clause by clause; AbsOf is the refinement mapping to a Vfs state. *)
EXTENDS Vfs

Keys(arr) == {arr[i].p : i \in 1..Len(arr)}
Rec(arr, p) == arr[CHOOSE i \in 1..Len(arr) : arr[i].p = p]
Names(e) == {e.ch[i] : i \in 1..Len(e.ch)}
IsLinkK(k) == k \in {"ld", "lf", "l"}

\* first violated clause of the well-formedness invariant, "-" when well formed
RepViolation(rep) ==
  LET K == Keys(rep.e)  F == Keys(rep.f) IN
  IF rep.po # "f" THEN "poisoned"
  ELSE IF rep.cwdc # "t" \/ rep.rootc # "t" \/ rep.root # Root THEN "cwd-or-root-not-absolute"
  ELSE IF Cardinality(K) # Len(rep.e) \/ Cardinality(F) # Len(rep.f) THEN "duplicate-key"
  ELSE IF Root \notin K THEN "no-root"
  ELSE IF \E i \in 1..Len(rep.e) : rep.e[i].kc # "t" \/ rep.e[i].pk # "t" THEN "entry-path-differs-from-key"
  ELSE IF \E i \in 1..Len(rep.e) : rep.e[i].k \notin {"d", "f", "ld", "lf", "l"} THEN "entry-kind-flags"
  ELSE IF \E p \in K \ {Root} : Parent(p) \notin K THEN "orphan:parent-missing"
  ELSE IF \E p \in K \ {Root} : Rec(rep.e, Parent(p)).k # "d" THEN "child-under-non-directory"
  ELSE IF \E p \in K \ {Root} : Base(p) \notin Names(Rec(rep.e, Parent(p))) THEN "parent-does-not-list-child"
  ELSE IF \E p \in K : \E n \in Names(Rec(rep.e, p)) : Append(p, n) \notin K THEN "listed-name-missing"
  ELSE IF \E p \in K : Rec(rep.e, p).k # "d" /\ Rec(rep.e, p).ch # <<>> THEN "non-directory-lists-children"
  ELSE IF \E p \in F : p \notin K \/ Rec(rep.e, p).k # "f" THEN "dangling-data"
  ELSE IF \E p \in K : Rec(rep.e, p).k = "f" /\ p \notin F THEN "file-without-data"
  ELSE "-"

NodeOf(rep, p) == LET e == Rec(rep.e, p) IN
  [k |-> IF e.k = "d" THEN "dir" ELSE IF e.k = "f" THEN "file" ELSE IF IsLinkK(e.k) THEN "link" ELSE "weird",
   d |-> IF p \in Keys(rep.f) THEN Rec(rep.f, p).d ELSE <<>>,
   t |-> IF IsLinkK(e.k) THEN e.alt ELSE <<>>,
   tk |-> IF e.k = "ld" THEN "dir" ELSE IF e.k = "lf" THEN "file" ELSE IF e.k = "l" THEN "none" ELSE "-",
   mode |-> e.mode, uid |-> e.uid, gid |-> e.gid,
   rt |-> IF IsLinkK(e.k) THEN e.rel ELSE <<>>]      \* the relative text recorded with a link (characters); compared nowhere, see VfsJudge!TextSettled
AbsOf(rep) == [fs |-> [p \in Keys(rep.e) |-> NodeOf(rep, p)], cwd |-> rep.cwd]
\* relative link text stored with a link must be the navigation from the link's directory to the target
RelC(t, b) == LET n == CHOOSE k \in 0..Len(t) : /\ k <= Len(b) /\ SubSeq(t, 1, k) = SubSeq(b, 1, k)
                                               /\ (k = Len(t) \/ k = Len(b) \/ t[k + 1] # b[k + 1])
              IN [i \in 1..(Len(b) - n) |-> ".."] \o SubSeq(t, n + 1, Len(t))
=============================================================================
