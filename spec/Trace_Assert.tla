------------------------------- MODULE Trace_Assert -------------------------------
(* Validator of the assert_vfs_* macro runs (C20) produced by harness/src/bin/macros.rs.  One record = one
   pre-state of a real filesystem (Memfs: its projected representation; Stdfs: the sandbox directory tree in
   the same shape) with every macro invocation issued from it:
     [k |-> "g", be, own |-> [uid, gid], pre |-> REP,
      steps |-> << [c |-> CALL, pn |-> "t"|"f", msg, mn, mp, mq, same |-> "t"|"f", post |-> REP or <<>>] .. >>]
   CALL.op is the macro; its path arguments are resolved here the way abs() documents (VfsJudge!Resolve);
   the verdict comes from VfsAssert:
     checking macro:  panicked <=> ~Pred(macro, AbsOf(pre), args)            and the state is untouched,
     acting macro:    the operation was performed (post = Op(pre).st up to the reference's wildcards)
                      and  panicked <=> its post-condition fails in the state it left,
     every panic message names the macro itself and the (resolved) path it is about.
   BAD signature: <<"BAD", backend, macro, kind class of the 1st argument, class of the 2nd argument (kind class /
   data relation / mode class / expectation class), failure kind, detail>>. *)
EXTENDS VfsAssert, Tally, Json, IOUtils
VJ == INSTANCE VfsJudge

Recs == ndJsonDeserialize(IOEnv.TRACE)

IsSuffixSeq(s, t) == Len(s) <= Len(t) /\ SubSeq(t, Len(t) - Len(s) + 1, Len(t)) = s

\* A real filesystem has no recorded kind of a link: the kind the driver saw (the kernel's, which also resolves THROUGH links)
\* is replaced by the kind the target has in the tree, looked at the way the reference does
AbsBe(be, rep) == LET s == AbsOf(rep) IN
   IF be # "stdfs" THEN s
   ELSE [s EXCEPT !.fs = [p \in DOMAIN s.fs |-> IF s.fs[p].k = "link" THEN [s.fs[p] EXCEPT !.tk = TK(s.fs, s.fs[p].t)] ELSE s.fs[p]]]
ThroughLink(fs, p, ok) == ok /\ \E i \in 1..(Len(p) - 1) : IsLink(fs, SubSeq(p, 1, i))

\* ---- arguments of one invocation, resolved by the specification ----
ArgsOf(st, c) ==
   LET ra == VJ!ResolveA(st, c)
       rb == IF c.op \in TwoPathMacros THEN VJ!ResolveB(st, c) ELSE [o |-> "ok", p |-> <<>>]
   IN [p |-> ra.p, pok |-> ra.o = "ok", q |-> rb.p, qok |-> rb.o = "ok", d |-> c.d, m |-> c.m,
       rel |-> IF c.op = "readlink" THEN c.bc ELSE <<>>, relabs |-> c.relabs # "f",       \* "t": the expectation is spelled as an absolute path, "u": as an unclean relative text - either way not the link's text
       pwhy |-> ra.o, qwhy |-> rb.o]

\* ---- classes for the signature ----
K1(st, a) == IF a.pok THEN VJ!KindClass(st.fs, a.p) ELSE "unresolvable:" \o a.pwhy
K2(mac, st, a) ==
   LET fs == st.fs IN
   IF mac \in TwoPathMacros THEN (IF a.qok THEN VJ!KindClass(fs, a.q) ELSE "unresolvable:" \o a.qwhy)
   ELSE IF mac \in {"read_all", "write_all"} THEN
        (IF a.pok /\ IsFile(fs, a.p) THEN (IF fs[a.p].d = a.d THEN "data=content" ELSE "data#content") ELSE IF a.d = <<>> THEN "data=empty" ELSE "data=nonempty")
   ELSE IF mac = "mkdir_m" THEN (IF TypeOf(a.m) # DirType THEN "mode=bare-permissions"
                                 ELSE IF a.pok /\ Exists(fs, a.p) /\ fs[a.p].mode = a.m THEN "mode=current" ELSE "mode=dir+other")
   ELSE IF mac = "readlink" THEN (IF a.relabs THEN "expect=absolute-spelling"
                                  ELSE IF a.pok /\ IsLink(fs, a.p) /\ a.rel = RelC(fs[a.p].t, Parent(a.p)) THEN "expect=link-text" ELSE "expect=other")
   ELSE "-"
Detail(mac, st, a) ==
   LET fs == st.fs IN
   IF mac = "readlink_abs" /\ a.pok /\ a.qok /\ IsLink(fs, a.p) THEN
        (IF fs[a.p].t = a.q THEN "target=expected" ELSE IF IsSuffixSeq(fs[a.p].t, a.q) THEN "target=proper-suffix-of-expected"
         ELSE IF fs[a.p].t = Root THEN "target=root" ELSE "target=other")
   ELSE IF mac = "symlink" /\ a.pok /\ a.qok /\ IsLink(fs, a.p) THEN (IF fs[a.p].t = a.q THEN "existing-link-same-target" ELSE "existing-link-other-target")
   ELSE IF mac = "copyfile" /\ a.pok /\ a.qok THEN (IF a.p = a.q THEN "src=dst" ELSE IF IsPrefix(a.q, a.p) THEN "dst-above-src" ELSE "-")
   ELSE "-"
Bad(be, mac, st, a, kind) == <<"BAD", be, mac, K1(st, a), K2(mac, st, a), kind, Detail(mac, st, a)>>

\* ---- the message of a panic must name the macro and the path ----
MsgClasses(be, mac, st, a, s) ==
   IF s.pn # "t" THEN <<>> ELSE
   (IF s.mn = "t" THEN <<>> ELSE << Bad(be, mac, st, a, "message-misses-macro-name") >>)
   \o (IF s.mp = "t" \/ (mac \in TwoPathMacros /\ s.mq = "t") THEN <<>> ELSE << Bad(be, mac, st, a, "message-misses-path") >>)

Outcome3(v, pn) == (IF v = "?" THEN "decision-" ELSE "") \o (IF pn THEN "panic" ELSE "pass")

JudgeStep(be, own, pre, s) ==
   LET c == s.c  mac == c.op IN
   IF mac = "checking-macros-changed-state" THEN << <<"BAD", be, "(checking macros)", "-", "-", "checking-macro-changed-state", "-">> >>
   ELSE IF mac \notin CheckingMacros \cup ActingMacros THEN << <<"BAD", be, mac, "-", "-", "harness:unknown-macro", "-">> >>
   ELSE IF (c.aok = "f" /\ VJ!Ambiguous(c.a)) \/ (mac \in TwoPathMacros /\ c.bok = "f" /\ VJ!Ambiguous(c.b)) THEN << <<"skip", "ambiguous-expansion">> >>
   ELSE
   LET a == ArgsOf(pre, c)
       pn == s.pn = "t"
       \* a real filesystem resolves a path THROUGH a link to a directory; the reference tree is lexical (links have no
       \* children) and C02 decides what the backends may do there: such arguments are not judged on Stdfs
       through == be = "stdfs" /\ (ThroughLink(pre.fs, a.p, a.pok) \/ (mac \in TwoPathMacros /\ ThroughLink(pre.fs, a.q, a.qok)))
       harnessOK == (c.rok = "t") = a.pok /\ (a.pok => c.rc = a.p)
   IN
   IF through THEN << <<"skip", "stdfs-path-through-link">> >>
   ELSE IF ~harnessOK THEN << <<"BAD", be, mac, K1(pre, a), "-", "harness:resolved-path-differs", "-">> >>
   ELSE IF mac \in CheckingMacros THEN
      LET v == Pred(mac, pre, a)
          verdict == IF s.same # "t" THEN << Bad(be, mac, pre, a, "checking-macro-changed-state") >>
                     ELSE IF pn /\ v = "T" THEN << Bad(be, mac, pre, a, "panics-but-predicate-true") >>
                     ELSE IF ~pn /\ v = "F" THEN << Bad(be, mac, pre, a, "passes-but-predicate-false") >>
                     ELSE <<>>
          all == verdict \o MsgClasses(be, mac, pre, a, s)
      IN IF all # <<>> THEN all
         ELSE << <<"ok", be, mac, Outcome3(v, pn), IF a.pok /\ (~pn \/ Exists(pre.fs, a.p)) THEN "nt" ELSE "tr">> >>
   ELSE
      LET viol == IF s.same = "t" THEN "-" ELSE RepViolation(s.post) IN
      IF viol # "-" THEN << Bad(be, mac, pre, a, "ILLFORMED:" \o viol) >>
      ELSE
      LET post == IF s.same = "t" THEN pre ELSE AbsBe(be, s.post)
          v == Post(mac, pre, post, own, a)
          perf == Performed(mac, pre, own, a, post)
          verdict == (IF perf THEN <<>> ELSE << Bad(be, mac, pre, a, IF post = pre THEN "operation-not-performed:state-unchanged" ELSE "operation-not-performed:other-state") >>)
                     \o (IF pn /\ v = "T" THEN << Bad(be, mac, pre, a, "panics-but-postcondition-true") >>
                         ELSE IF ~pn /\ v = "F" THEN << Bad(be, mac, pre, a, "passes-but-postcondition-false") >> ELSE <<>>)
          all == verdict \o MsgClasses(be, mac, pre, a, s)
      IN IF all # <<>> THEN all
         ELSE << <<"ok", be, mac, Outcome3(v, pn), IF post # pre \/ (~pn /\ a.pok) THEN "nt" ELSE "tr">> >>

\* tally update remembering group index * 1000 + step index of the first example of each class
RECURSIVE TallySteps(_, _, _, _, _, _, _)
TallySteps(tally, be, own, pre, steps, i, g) == IF i > Len(steps) THEN tally
   ELSE TallySteps(UpdAll(tally, JudgeStep(be, own, pre, steps[i]), g * 1000 + i), be, own, pre, steps, i + 1, g)
TallyGroup(tally, r, g) == LET v == RepViolation(r.pre) IN
   IF v # "-" THEN Upd(tally, <<"skip", "pre-state-illformed", v>>, g * 1000)
   ELSE TallySteps(tally, r.be, r.own, AbsBe(r.be, r.pre), r.steps, 1, g)

VARIABLES l
Init == l = 1 /\ TLCSet(1, <<>>) /\ TLCSet(2, 0)
Next == /\ l <= Len(Recs)
        /\ TLCSet(1, TallyGroup(TLCGet(1), Recs[l], l))
        /\ TLCSet(2, TLCGet(2) + Len(Recs[l].steps))
        /\ l' = l + 1
Done == (l = Len(Recs) + 1) => JsonSerialize(IOEnv.OUT, [checked |-> TLCGet(2), groups |-> Len(Recs), classes |-> TLCGet(1)])
Spec == Init /\ [][Next]_l
=============================================================================
