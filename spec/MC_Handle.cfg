CONSTANTS
  MaxData = 3
  MaxRead = 4
  MaxOff = 5
  MaxOps = 6
  WLen = 4
  MaxWrites = 3
SPECIFICATION Spec
INVARIANTS ReadNeverBeyond SeekErrorKeepsPos PosNonNeg LikeCursor FlushMakesVisible DropPersistsExactlyWritten AppendKeepsPrefix NothingForeign WrittenIsOffered
CHECK_DEADLOCK FALSE
