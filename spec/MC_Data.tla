------------------------------- MODULE MC_Data -------------------------------
(* C06 on the specification: the line helpers.  For every list of up to MaxLines lines of up to MaxLen
   bytes over Bytes: writing the lines (joined by "\n" plus one final "\n") and splitting the content
   again (BufRead::lines: split on "\n", strip one trailing "\r") returns the same list whenever the
   lines are non-empty and contain no line terminator; one newline is added per line; an append keeps
   the prefix; UTF-8 validity of a concatenation of valid pieces. *)
EXTENDS Vfs
CONSTANTS MaxLines, MaxLen, Bytes
VARIABLES ls, old
LinesSet == UNION {[1..k -> Bytes] : k \in 0..MaxLen}
Init == ls \in UNION {[1..n -> LinesSet] : n \in 0..MaxLines} /\ old \in LinesSet
Next == UNCHANGED <<ls, old>>
Spec == Init /\ [][Next]_<<ls, old>>

InDomain == \A i \in 1..Len(ls) : ls[i] # <<>> /\ \A j \in 1..Len(ls[i]) : ls[i][j] # NL /\ ls[i][j] # 13
Written == JoinLines(ls) \o <<NL>>
LinesRoundTrip == (InDomain /\ ls # <<>>) => Lines(Written) = ls
OneNewlinePerLine == InDomain => Cardinality({i \in 1..Len(Written) : Written[i] = NL}) = (IF ls = <<>> THEN 1 ELSE Len(ls))
AppendKeepsPrefix == LET o == Op_append_all([fs |-> (Root :> NDir([uid |-> 0, gid |-> 0])) @@ (<<"f">> :> NFile(old, [uid |-> 0, gid |-> 0])), cwd |-> Root], [uid |-> 0, gid |-> 0], <<"f">>, Written)
                     IN o.res.o = "ok" /\ SubSeq(o.st.fs[<<"f">>].d, 1, Len(old)) = old /\ o.st.fs[<<"f">>].d = old \o Written
Utf8Concat == (Utf8Valid(old) /\ Utf8Valid(Written)) => Utf8Valid(old \o Written)
=============================================================================
