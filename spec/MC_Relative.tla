------------------------------- MODULE MC_Relative -------------------------------
(* C16 on the specification: for every ordered pair of clean absolute paths up to
   MaxDepth components over Names, Relative(p, b) is zero or more ".." followed only
   by normal components, cleaning b joined with it yields p, and the number of ".."
   is the number of components of b below the common prefix. *)
EXTENDS PathLex
CONSTANTS Names, MaxDepth
VARIABLES p, b
CompSeqs == UNION {[1..k -> Names] : k \in 0..MaxDepth}
PathOf(cs) == <<Sep>> \o Flatten([i \in 1..Len(cs) |-> <<cs[i]>>], <<Sep>>)
Init == \E x \in CompSeqs, y \in CompSeqs : p = PathOf(x) /\ b = PathOf(y)
Next == UNCHANGED <<p, b>>
Spec == Init /\ [][Next]_<<p, b>>

RelSegs == Segs(Relative(p, b))
NDotDot == Cardinality({i \in 1..Len(RelSegs) : RelSegs[i] = DotDot})
Shape == /\ ~IsAbs(Relative(p, b)) \/ p = b
         /\ \A i \in 1..Len(RelSegs) : (RelSegs[i] = DotDot => \A j \in 1..i : RelSegs[j] = DotDot) /\ RelSegs[i] # Dot
RoundTrip == p # b => Clean(b \o <<Sep>> \o Relative(p, b)) = p
DotDotCount == NDotDot = Len(Segs(b)) - CommonLen(Segs(p), Segs(b))
InputsClean == Clean(p) = p /\ Clean(b) = b
=============================================================================
