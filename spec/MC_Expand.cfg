CONSTANTS
  MaxLen = 6
  Alphabet = {"a", "$", "{", "}", "V"}
  Values <- ValuesDef
SPECIFICATION Spec
INVARIANTS AgreesWithOperator PlainUnchanged NeverGuesses NoDollarLeft
PROPERTY Progress
CHECK_DEADLOCK FALSE
