CONSTANTS
  MaxSteps = 4
  Modes = {448, 420, 292}
SPECIFICATION Spec
INVARIANTS FoldAgrees CopierExclusive
PROPERTIES ChmodIndependent TogglesIdempotent
CHECK_DEADLOCK FALSE
