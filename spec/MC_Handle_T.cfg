CONSTANTS
  MaxData = 4
  MaxRead = 5
  MaxOff = 6
  MaxOps = 8
  WLen = 6
  MaxWrites = 4
SPECIFICATION Spec
INVARIANTS ReadNeverBeyond SeekErrorKeepsPos PosNonNeg LikeCursor FlushMakesVisible DropPersistsExactlyWritten AppendKeepsPrefix NothingForeign WrittenIsOffered
CHECK_DEADLOCK FALSE
