------------------------------- MODULE Trace_Pair -------------------------------
(* C02: the real-filesystem backend and the in-memory backend are interchangeable.  One record = one tree of the
   bounded namespace (materialised on disk with std::fs and built on a fresh Memfs) with every call of the alphabet
   executed on both:  [k |-> "p", tree |-> REP (observed on disk), memtree |-> REP, own, steps |-> << [c, skipped,
   mem |-> [r, same, post], std |-> [r, same, post]] >>].
   Judged: same success-or-failure, same returned value, same resulting tree (names, kinds, contents, link targets,
   permission bits; owners are not compared).  Each side is additionally judged against the reference operators so
   that the report names the side that deviates. *)
EXTENDS VfsJudge
Recs == ndJsonDeserialize(IOEnv.TRACE)

\* link kinds are compared only while the in-memory link's recorded kind is still what its target is (C10: "for as long as the target is unchanged")
NodeSame(A, a, b) == /\ a.k = b.k /\ a.d = b.d /\ a.t = b.t /\ Perm(a.mode) = Perm(b.mode)
                     /\ (a.tk = b.tk \/ (a.k = "link" /\ TK(A.fs, a.t) # a.tk))
TreeSame(A, B) == /\ A.cwd = B.cwd /\ DOMAIN A.fs = DOMAIN B.fs /\ \A p \in DOMAIN A.fs : NodeSame(A, A.fs[p], B.fs[p])
OwnerQ == {"owner", "uid", "gid"}
IsOk(r) == r.o = "ok"
\* entry(): compare the accessors but not the mode's... everything is compared; listing / path values are already sandbox-relative
ValSame(c, a, b) == IF c.op \in OwnerQ THEN TRUE ELSE a = b
\* D11: the relative text of a link to its own directory is not settled (relative(p, p) is documented to return p)
SelfDirLink(st, c) == LET ra == ResolveA(st, c) IN ra.o = "ok" /\ IsLink(st.fs, ra.p) /\ st.fs[ra.p].t = Parent(ra.p)
ResSame(c, rm, rs) == /\ rm.o # "panic" /\ rs.o # "panic"
                      /\ IsOk(rm) = IsOk(rs)
                      /\ (IsOk(rm) => ValSame(c, rm.v, rs.v))
\* PAIRMODE=ref (C11's permission grid): each backend is held to the reference; a difference between the two that the reference
\* leaves open (partial results of a failing multi-entry call) is C02's business, not an alarm here
RefOnly == "PAIRMODE" \in DOMAIN IOEnv /\ IOEnv.PAIRMODE = "ref"
\* owners are not compared between the backends (different defaults); for chown each side's owners are held to the reference:
\* after a successful call every entry has the owner the reference gives it (AnyId = not settled)
OwnersOK(pre, c, r, post, own) == r.o # "ok" \/
   LET ex == Expected(pre, c, own).st.fs IN
   \A p \in DOMAIN ex \cap DOMAIN post.fs : /\ (ex[p].uid = AnyId \/ ex[p].uid = post.fs[p].uid)
                                             /\ (ex[p].gid = AnyId \/ ex[p].gid = post.fs[p].gid)
MultiEntryOps == {"copy", "copy_b", "remove_all", "chmod", "chmod_b", "chown", "chown_b"}
Blame(okM, okS) == IF okM /\ okS THEN "reference-leaves-it-open" ELSE IF okM THEN "std-deviates" ELSE IF okS THEN "mem-deviates" ELSE "both-deviate"

JudgePair(preM, preS, s, own) ==
   LET c == s.c IN
   IF s.skipped # "-" THEN << <<"skip", s.skipped>> >>
   ELSE IF c.op \in {"readlink", "entry"} /\ SelfDirLink(preS, c) THEN << <<"skip", "link-to-its-own-directory">> >>
   ELSE LET vm == IF s.mem.same = "t" THEN "-" ELSE RepViolation(s.mem.post)
            vs == IF s.std.same = "t" THEN "-" ELSE RepViolation(s.std.post)
        IN IF vm # "-" \/ vs # "-" THEN << <<"BAD", "pair", c.op, ArgClass(preS, ResolveA(preS, c)), IF c.op \in TwoPath THEN ArgClass(preS, ResolveB(preS, c)) ELSE "-",
                                              IF c.op \in TwoPath THEN RelClass(preS, c) ELSE "-", "mem:" \o s.mem.r.o, "std:" \o s.std.r.o, "ILLFORMED mem:" \o vm \o " std:" \o vs, "-">> >>
        ELSE LET postM == IF s.mem.same = "t" THEN preM ELSE AbsOf(s.mem.post)
                 postS == IF s.std.same = "t" THEN preS ELSE AbsOf(s.std.post)
                 rs == ResSame(c, s.mem.r, s.std.r)
                 ts == TreeSame(postM, postS)
                 ownM == OwnersOK(preM, c, s.mem.r, postM, MemOwn)
                 ownS == OwnersOK(preS, c, s.std.r, postS, own)
             IN IF RefOnly /\ c.op \in {"chown", "chown_b"} /\ (~ownM \/ ~ownS) THEN
                   << <<"BAD", "pair", c.op, ArgClass(preS, ResolveA(preS, c)), "-", "-", "mem:" \o s.mem.r.o, "std:" \o s.std.r.o, "owners",
                        IF ownM THEN "std-deviates" ELSE IF ownS THEN "mem-deviates" ELSE "both-deviate">> >>
                ELSE IF rs /\ ts THEN << <<"ok", c.op, IF postS # preS \/ s.std.r.o # "ok" \/ c.op \in {"chown", "chown_b"} THEN "nt" ELSE "tr">> >>
                ELSE LET jm == JudgeStepO(preM, [c |-> c, r |-> s.mem.r, same |-> s.mem.same, post |-> s.mem.post], MemOwn)
                         js == JudgeStepO(preS, [c |-> c, r |-> s.std.r, same |-> s.std.same, post |-> s.std.post], own)
                     IN IF RefOnly /\ jm[1][1] # "BAD" /\ js[1][1] # "BAD" THEN << <<"unsettled", "pair", c.op, "both backends within the reference, different from each other">> >>
                        \* a multi-entry call that FAILS on both backends stops wherever it met the obstacle: how far it got is not comparable
                        ELSE IF ~IsOk(s.mem.r) /\ ~IsOk(s.std.r) /\ s.mem.r.o # "panic" /\ s.std.r.o # "panic" /\ c.op \in MultiEntryOps /\ jm[1][1] # "BAD" /\ js[1][1] # "BAD"
                             THEN << <<"unsettled", "pair", c.op, "partial result of a multi-entry call that fails on both backends">> >>
                        ELSE
                        << <<"BAD", "pair", c.op, ArgClass(preS, ResolveA(preS, c)), IF c.op \in TwoPath THEN ArgClass(preS, ResolveB(preS, c)) ELSE "-",
                              IF c.op \in TwoPath THEN RelClass(preS, c) ELSE "-", "mem:" \o s.mem.r.o, "std:" \o s.std.r.o,
                              IF ~rs /\ ~ts THEN "result+tree" ELSE IF ~rs THEN "result" ELSE "tree",
                              Blame(jm[1][1] # "BAD", js[1][1] # "BAD")>> >>

RECURSIVE TallyPairs(_, _, _, _, _, _, _)
TallyPairs(tally, preM, preS, steps, i, g, own) == IF i > Len(steps) THEN tally
   ELSE TallyPairs(UpdAll(tally, JudgePair(preM, preS, steps[i], own), g * 1000 + i), preM, preS, steps, i + 1, g, own)
\* chain records (k = "ph"): a history run on both backends side by side, every step judged from the previous step's post-states
RECURSIVE TallyChainP(_, _, _, _, _, _, _)
TallyChainP(tally, preM, preS, steps, i, g, own) == IF i > Len(steps) THEN tally
   ELSE LET s == steps[i]
            postM == IF s.mem.same = "t" THEN preM ELSE AbsOf(s.mem.post)
            postS == IF s.std.same = "t" THEN preS ELSE AbsOf(s.std.post)
            j == JudgePair(preM, preS, s, own) IN
        IF j[1][1] = "BAD" THEN UpdAll(tally, j, g * 1000 + i)            \* the rest of the history starts from diverged states
        ELSE TallyChainP(UpdAll(tally, j, g * 1000 + i), postM, postS, steps, i + 1, g, own)
TallyRec(tally, r, g) ==
   LET vm == RepViolation(r.memtree)  vs == RepViolation(r.tree) IN
   IF vm # "-" \/ vs # "-" THEN Upd(tally, <<"skip", "pre-tree-illformed", vm, vs>>, g * 1000)
   ELSE LET preM == AbsOf(r.memtree)  preS == AbsOf(r.tree) IN
        IF ~TreeSame(preM, preS) THEN Upd(tally, <<"BAD", "harness", "the two backends were not set up with the same tree">>, g * 1000)
        ELSE IF r.k = "ph" THEN TallyChainP(tally, preM, preS, r.steps, 1, g, r.own)
        ELSE TallyPairs(tally, preM, preS, r.steps, 1, g, r.own)

VARIABLES l
Init == l = 1 /\ TLCSet(1, <<>>) /\ TLCSet(2, 0)
Next == /\ l <= Len(Recs)
        /\ TLCSet(1, TallyRec(TLCGet(1), Recs[l], l))
        /\ TLCSet(2, TLCGet(2) + Len(Recs[l].steps))
        /\ l' = l + 1
Done == (l = Len(Recs) + 1) => JsonSerialize(IOEnv.OUT, [checked |-> TLCGet(2), groups |-> Len(Recs), classes |-> TLCGet(1)])
Spec == Init /\ [][Next]_l
=============================================================================
