------------------------------- MODULE MC_Clean -------------------------------
(* The six documented rules of clean() as a rewriting machine over character
   sequences.  TLC starts it from EVERY string up to MaxLen over Alphabet and
   applies the rules in every possible order: the machine must terminate, every
   terminal state must be the same (confluence) and equal Clean(orig) - the
   transcription of Go's path.Clean used to judge the implementation - and
   every intermediate string must stay lexically equivalent to the original. *)
EXTENDS PathLex
CONSTANTS MaxLen, Alphabet
VARIABLES s, orig

Del(x, i, j) == SubSeq(x, 1, i - 1) \o SubSeq(x, j + 1, Len(x))     \* remove positions i..j
\* segment boundaries: x[i..j] is a maximal separator-free run
IsSeg(x, i, j) == /\ 1 <= i /\ i <= j /\ j <= Len(x)
                  /\ \A k \in i..j : x[k] # Sep
                  /\ (IF i = 1 THEN TRUE ELSE x[i - 1] = Sep) /\ (IF j = Len(x) THEN TRUE ELSE x[j + 1] = Sep)   \* IF: TLC evaluates both disjuncts under ENABLED
SegIs(x, i, j, v) == IsSeg(x, i, j) /\ SubSeq(x, i, j) = v
RECURSIVE FollowSep(_, _)      \* number of separators that directly follow position j (an element goes away together with them;
FollowSep(x, j) == IF j < Len(x) THEN (IF x[j + 1] = Sep THEN 1 + FollowSep(x, j + 1) ELSE 0) ELSE 0   \* removing only one would turn ".//a" into "/a")

CollapseSep == \E i \in 1..(Len(s) - 1) : s[i] = Sep /\ s[i + 1] = Sep /\ s' = Del(s, i, i)                       \* rule 1
DropDot == \E i \in 1..Len(s) : SegIs(s, i, i, Dot) /\ s' = Del(s, i, i + FollowSep(s, i))                         \* rule 2
CancelDotDot == \E i \in 1..Len(s) : \E j \in i..Len(s) :                                                          \* rule 3
     /\ IsSeg(s, i, j) /\ SubSeq(s, i, j) # Dot /\ SubSeq(s, i, j) # DotDot
     /\ SegIs(s, j + 2, j + 3, DotDot)
     /\ s' = Del(s, i, j + 3 + FollowSep(s, j + 3))
DropRootDotDot == IsAbs(s) /\ SegIs(s, 2, 3, DotDot) /\ s' = Del(s, 2, 3 + FollowSep(s, 3))                       \* rule 4
\* rule 5 (leading ".." of a relative path stays) is the absence of a rule
DropTrailingSep == Len(s) > 1 /\ LastOf(s) = Sep /\ s' = FrontOf(s)                                               \* rule 6
Final(x) == IF x = <<>> THEN Dot ELSE x                                                                           \* "if the result is empty return ."

Strings == UNION {[1..n -> Alphabet] : n \in 0..MaxLen}
Init == s \in Strings /\ orig = s
Rule == CollapseSep \/ DropDot \/ CancelDotDot \/ DropRootDotDot \/ DropTrailingSep
R1 == CollapseSep /\ UNCHANGED orig
R2 == DropDot /\ UNCHANGED orig
R3 == CancelDotDot /\ UNCHANGED orig
R4 == DropRootDotDot /\ UNCHANGED orig
R6 == DropTrailingSep /\ UNCHANGED orig
Next == R1 \/ R2 \/ R3 \/ R4 \/ R6
Spec == Init /\ [][Next]_<<s, orig>>

Terminal == ~ENABLED Rule
Confluent == Terminal => Final(s) = Clean(orig)              \* all normal forms coincide with Go's path.Clean
MeaningKept == Clean(Final(s)) = Clean(orig)                  \* every rewriting step preserves the denoted location
Shrinks == [][Len(s') < Len(s)]_<<s, orig>>                   \* termination, and the normal form is the shortest reachable spelling
CleanLaws == /\ Clean(Clean(orig)) = Clean(orig)              \* idempotent
             /\ IsAbs(Clean(orig)) = IsAbs(orig)              \* absoluteness preserved
             /\ Clean(orig) # <<>>                            \* never empty
             /\ IsCleanForm(Clean(orig))
=============================================================================
