CONSTANTS
  MaxLen = 5
  Alphabet = {"/", ".", "~", "$", "a", ":"}
SPECIFICATION Spec
INVARIANTS Shape Idempotent OnlyDocumentedFailures EmptyFails JoinLaw ClimbLaw
CHECK_DEADLOCK FALSE
