------------------------------- MODULE Trace_Xdg -------------------------------
(* Record validator for C18 (harness/src/bin/xdgprobe.rs): every record carries the index "e" of the
   environment its process was started with; the environments themselves are written by the check
   (props/c18.py), not by the driver, and read from IOEnv.PENV:
       {"envs": [ {NAME: chars, ..., "_": []}, ... ]}        ("_" keeps the object non-empty) *)
EXTENDS XdgEnv, Tally, Json, IOUtils, Integers

Recs == ndJsonDeserialize(IOEnv.TRACE)
PE == JsonDeserialize(IOEnv.PENV)
EnvOf(e) == PE.envs[e + 1]

IsErr(x) == x.o # "ok" /\ x.o # "panic" /\ x.o # "none"
\* class of a variable's value, for finding signatures
Cls(env, n) == IF ~IsSet(env, n) THEN "unset" ELSE LET v == env[n] IN
   IF v = <<>> THEN "empty"
   ELSE IF Count(v, ":") > 0 THEN (IF ParsePaths(v) = <<>> THEN "separators-only"
                                   ELSE IF \A i \in 1..Len(ParsePaths(v)) : IsAbs(ParsePaths(v)[i]) THEN "list" ELSE "list-with-relative")
   ELSE IF IsAbs(v) THEN "abs" ELSE "rel"
IdCls(env, n) == IF ~IsSet(env, n) THEN "unset" ELSE LET v == env[n] IN
   IF v = <<>> THEN "empty" ELSE IF Numeric(v) THEN "numeric" ELSE IF PlusNumeric(v) THEN "plus-numeric" ELSE "junk"
Flags(env, names) == [i \in 1..Len(names) |-> names[i] \o "=" \o Cls(env, names[i])]

MatchP(e, got) == IF e.o = "ok" THEN got.o = "ok" /\ SamePath(e.v, got.v) ELSE IsErr(got)
MatchL(e, got) == IF e.o = "ok" THEN got.o = "ok" /\ SameList(e.v, got.v) ELSE IsErr(got)
MatchO(e, got) == e.o = got.o /\ (e.o = "ok" => SamePath(e.v, got.v))
Law(S, got) == IF got.o # "ok" /\ \A e \in S : e.o = "ok" THEN "fails-but-should-succeed"
               ELSE IF got.o = "ok" /\ \A e \in S : e.o # "ok" THEN "succeeds-but-should-fail"
               ELSE "wrong-value"
ChkP(fn, S, got, fl) == IF got.o = "panic" THEN << <<"BAD", fn, "panic">> \o fl >>
                        ELSE IF \E e \in S : MatchP(e, got) THEN <<>> ELSE << <<"BAD", fn, Law(S, got)>> \o fl >>
ChkL(fn, S, got, fl) == IF got.o = "panic" THEN << <<"BAD", fn, "panic">> \o fl >>
                        ELSE IF \E e \in S : MatchL(e, got) THEN <<>> ELSE << <<"BAD", fn, Law(S, got)>> \o fl >>

JudgeDirs(r) == LET env == EnvOf(r.e)  o == r.o IN
      (IF r.env = env THEN <<>> ELSE << <<"BAD", "driver", "environment-differs-from-the-one-given">> >>)
   \o ChkP("home_dir", HomeDir(env), o.home, Flags(env, <<"HOME">>))
   \o ChkP("sys::home_dir", HomeDir(env), o.sys_home, Flags(env, <<"HOME">>))
   \o ChkP("config_dir", ConfigDir(env), o.config, Flags(env, <<"HOME", "XDG_CONFIG_HOME">>))
   \o ChkP("cache_dir", CacheDir(env), o.cache, Flags(env, <<"HOME", "XDG_CACHE_HOME">>))
   \o ChkP("data_dir", DataDir(env), o.data, Flags(env, <<"HOME", "XDG_DATA_HOME">>))
   \o ChkP("state_dir", StateDir(env), o.state, Flags(env, <<"HOME", "XDG_STATE_HOME">>))
   \o ChkP("runtime_dir", RuntimeDir(env), o.runtime, Flags(env, <<"XDG_RUNTIME_DIR">>))

JudgeLists(r) == LET env == EnvOf(r.e)  o == r.o IN
      ChkL("sys_config_dirs", SysConfigDirs(env), o.sys_config, Flags(env, <<"XDG_CONFIG_DIRS">>))
   \o ChkL("sys_data_dirs", SysDataDirs(env), o.sys_data, Flags(env, <<"XDG_DATA_DIRS">>))
   \o ChkL("path_dirs", PathDirs(env), o.path, Flags(env, <<"PATH">>))

\* sys::parse_paths on the raw value; the value must be the one of the given environment
JudgePP(r) == LET env == EnvOf(r.e) IN
   IF ~IsSet(env, r.n) \/ env[r.n] # r.a THEN << <<"BAD", "driver", "value-differs-from-the-environment-given">> >>
   ELSE ChkL("parse_paths", {POk(ParsePaths(r.a))}, r.o, Flags(env, <<r.n>>))

JudgeRids(r) == LET env == EnvOf(r.e)
                    fl == <<"uid=" \o (IF r.uid = <<"0">> THEN "0" ELSE "non-0"), "SUDO_UID=" \o IdCls(env, "SUDO_UID"), "SUDO_GID=" \o IdCls(env, "SUDO_GID")>> IN
   IF r.o.o = "panic" THEN << <<"BAD", "getrids", "panic">> \o fl >>
   ELSE IF <<r.o.ruid, r.o.rgid>> \in GetRids(env, r.uid, r.gid) THEN <<>>
   ELSE << <<"BAD", "getrids", IF <<r.o.ruid, r.o.rgid>> = <<r.uid, r.gid>> THEN "sudo-ids-not-returned" ELSE "wrong-pair">> \o fl >>

N1 == <<"r","v","1","8",".","t","o","m","l">>
N2 == <<"a","p","p","/">> \o N1
VLaw(S, got) == IF got.o = "none" /\ \A e \in S : e.o = "ok" THEN "none-but-a-candidate-holds-the-file"
                ELSE IF got.o = "ok" /\ \A e \in S : e.o = "none" THEN "returns-a-directory-but-no-candidate-holds-the-file"
                ELSE IF got.o = "ok" THEN "not-the-first-candidate-holding-the-file" ELSE "wrong-value"
ChkO(fn, S, got, fl) == IF got.o = "panic" THEN << <<"BAD", fn, "panic">> \o fl >>
                        ELSE IF \E e \in S : MatchO(e, got) THEN <<>> ELSE << <<"BAD", fn, VLaw(S, got)>> \o fl >>
JudgeVfs(r) == LET env == EnvOf(r.e)
                   ex == {Mash(r.has[i], N1) : i \in 1..Len(r.has)} \cup {Mash(r.has[i], N2) : i \in 1..Len(r.has)}
                   fl == << IF \A c \in ConfigDir(env) : c.o # "ok" THEN "config-home-undeterminable" ELSE "-" >>
                         \o Flags(env, <<"HOME", "XDG_CONFIG_HOME", "XDG_CONFIG_DIRS">>)
                   fn == "vfs.config_dir:" \o r.be
                   S1 == VfsConfigDir(env, ex, N1)
                   S2 == VfsConfigDir(env, ex, N2) IN
   IF r.setup # "ok" THEN << <<"BAD", "driver", "vfs-setup-failed", r.be, r.setup>> >>
   ELSE ChkO(fn, S1, r.o.n1, fl) \o ChkO(fn, S2, r.o.n2, fl)
     \o (IF r.be = "stdfs" THEN ChkO(fn \o "(direct)", S1, r.o.d1, fl) \o ChkO(fn \o "(direct)", S2, r.o.d2, fl) ELSE <<>>)

Judge(r) == CASE r.k = "dirs" -> JudgeDirs(r) [] r.k = "lists" -> JudgeLists(r) [] r.k = "pp" -> JudgePP(r)
              [] r.k = "rids" -> JudgeRids(r) [] r.k = "vfs" -> JudgeVfs(r)
AnySet(env, ns) == \E n \in ns : IsSet(env, n)
NT(r) == LET env == EnvOf(r.e) IN
   CASE r.k = "dirs" -> IF AnySet(env, {"HOME", "XDG_CONFIG_HOME", "XDG_CACHE_HOME", "XDG_DATA_HOME", "XDG_STATE_HOME", "XDG_RUNTIME_DIR"}) THEN "nt" ELSE "tr"
     [] r.k = "lists" -> IF AnySet(env, {"XDG_CONFIG_DIRS", "XDG_DATA_DIRS", "PATH"}) THEN "nt" ELSE "tr"
     [] r.k = "pp" -> IF Count(r.a, ":") > 0 THEN "nt" ELSE "tr"
     [] r.k = "rids" -> IF r.uid = <<"0">> /\ IsSet(env, "SUDO_UID") /\ IsSet(env, "SUDO_GID") THEN "nt" ELSE "tr"
     [] r.k = "vfs" -> IF Len(r.has) > 0 THEN "nt" ELSE "tr"
Kind(r) == IF r.k = "vfs" THEN "vfs:" \o r.be ELSE r.k

VARIABLES l
Init == l = 1 /\ TLCSet(1, <<>>)
Next == /\ l <= Len(Recs)
        /\ LET j == Judge(Recs[l]) IN TLCSet(1, UpdAll(TLCGet(1), IF j = <<>> THEN << <<"ok", Kind(Recs[l]), NT(Recs[l])>> >> ELSE j, l))
        /\ l' = l + 1
Done == (l = Len(Recs) + 1) => JsonSerialize(IOEnv.OUT, [checked |-> Len(Recs), classes |-> TLCGet(1)])
Spec == Init /\ [][Next]_l
=============================================================================
