CONSTANTS
  MaxLen = 4
  LongLen = 5
  StartPerms = {0, 420, 2541}
  StringPerms = {420}
  RawKinds = {"file", "dir", "link"}
  DoubleGroups <- DoubleGroupsDef
  DoublePerms <- DoublePermsDef
SPECIFICATION Spec
INVARIANTS AgreesWithSymMode TypeBitsKept LinksUnchanged FirstClauseError LogOK Frame Algebra SkipLaw
PROPERTY Progress
CHECK_DEADLOCK FALSE
