CONSTANTS
  MaxA = 5
  MaxB = 3
  Alphabet = {"/", ".", "a"}
SPECIFICATION Spec
INVARIANTS MashLaw TrimLaw ExtLaw SplitLaw HasLaw
CHECK_DEADLOCK FALSE
