------------------------------- MODULE MC_VfsPerm -------------------------------
(* Design-level run of the permission / ownership operators of the reference filesystem (C11):
   Vfs!Op_chmod_b, Vfs!Op_chown_b (and chmod, chown, mkfile_m, mkdir_m as the validator maps them) are applied
   ONCE to every tree of the namespace Names x depth 2 with at most MaxLinks symlinks (to a file, to a directory,
   to the root, dangling) from every path of the namespace with every combination of the builder options
   (recursive / no_recurse, follow, all / dirs / files octal, symbolic expression, uid / gid / owner).
   The selection of entries is re-stated here independently of Vfs!Visit (single-step edges "directory -> child" when
   recursive, "link -> target" when following, closed under iteration) and TLC checks on every outcome

     KeepsType          every entry keeps its kind and its file-type bits; no entry appears or disappears
     ChmodOnlyTargets   only selected non-link entries change, and only their permission bits
     ChmodExactValue    every selected entry of a kind addressed by an octal option has exactly that value (octal wins
                        over symbolic), otherwise the value the symbolic grammar defines, otherwise its old value
     LinksUntouched     chmod never alters a symlink itself
     ChownOnlyTargets / ChownExactValue   the same for uid / gid
     QueriesAgree       is_exec / is_readonly (IsExecMode / IsReadonlyMode) agree with the permission bits of mode()
     ErrorUnchanged     an error (missing path, malformed first clause) leaves the filesystem as it was *)
EXTENDS Vfs
CONSTANTS Names, MaxLinks, Octals, Variants,
          DeepUnder      \* top-level names that may have children (the full namespace when DeepUnder = Names)
VARIABLES pre, cur, call, res, phase

vars == <<pre, cur, call, res, phase>>
OwnD == [uid |-> 1000, gid |-> 1000]
P1 == {<<n>> : n \in Names}
P2 == {<<n, m>> : n \in Names, m \in Names}
NS == P1 \cup P2
Paths == NS \cup {Root}

\* ---- every tree of the namespace ----
KindMaps == {ka \in [NS -> {"none", "file", "dir", "link"}] :
               /\ \A p \in P2 : ka[p] # "none" => ka[Parent(p)] = "dir" /\ p[1] \in DeepUnder
               /\ Cardinality({p \in NS : ka[p] = "link"}) <= MaxLinks}
LinkMaps(ka) == [{p \in NS : ka[p] = "link"} -> Paths]
KindOfPath(ka, q) == IF q = Root THEN "dir" ELSE ka[q]
\* variant 0: the default modes; variant 1: odd modes and owners (so that "unchanged" and "set" can be told apart)
FileNode(v, p) == IF v = 0 THEN NFile(<<>>, OwnD) ELSE [NFile(<<>>, OwnD) EXCEPT !.mode = FileType + 388 + 16 * Len(p), !.uid = 1, !.gid = 2]   \* 0o624, 0o644
DirNode(v, p)  == IF v = 0 THEN NDir(OwnD) ELSE [NDir(OwnD) EXCEPT !.mode = DirType + 449 + 16 * Len(p), !.uid = 3]                \* 0o721, 0o741
TreeOf(ka, lt, v) ==
   [p \in {Root} \cup {q \in NS : ka[q] # "none"} |->
      IF p = Root THEN NDir(OwnD)
      ELSE IF ka[p] = "file" THEN FileNode(v, p)
      ELSE IF ka[p] = "dir" THEN DirNode(v, p)
      ELSE LET t == lt[p]  k == KindOfPath(ka, t) IN NLink(t, IF k \in {"file", "dir"} THEN k ELSE "none", OwnD)]
\* a link must not point to itself or to another link (chains are outside this run)
TreeSet == UNION {{TreeOf(ka, lt, v) : lt \in {l \in LinkMaps(ka) : \A p \in DOMAIN l : l[p] # p /\ KindOfPath(ka, l[p]) # "link"}, v \in Variants} : ka \in KindMaps}

\* ---- the calls ----
S1 == <<"f", ":", "u", "+", "x">>
S2 == <<"d", ":", "o", "-", "r", "x", ",", "f", ":", "g", "+", "w">>
S3 == <<"a", ":", "a", "-", "w">>
S4 == <<"a", ":", "a", "+", "x">>
SBadFirst == <<"f", ":", "a", "+">>                        \* no permission letter
SBadLater == <<"a", ":", "u", "+", "x", ",", "f">>
SymExprs == {S1, S2, S3, S4}
OctalOpts == {[dm |-> 0, fm |-> 0]} \cup {[dm |-> m, fm |-> m] : m \in Octals} \cup {[dm |-> m, fm |-> 0] : m \in Octals}
             \cup {[dm |-> 0, fm |-> m] : m \in Octals} \cup {[dm |-> m, fm |-> n] : m \in Octals, n \in Octals}
ChmodCo(oc, sym, rec, fol) == [dm |-> oc.dm, fm |-> oc.fm, sym |-> sym, recursive |-> rec, follow |-> fol]
Fresh == phase = "start"
\* outcome of an operator application: the main post-state or one of the admissible alternatives
Take(o, c) == /\ cur' \in {o.st} \cup o.alt /\ res' = [o |-> o.res.o, partial |-> o.partial] /\ call' = c /\ phase' = "done" /\ UNCHANGED pre
ChmodCall(p, co) == Take(Op_chmod_b(pre, p, co), [op |-> "chmod", p |-> p, co |-> co])

ChmodOctal == Fresh /\ \E p \in Paths, oc \in OctalOpts \ {[dm |-> 0, fm |-> 0]}, rec \in BOOLEAN, fol \in BOOLEAN :
                 ChmodCall(p, ChmodCo(oc, <<>>, rec, fol))
ChmodSymbolic == Fresh /\ \E p \in Paths, sym \in SymExprs, rec \in BOOLEAN, fol \in BOOLEAN :
                 ChmodCall(p, ChmodCo([dm |-> 0, fm |-> 0], sym, rec, fol))
ChmodMixed == Fresh /\ \E p \in Paths, oc \in OctalOpts \ {[dm |-> 0, fm |-> 0]}, sym \in {S1, S2}, rec \in BOOLEAN, fol \in BOOLEAN :
                 ChmodCall(p, ChmodCo(oc, sym, rec, fol))
ChmodMalformed == Fresh /\ \E p \in Paths, oc \in OctalOpts, sym \in {SBadFirst, SBadLater}, rec \in BOOLEAN, fol \in BOOLEAN :
                 ChmodCall(p, ChmodCo(oc, sym, rec, fol))
ChmodNothing == Fresh /\ \E p \in Paths, rec \in BOOLEAN, fol \in BOOLEAN : ChmodCall(p, ChmodCo([dm |-> 0, fm |-> 0], <<>>, rec, fol))
ChmodPlain == Fresh /\ \E p \in Paths, m \in Octals :                                  \* vfs.chmod(p, m)
                 ChmodCall(p, [dm |-> m, fm |-> m, sym |-> <<>>, recursive |-> TRUE, follow |-> FALSE])
ChownCall(p, co) == Take(Op_chown_b(pre, p, co), [op |-> "chown", p |-> p, co |-> co])
ChownB == Fresh /\ \E p \in Paths, su \in BOOLEAN, sg \in BOOLEAN, rec \in BOOLEAN, fol \in BOOLEAN :
                 ChownCall(p, [setu |-> su, setg |-> sg, uid |-> 5, gid |-> 7, recursive |-> rec, follow |-> fol])
ChownPlain == Fresh /\ \E p \in Paths : ChownCall(p, [setu |-> TRUE, setg |-> TRUE, uid |-> 5, gid |-> 7, recursive |-> TRUE, follow |-> FALSE])   \* vfs.chown(p, 5, 7)
MkfileM == Fresh /\ \E p \in Paths, m \in Octals : Take(Op_mkfile_m(pre, OwnD, p, m), [op |-> "mkfile_m", p |-> p, co |-> [m |-> m]])
MkdirM  == Fresh /\ \E p \in Paths, m \in Octals : Take(Op_mkdir_m(pre, OwnD, p, DirType + Perm(m)), [op |-> "mkdir_m", p |-> p, co |-> [m |-> m]])

NoCall == [op |-> "-", p |-> Root, co |-> [m |-> 0]]
Init == /\ \E t \in TreeSet : pre = [fs |-> t, cwd |-> Root]
        /\ cur = pre /\ call = NoCall /\ res = [o |-> "-", partial |-> FALSE] /\ phase = "start"
Next == ChmodOctal \/ ChmodSymbolic \/ ChmodMixed \/ ChmodMalformed \/ ChmodNothing \/ ChmodPlain \/ ChownB \/ ChownPlain \/ MkfileM \/ MkdirM
Spec == Init /\ [][Next]_vars

\* ---- selection, stated independently of Vfs!Visit ----
Edge(fs, x, y, rec, fol) == \/ rec /\ fs[x].k = "dir" /\ Len(y) = Len(x) + 1 /\ Parent(y) = x
                            \/ fol /\ fs[x].k = "link" /\ fs[x].t = y
RECURSIVE Grow(_, _, _, _, _)
Grow(fs, S, rec, fol, n) == IF n = 0 THEN S ELSE Grow(fs, S \cup {y \in DOMAIN fs : \E x \in S : Edge(fs, x, y, rec, fol)}, rec, fol, n - 1)
Sel(fs, p, rec, fol) == Grow(fs, {p}, rec, fol, Cardinality(DOMAIN fs))
Done == phase = "done"
IsChmod == Done /\ call.op = "chmod"
IsChown == Done /\ call.op = "chown"
Selected == Sel(pre.fs, call.p, call.co.recursive, call.co.follow)
KindType(k) == CASE k = "file" -> FileType [] k = "dir" -> DirType [] k = "link" -> LinkType
WF(sym) == \A i \in 1..Len(CS!Clauses(sym)) : CS!WellFormed(CS!Clauses(sym)[i])
Wanted(n, co) ==                                                  \* rustdoc: octal takes precedence over the symbolic form if set
   IF n.k = "dir" /\ co.dm # 0 THEN DirType + Perm(co.dm)
   ELSE IF n.k = "file" /\ co.fm # 0 THEN FileType + Perm(co.fm)
   ELSE IF n.k # "link" /\ co.sym # <<>> THEN CS!SymMode(n.k, n.mode, co.sym).mode
   ELSE n.mode

TypeOK == /\ TreeOK(pre.fs) /\ TreeOK(cur.fs)
          /\ \A x \in DOMAIN cur.fs : TypeOf(cur.fs[x].mode) = KindType(cur.fs[x].k)
KeepsType == (IsChmod \/ IsChown) =>
   /\ DOMAIN cur.fs = DOMAIN pre.fs /\ cur.cwd = pre.cwd
   /\ \A x \in DOMAIN pre.fs : /\ cur.fs[x].k = pre.fs[x].k /\ TypeOf(cur.fs[x].mode) = TypeOf(pre.fs[x].mode)
                               /\ cur.fs[x].d = pre.fs[x].d /\ cur.fs[x].t = pre.fs[x].t /\ cur.fs[x].tk = pre.fs[x].tk
ChmodOnlyTargets == IsChmod => LET S == Selected IN \A x \in DOMAIN pre.fs :
   cur.fs[x] # pre.fs[x] => /\ x \in S /\ pre.fs[x].k # "link"
                            /\ cur.fs[x] = [pre.fs[x] EXCEPT !.mode = cur.fs[x].mode]
                            /\ (pre.fs[x].k = "dir" => call.co.dm # 0 \/ call.co.sym # <<>>)
                            /\ (pre.fs[x].k = "file" => call.co.fm # 0 \/ call.co.sym # <<>>)
ChmodExactValue == (IsChmod /\ res.o = "ok" /\ ~res.partial) => LET S == Selected IN \A x \in DOMAIN pre.fs :
   cur.fs[x].mode = IF x \in S THEN Wanted(pre.fs[x], call.co) ELSE pre.fs[x].mode
LinksUntouched == IsChmod => \A x \in DOMAIN pre.fs : pre.fs[x].k = "link" => cur.fs[x] = pre.fs[x]
ChownOnlyTargets == IsChown => LET S == Selected IN \A x \in DOMAIN pre.fs :
   cur.fs[x] # pre.fs[x] => /\ x \in S
                            /\ cur.fs[x] = [pre.fs[x] EXCEPT !.uid = cur.fs[x].uid, !.gid = cur.fs[x].gid]
                            /\ (~call.co.setu => cur.fs[x].uid = pre.fs[x].uid) /\ (~call.co.setg => cur.fs[x].gid = pre.fs[x].gid)
\* with follow the link itself may or may not be re-owned (lchown vs chown is not documented): everything else is exact
ChownExactValue == (IsChown /\ res.o = "ok") => LET S == Selected IN \A x \in DOMAIN pre.fs :
   (x \in S /\ ~(call.co.follow /\ pre.fs[x].k = "link")) =>
        /\ cur.fs[x].uid = (IF call.co.setu THEN call.co.uid ELSE pre.fs[x].uid)
        /\ cur.fs[x].gid = (IF call.co.setg THEN call.co.gid ELSE pre.fs[x].gid)
ExecBits == {0, 3, 6}
WriteBits == {1, 4, 7}
QueriesAgree == LET S == IF IsChmod /\ res.o = "ok" THEN Selected ELSE {} IN \A x \in DOMAIN cur.fs : LET m == cur.fs[x].mode IN
   /\ IsExecMode(m) = (CS!Bits(m) \cap ExecBits # {})
   /\ IsReadonlyMode(m) = (CS!Bits(m) \cap WriteBits = {})
   /\ (IsChmod /\ res.o = "ok" /\ x \in S /\ pre.fs[x].k # "link" =>
         /\ (call.co.sym = S3 /\ call.co.dm = 0 /\ call.co.fm = 0 => IsReadonlyMode(m))
         /\ (call.co.sym = S4 /\ call.co.dm = 0 /\ call.co.fm = 0 => IsExecMode(m))
         /\ (pre.fs[x].k = "file" /\ call.co.fm # 0 => /\ IsExecMode(m) = (CS!Bits(call.co.fm) \cap ExecBits # {})
                                                        /\ IsReadonlyMode(m) = (CS!Bits(call.co.fm) \cap WriteBits = {}))
         /\ (pre.fs[x].k = "dir" /\ call.co.dm # 0 => /\ IsExecMode(m) = (CS!Bits(call.co.dm) \cap ExecBits # {})
                                                       /\ IsReadonlyMode(m) = (CS!Bits(call.co.dm) \cap WriteBits = {})))
ErrorUnchanged == (Done /\ res.o # "ok" /\ ~res.partial) => cur = pre
MissingPath == (IsChmod \/ IsChown) => (res.o = "Path::DoesNotExist" <=> call.p \notin DOMAIN pre.fs)
MalformedFirst == IsChmod => ((res.o = "*") <=> (call.p \in DOMAIN pre.fs /\ call.co.sym # <<>> /\ (call.co.dm = 0 \/ call.co.fm = 0)
                                                  /\ ~CS!WellFormed(CS!Clauses(call.co.sym)[1])))
\* mkfile_m / mkdir_m: the new entry has the requested permission under the right type; nothing else changes
MkModes == (Done /\ call.op \in {"mkfile_m", "mkdir_m"} /\ res.o = "ok") =>
   /\ cur.fs[call.p].mode = (IF call.op = "mkfile_m" THEN FileType ELSE DirType) + Perm(call.co.m) \/ (call.p \in DOMAIN pre.fs /\ call.op = "mkdir_m")
   /\ \A x \in DOMAIN pre.fs : x # call.p => cur.fs[x] = pre.fs[x]
=============================================================================
