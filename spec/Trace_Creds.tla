------------------------------- MODULE Trace_Creds -------------------------------
(* Validator of real privilege programs (harness/src/bin/creds.rs: one forked child per program) against Creds.tla: every step's
   result and the six credentials the KERNEL reports afterwards (getresuid / getresgid) must be Step(pre, sudo, call); rivia's
   own getters must agree with those credentials (getuid = ru, geteuid = eu, getgid = rg, getegid = eg, is_root <=> ru = 0,
   getrids = the SUDO pair exactly when ru = 0 and the pair is usable). *)
EXTENDS Creds, TLC, Tally, Json, IOUtils
Recs == ndJsonDeserialize(IOEnv.TRACE)

Cr(v) == [ru |-> v[1], eu |-> v[2], su |-> v[3], rg |-> v[4], eg |-> v[5], sg |-> v[6]]
Flag(b, s) == IF b THEN s ELSE "-"
JudgeStep(pre, sudo, s) ==
   LET c == Cr(pre)  call == [op |-> s.op, a |-> s.a]  e == Step(c, sudo, call)  got == Cr(s.post)
       rids == GetRids(sudo, got.ru, got.rg)
       flags == <<Flag(Priv(c), "priv"), Flag(IsRoot(c), "real-root"), Flag(sudo.set, "sudo-pair")>> IN
   IF s.r = "panic" THEN <<"BAD", "creds", s.op, "panic">> \o flags
   ELSE IF (s.r = "ok") # e.ok THEN <<"BAD", "creds", s.op, IF e.ok THEN "fails-but-allowed" ELSE "succeeds-but-not-allowed">> \o flags
   ELSE IF got # e.c THEN <<"BAD", "creds", s.op, "credentials-after-the-call", IF e.ok THEN "ok" ELSE "Err">> \o flags
   ELSE IF <<s.obs[1], s.obs[2], s.obs[3], s.obs[4]>> # <<got.ru, got.eu, got.rg, got.eg>> THEN <<"BAD", "creds", "getters", "disagree-with-kernel">>
   ELSE IF (s.obs[5] = 1) # IsRoot(got) THEN <<"BAD", "creds", "is_root", "not-real-uid-0">>
   ELSE IF <<s.obs[6], s.obs[7]>> # rids THEN <<"BAD", "creds", "getrids", "wrong-pair">> \o flags
   ELSE <<"ok", "creds:" \o s.op \o ":" \o (IF e.ok THEN "ok" ELSE IF e.partial THEN "Err-partial" ELSE "Err")
                 \o (IF e.c = c THEN ":unchanged" ELSE ":changed") \o ":" \o flags[1] \o ":" \o flags[2], "nt">>
RECURSIVE JudgeFrom(_, _, _, _)
JudgeFrom(r, i, pre, acc) == IF i > Len(r.steps) THEN acc
   ELSE LET j == JudgeStep(pre, [set |-> r.sudo.set = <<"true">>, uid |-> r.sudo.uid, gid |-> r.sudo.gid], r.steps[i]) IN
        IF j[1] = "BAD" THEN Append(acc, j) ELSE JudgeFrom(r, i + 1, r.steps[i].post, Append(acc, j))
\* user database records
SameUser(e, got) == IF e.o # "ok" THEN got.o = e.o
   ELSE /\ got.o = "ok" /\ got.v.uid = e.uid /\ got.v.gid = e.gid /\ got.v.name = e.name /\ got.v.home = e.home /\ got.v.shell = e.shell
        /\ got.v.ruid = e.ruid /\ got.v.rgid = e.rgid /\ got.v.realname = e.realname /\ got.v.realhome = e.realhome
        /\ got.v.realshell = e.realshell /\ (got.v.is_root = <<"true">>) = e.is_root
UFlags(e, sudo, uid) == <<IF uid = 0 THEN "uid=0" ELSE "uid>0", Flag(sudo.set, "sudo-pair"), IF e.o = "ok" THEN (IF e.ruid # e.uid THEN "behind-sudo" ELSE "self") ELSE "missing">>
JudgeUsers(r) ==
   LET sudo == [set |-> r.sudo.set = <<"true">>, uid |-> r.sudo.uid, gid |-> r.sudo.gid]
       one(q) == LET e == FromUid(r.pw, sudo, q.uid) IN
                 IF SameUser(e, q.r) THEN <<"ok", "from_uid", "nt">> \o UFlags(e, sudo, q.uid)
                 ELSE <<"BAD", "from_uid", IF (e.o = "ok") # (q.r.o = "ok") THEN "existence" ELSE "wrong-field">> \o UFlags(e, sudo, q.uid)
       cur == Current(r.pw, sudo, Cr(r.me))
       curj == IF SameUser(cur, r.cur) THEN <<"ok", "current", "nt">> \o UFlags(cur, sudo, r.me[1])
               ELSE <<"BAD", "current", "not-from_uid(getuid)">> \o UFlags(cur, sudo, r.me[1])
       namej == IF (cur.o = "ok" /\ r.name.o = "ok" /\ r.name.v = cur.name) \/ (cur.o # "ok" /\ r.name.o = cur.o) THEN <<"ok", "name", "nt">>
                ELSE <<"BAD", "name", "not-current().name">> IN
   [i \in 1..Len(r.q) |-> one(r.q[i])] \o <<curj, namej>>
Judge(r) == IF r.k = "fu" THEN JudgeUsers(r) ELSE IF r.k = "cr-skip" THEN << <<"skip", "creds", "not-real-root">> >>
            ELSE IF r.k = "cr-crash" THEN << <<"BAD", "creds", "child-crashed">> >>
            ELSE JudgeFrom(r, 1, r.init, <<>>)
VARIABLES l
Init == l = 1 /\ TLCSet(1, <<>>)
Next == /\ l <= Len(Recs) /\ TLCSet(1, UpdAll(TLCGet(1), Judge(Recs[l]), l)) /\ l' = l + 1
Done == (l = Len(Recs) + 1) => JsonSerialize(IOEnv.OUT, [checked |-> Len(Recs), classes |-> TLCGet(1)])
Spec == Init /\ [][Next]_l
=============================================================================
