------------------------------- MODULE Trace_Creds -------------------------------
(* Validator of real privilege programs (harness/src/bin/creds.rs: one forked child per program) against Creds.tla: every step's
   result and the six credentials the KERNEL reports afterwards (getresuid / getresgid) must be Step(pre, sudo, call); rivia's
   own getters must agree with those credentials (getuid = ru, geteuid = eu, getgid = rg, getegid = eg, is_root <=> ru = 0,
   getrids = the SUDO pair exactly when ru = 0 and the pair is usable). *)
EXTENDS Creds, TLC, Tally, Json, IOUtils
Recs == ndJsonDeserialize(IOEnv.TRACE)

Cr(v) == [ru |-> v[1], eu |-> v[2], su |-> v[3], rg |-> v[4], eg |-> v[5], sg |-> v[6]]
Flag(b, s) == IF b THEN s ELSE "-"
JudgeStep(pre, sudo, s) ==
   LET c == Cr(pre)  call == [op |-> s.op, a |-> s.a]  e == Step(c, sudo, call)  got == Cr(s.post)
       rids == GetRids(sudo, got.ru, got.rg)
       flags == <<Flag(Priv(c), "priv"), Flag(IsRoot(c), "real-root"), Flag(sudo.set, "sudo-pair")>> IN
   IF s.r = "panic" THEN <<"BAD", "creds", s.op, "panic">> \o flags
   ELSE IF (s.r = "ok") # e.ok THEN <<"BAD", "creds", s.op, IF e.ok THEN "fails-but-allowed" ELSE "succeeds-but-not-allowed">> \o flags
   ELSE IF got # e.c THEN <<"BAD", "creds", s.op, "credentials-after-the-call", IF e.ok THEN "ok" ELSE "Err">> \o flags
   ELSE IF <<s.obs[1], s.obs[2], s.obs[3], s.obs[4]>> # <<got.ru, got.eu, got.rg, got.eg>> THEN <<"BAD", "creds", "getters", "disagree-with-kernel">>
   ELSE IF (s.obs[5] = 1) # IsRoot(got) THEN <<"BAD", "creds", "is_root", "not-real-uid-0">>
   ELSE IF <<s.obs[6], s.obs[7]>> # rids THEN <<"BAD", "creds", "getrids", "wrong-pair">> \o flags
   ELSE <<"ok", "creds:" \o s.op \o ":" \o (IF e.ok THEN "ok" ELSE IF e.partial THEN "Err-partial" ELSE "Err")
                 \o (IF e.c = c THEN ":unchanged" ELSE ":changed") \o ":" \o flags[1] \o ":" \o flags[2], "nt">>
RECURSIVE JudgeFrom(_, _, _, _)
JudgeFrom(r, i, pre, acc) == IF i > Len(r.steps) THEN acc
   ELSE LET j == JudgeStep(pre, [set |-> r.sudo.set = <<"true">>, uid |-> r.sudo.uid, gid |-> r.sudo.gid], r.steps[i]) IN
        IF j[1] = "BAD" THEN Append(acc, j) ELSE JudgeFrom(r, i + 1, r.steps[i].post, Append(acc, j))
Judge(r) == IF r.k = "cr-skip" THEN << <<"skip", "creds", "not-real-root">> >>
            ELSE IF r.k = "cr-crash" THEN << <<"BAD", "creds", "child-crashed">> >>
            ELSE JudgeFrom(r, 1, r.init, <<>>)
VARIABLES l
Init == l = 1 /\ TLCSet(1, <<>>)
Next == /\ l <= Len(Recs) /\ TLCSet(1, UpdAll(TLCGet(1), Judge(Recs[l]), l)) /\ l' = l + 1
Done == (l = Len(Recs) + 1) => JsonSerialize(IOEnv.OUT, [checked |-> Len(Recs), classes |-> TLCGet(1)])
Spec == Init /\ [][Next]_l
=============================================================================
