CONSTANTS
  MaxLinks = 2
  OptStride = 1
  LinkStride = 32
  PermMax = 5
SPECIFICATION Spec
INVARIANTS Terminates NothingRejected StackBounded EndBag EndValid EndAllOuts EndExpected EndLoop EndParentChild EndSiblings EndOnce EndExactSet PredicateTight ExpectedAdmissible ListingLemma
CHECK_DEADLOCK TRUE
