CONSTANTS
  MaxLinks = 1
  OptStride = 4
  LinkStride = 32
  PermMax = 4
SPECIFICATION Spec
INVARIANTS Terminates NothingRejected StackBounded EndBag EndValid EndAllOuts EndExpected EndLoop EndParentChild EndSiblings EndOnce EndExactSet PredicateTight ListingLemma
CHECK_DEADLOCK TRUE
