CONSTANTS
  MaxLinks = 2
  OptStride = 16
  LinkStride = 768
  PermMax = 4
SPECIFICATION Spec
INVARIANTS Terminates NothingRejected StackBounded EndBag EndValid EndAllOuts EndExpected EndLoop EndParentChild EndSiblings EndOnce EndExactSet PredicateTight ExpectedAdmissible ListingLemma
CHECK_DEADLOCK TRUE
