CONSTANTS
  Names = {"a", "b"}
  Depth = 2
  MaxLinks = 1
  MaxData = 1
  WithCwd = FALSE
  Sure = TRUE
SPECIFICATION Spec
VIEW View
INVARIANT WellFormedTree
PROPERTIES FailedCallAtomic WriteLaw AppendLaw MoveIsRelocation CopyLaw SymlinkLaw RemoveLaw RemoveAllLaw CwdLaw
CHECK_DEADLOCK FALSE
