------------------------------- MODULE MC_Totality -------------------------------
(* Design-level run of the C12 acceptance automaton: the monitor of Totality composed with an environment (the
   implementation under test, seen as a black box) that may issue ANY event at any time - every outcome of every
   method including "panic" and "timeout", probes that succeed or fail, a poisoned lock.  `last` is the event
   just issued, `verdict` what the monitor said about it ("accepted" or the name of the missing action) and
   `clean` whether every event so far was accepted.

   Checked:  wedged is absorbing; "usable" is preserved by ok/err; panic/timeout are never accepted; after an
   accepted err the only accepted event is a probe (so: every err is followed by a probe before the next call);
   the accepted steps are exactly the steps of Totality!GoodNext; a clean history is always usable. *)
EXTENDS Totality, TLC

VARIABLES last, verdict, clean
mvars == <<mode, owed, last, verdict, clean>>

None == [e |-> "none", fn |-> "-", o |-> "-"]
Verdicts == {"-", "accepted", "wedged", "poisoned", "probe-failed-after-error", "probe-failed", "panic", "timeout", "probe-skipped"}

MInit == Init /\ last = None /\ verdict = "-" /\ clean = TRUE

Judged(ev) == /\ verdict' = (IF Accepts(St, ev) THEN "accepted" ELSE Why(St, ev))
              /\ clean' = (clean /\ Accepts(St, ev))
              /\ Set(Observe(St, ev))

\* named disjuncts (coverage per action); each is a conjunction of its own so that TLC reports it under its name
EnvCallOk == \E fn \in Methods : last' = EvCall(fn, "ok") /\ Judged(EvCall(fn, "ok"))
EnvCallErr == \E fn \in Methods : last' = EvCall(fn, "err") /\ Judged(EvCall(fn, "err"))
EnvCallPanic == \E fn \in Methods : last' = EvCall(fn, "panic") /\ Judged(EvCall(fn, "panic"))
EnvCallTimeout == \E fn \in Methods : last' = EvCall(fn, "timeout") /\ Judged(EvCall(fn, "timeout"))
EnvProbeOk == last' = EvProbe("ok") /\ Judged(EvProbe("ok"))
EnvProbeFail == last' = EvProbe("fail") /\ Judged(EvProbe("fail"))
EnvPoison == last' = EvPoison /\ Judged(EvPoison)
MNext == EnvCallOk \/ EnvCallErr \/ EnvCallPanic \/ EnvCallTimeout \/ EnvProbeOk \/ EnvProbeFail \/ EnvPoison
MSpec == MInit /\ [][MNext]_mvars

(* ---- invariants ---- *)
MTypeOK == TypeOK /\ verdict \in Verdicts /\ clean \in BOOLEAN /\ last.e \in {"none", "call", "probe", "poison"}
CleanIsUsable == clean => mode = "usable"
WedgedOnlyByObservation == mode = "wedged" => ~clean
\* a probe is owed exactly after a call that did not return ok (while usable)
OwedMeaning == (mode = "usable" /\ last.e = "call") => (owed <=> (last.o # "ok" \/ verdict = "probe-skipped"))

(* ---- action properties ---- *)
WedgedAbsorbing == [][mode = "wedged" => (mode' = "wedged" /\ verdict' = "wedged")]_mvars
UsablePreservedByOkErr == [][(mode = "usable" /\ ~owed /\ last'.e = "call" /\ last'.o \in Good) => (mode' = "usable" /\ verdict' = "accepted")]_mvars
NoActionForPanicTimeout == [][(last'.e = "call" /\ last'.o \in {"panic", "timeout"}) => (verdict' # "accepted" /\ ~clean')]_mvars
ErrIsFollowedByProbe == [][(owed /\ verdict' = "accepted") => (last'.e = "probe" /\ ~owed')]_mvars
ErrOwesProbe == [][(verdict' = "accepted" /\ last'.e = "call" /\ last'.o = "err") => owed']_mvars
FailedProbeWedges == [][(last'.e = "probe" /\ last'.o = "fail") => mode' = "wedged"]_mvars
PoisonWedges == [][last'.e = "poison" => mode' = "wedged"]_mvars
\* the accepted steps of the monitor are steps of the automaton proper; a rejected one ends the clean history for good
AcceptedIsGoodNext == [][(verdict' = "accepted") => GoodNext]_mvars
RejectedIsNeverForgiven == [][~clean => ~clean']_mvars
=============================================================================
