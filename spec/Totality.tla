------------------------------- MODULE Totality -------------------------------
(* C12 - "No call panics, hangs or wedges the filesystem, whatever its arguments."

   The acceptance automaton of ONE filesystem instance (for the pure helpers: of the process).

     mode \in {"usable", "wedged"}     owed = a probe is owed (the previous call did not return Ok)

   Events an observer can see:
     call  fn outcome     outcome \in {"ok", "err", "panic", "timeout"}
     probe outcome        "ok"  : exists("/") is true and a mkdir_p + write_all + read_all (+ remove_all) round trip on a
                                  scratch path gives back the bytes written;   "fail" : anything else (error, panic, wrong bytes)
     poison               the lock of the instance was seen poisoned

   Actions (= what a total implementation may show):
     Call(fn, "ok")   usable, nothing owed  ->  usable
     Call(fn, "err")  usable, nothing owed  ->  usable, a probe is owed
     ProbeOk          usable                ->  usable, nothing owed
   There is NO action for a call with outcome "panic" or "timeout", none for a call while a probe is owed, none for a
   failed probe and none for a poisoned lock while usable: a trace containing one of them is not a behaviour of
   GoodSpec.  For classification (the validator must not stop at the first one) the automaton is completed to a monitor:
   `Accepts`/`After` are the actions above, `Why` names the missing action, `Wedges` says that the rejected event shows
   the instance to be unusable - from then on the mode is "wedged", and nothing leaves it: a poisoned lock is wedged
   forever (std::sync::RwLock never un-poisons; every later read_guard()/write_guard() unwraps the PoisonError). *)
EXTENDS Naturals, Sequences

Modes == {"usable", "wedged"}
Good == {"ok", "err"}
Outcomes == {"ok", "err", "panic", "timeout"}
ProbeOutcomes == {"ok", "fail"}

\* events have one shape: [e |-> "call" | "probe" | "poison", fn |-> name or "-", o |-> outcome or "-"]
EvCall(fn, o) == [e |-> "call", fn |-> fn, o |-> o]
EvProbe(o) == [e |-> "probe", fn |-> "-", o |-> o]
EvPoison == [e |-> "poison", fn |-> "-", o |-> "-"]

S0 == [mode |-> "usable", owed |-> FALSE]

(* ---- the automaton as operators over a state record (shared by the machine below, MC_Totality and Trace_Totality) ---- *)
Accepts(s, ev) ==
  IF s.mode # "usable" THEN FALSE
  ELSE IF ev.e = "call" THEN ~s.owed /\ ev.o \in Good
  ELSE IF ev.e = "probe" THEN ev.o = "ok"
  ELSE FALSE
After(s, ev) == IF ev.e = "call" THEN [s EXCEPT !.owed = (ev.o = "err")] ELSE [s EXCEPT !.owed = FALSE]

\* the rejected event shows that the instance cannot be used any more
Wedges(ev) == (ev.e = "probe" /\ ev.o # "ok") \/ ev.e = "poison"
\* which action is missing
Why(s, ev) ==
  IF s.mode = "wedged" THEN "wedged"
  ELSE IF ev.e = "poison" THEN "poisoned"
  ELSE IF ev.e = "probe" THEN (IF s.owed THEN "probe-failed-after-error" ELSE "probe-failed")
  ELSE IF ev.o \notin Good THEN ev.o                     \* "panic" / "timeout"
  ELSE "probe-skipped"                                    \* a call although a probe is owed (harness discipline)
\* state after a rejected event: wedged is absorbing; a panic / timeout owes a probe just like an error does
AfterRejected(s, ev) ==
  IF s.mode = "wedged" \/ Wedges(ev) THEN [s EXCEPT !.mode = "wedged"]
  ELSE IF ev.e = "call" THEN [s EXCEPT !.owed = TRUE]
  ELSE s
Observe(s, ev) == IF Accepts(s, ev) THEN After(s, ev) ELSE AfterRejected(s, ev)

(* ---- the same thing as a state machine ---- *)
CONSTANT Methods
VARIABLES mode, owed
vars == <<mode, owed>>
St == [mode |-> mode, owed |-> owed]
Set(s) == mode' = s.mode /\ owed' = s.owed

TypeOK == mode \in Modes /\ owed \in BOOLEAN
Init == mode = "usable" /\ owed = FALSE

Call(fn, o) == Accepts(St, EvCall(fn, o)) /\ Set(After(St, EvCall(fn, o)))
ProbeOk == Accepts(St, EvProbe("ok")) /\ Set(After(St, EvProbe("ok")))
\* the only way into "wedged": the observation that the instance is unusable (not an action of a total implementation)
Wedge == mode' = "wedged" /\ UNCHANGED owed

CallOk == \E fn \in Methods : Call(fn, "ok")
CallErr == \E fn \in Methods : Call(fn, "err")
GoodNext == CallOk \/ CallErr \/ ProbeOk
GoodSpec == Init /\ [][GoodNext]_vars

\* what C12 claims of every behaviour of the implementation
AlwaysUsable == mode = "usable"
ErrThenProbe == [][owed => (owed' = FALSE /\ mode' = "usable")]_vars
=============================================================================
