------------------------------- MODULE MC_Xdg -------------------------------
(* Design-level check of XdgEnv (C18).  TLC enumerates every environment of four small cross
   products as initial states (group g) and evaluates the laws of the property on each:
     "home": HOME x XDG_CONFIG_HOME x XDG_CACHE_HOME x XDG_DATA_HOME x XDG_STATE_HOME x XDG_RUNTIME_DIR
     "list": XDG_CONFIG_DIRS x XDG_DATA_DIRS x PATH
     "vfs" : HOME x XDG_CONFIG_HOME x XDG_CONFIG_DIRS x every subset of directories holding the file;
             here a search machine (Start / Miss / Hit / Exhaust) walks one admissible candidate list
             and its answer must be an admissible outcome of VfsConfigDir
     "rids": SUDO_UID x SUDO_GID x uid x gid
   The laws are stated independently of the operator definitions (raw split, sub-sequence, first
   index), so the run shows that the judge used on the implementation means what C18 says. *)
EXTENDS XdgEnv
VARIABLES g, env, ex, uid, gid, cl, i, res, pc
vars == <<g, env, ex, uid, gid, cl, i, res, pc>>

Unset == << "?unset?" >>
EnvOf(ch) == [n \in {m \in DOMAIN ch : ch[m] # Unset} |-> ch[n]]

H  == <<"/","h">>
HS == <<"/","h","/">>
C  == <<"/","c">>
R  == <<"r">>
A  == <<"/","a">>
B  == <<"/","b">>
ListAB  == <<"/","a",":",":","/","b",":">>
Colons  == <<":",":">>
RelList == <<"r",":",":","/","b">>
Name == <<"n",".","t">>
Decoy == <<"/","d","e","c","o","y">>
HomeCfg == <<"/","h","/",".","c","o","n","f","i","g">>
Universe == {C, A, B, EtcXdg, HomeCfg, Decoy}
FilesIn(ds) == {Mash(d, Name) : d \in ds}

HomeVals == {Unset, <<>>, H, HS}
XVals == {Unset, <<>>, C, R}
ListVals == {Unset, <<>>, A, ListAB, Colons, RelList}
N1000 == <<"1","0","0","0">>
IdVals == {Unset, <<>>, N1000, <<"0","0","7">>, <<"+","5">>, <<"j","u","n","k">>, <<"-","1">>,
           <<"4","2","9","4","9","6","7","2","9","5">>, <<"4","2","9","4","9","6","7","2","9","6">>,
           <<"9","9","9","9","9","9","9","9","9","9","9">>}
HomeNames == {"XDG_CONFIG_HOME", "XDG_CACHE_HOME", "XDG_DATA_HOME", "XDG_STATE_HOME"}

Idle == /\ ex = {} /\ cl = <<>> /\ i = 0 /\ res = NoneR /\ pc = "idle"
InitHome == /\ g = "home" /\ uid = <<"0">> /\ gid = <<"0">> /\ Idle
            /\ \E h \in HomeVals, r \in XVals, f \in [HomeNames -> XVals] :
                  env = EnvOf([n \in HomeNames \cup {"HOME", "XDG_RUNTIME_DIR"} |->
                                 IF n = "HOME" THEN h ELSE IF n = "XDG_RUNTIME_DIR" THEN r ELSE f[n]])
InitList == /\ g = "list" /\ uid = <<"0">> /\ gid = <<"0">> /\ Idle
            /\ \E f \in [{"XDG_CONFIG_DIRS", "XDG_DATA_DIRS", "PATH"} -> ListVals] : env = EnvOf(f)
InitVfs  == /\ g = "vfs" /\ uid = <<"0">> /\ gid = <<"0">>
            /\ cl = <<>> /\ i = 0 /\ res = NoneR /\ pc = "init"
            /\ ex \in {FilesIn(ds) : ds \in SUBSET Universe}
            /\ \E h \in {Unset, <<>>, H}, c \in XVals, l \in ListVals :
                  env = EnvOf([n \in {"HOME", "XDG_CONFIG_HOME", "XDG_CONFIG_DIRS"} |->
                                 IF n = "HOME" THEN h ELSE IF n = "XDG_CONFIG_HOME" THEN c ELSE l])
InitRids == /\ g = "rids" /\ Idle
            /\ uid \in {<<"0">>, N1000} /\ gid \in {<<"0">>, N1000}
            /\ \E f \in [{"SUDO_UID", "SUDO_GID"} -> IdVals] : env = EnvOf(f)
Init == InitHome \/ InitList \/ InitVfs \/ InitRids

(* ---- the search machine of vfs.config_dir ---- *)
Start == /\ pc = "init" /\ \E c \in CandidateLists(env) : cl' = c
         /\ i' = 1 /\ pc' = "scan" /\ UNCHANGED <<g, env, ex, uid, gid, res>>
Miss == /\ pc = "scan" /\ i <= Len(cl)
        /\ IF i <= Len(cl) THEN ~Holds(cl[i], ex, Name) ELSE FALSE
        /\ i' = i + 1 /\ UNCHANGED <<g, env, ex, uid, gid, cl, res, pc>>
Hit == /\ pc = "scan" /\ i <= Len(cl)
       /\ IF i <= Len(cl) THEN Holds(cl[i], ex, Name) ELSE FALSE
       /\ res' = POk(cl[i]) /\ pc' = "done" /\ UNCHANGED <<g, env, ex, uid, gid, cl, i>>
Exhaust == /\ pc = "scan" /\ i > Len(cl)
           /\ res' = NoneR /\ pc' = "done" /\ UNCHANGED <<g, env, ex, uid, gid, cl, i>>
Next == Start \/ Miss \/ Hit \/ Exhaust
Spec == Init /\ [][Next]_vars

(* ---- independent vocabulary for the laws ---- *)
RECURSIVE RawSplit(_)           \* split on ":" keeping empty segments
RawSplit(s) == IF \A k \in 1..Len(s) : s[k] # ":" THEN << s >>
               ELSE LET k == CHOOSE k \in 1..Len(s) : s[k] = ":" /\ \A j \in 1..(k - 1) : s[j] # ":" IN
                    << SubSeq(s, 1, k - 1) >> \o RawSplit(SubSeq(s, k + 1, Len(s)))
NonEmpty(ss) == SelectSeq(ss, LAMBDA x : x # <<>>)
RECURSIVE SubSeqOf(_, _)        \* a is an order-preserving selection of b
SubSeqOf(a, b) == IF a = <<>> THEN TRUE ELSE IF b = <<>> THEN FALSE
                  ELSE IF a[1] = b[1] THEN SubSeqOf(Tail(a), Tail(b)) ELSE SubSeqOf(a, Tail(b))
Restrict(e, ns) == [n \in DOMAIN e \cap ns |-> e[n]]
RelOf(n) == CASE n = "XDG_CONFIG_HOME" -> DotConfig [] n = "XDG_CACHE_HOME" -> DotCache
              [] n = "XDG_DATA_HOME" -> LocalShare [] n = "XDG_STATE_HOME" -> LocalState
OpOf(n, e) == CASE n = "XDG_CONFIG_HOME" -> ConfigDir(e) [] n = "XDG_CACHE_HOME" -> CacheDir(e)
                [] n = "XDG_DATA_HOME" -> DataDir(e) [] n = "XDG_STATE_HOME" -> StateDir(e)

(* ---- laws ---- *)
HomeLaw == g = "home" => \A n \in HomeNames : LET S == OpOf(n, env) IN
   /\ S # {}
   \* precedence: a usable XDG_*_HOME wins whatever HOME is
   /\ (IsSet(env, n) /\ IsAbs(env[n]) => S = {POk(env[n])})
   \* "the value when set" is admissible for every set value
   /\ (IsSet(env, n) => POk(env[n]) \in S)
   \* otherwise the default below $HOME: HOME's components followed by those of the default
   /\ (~IsSet(env, n) /\ IsSet(env, "HOME") /\ env["HOME"] # <<>> =>
         \E x \in {o.v : o \in S} : S = {POk(x)} /\ CompsR(x) = CompsR(env["HOME"]) \o Comps(RelOf(n)))
   /\ (~IsSet(env, n) /\ ~IsSet(env, "HOME") => \A o \in S : o.o # "ok")
   \* an unusable value never invents anything else than the value or the HOME default
   /\ (IsSet(env, n) => S \subseteq {POk(env[n])} \cup HomeRel(env, RelOf(n)))
   \* nothing but the variable itself and HOME matters
   /\ S = OpOf(n, Restrict(env, {n, "HOME"}))
RuntimeLaw == g = "home" => LET S == RuntimeDir(env) IN
   /\ \A o \in S : o.o = "ok"
   /\ (~IsSet(env, "XDG_RUNTIME_DIR") => S = {POk(TmpDir)})
   /\ (IsSet(env, "XDG_RUNTIME_DIR") => POk(env["XDG_RUNTIME_DIR"]) \in S /\ S \subseteq {POk(env["XDG_RUNTIME_DIR"]), POk(TmpDir)})
   /\ (IsSet(env, "XDG_RUNTIME_DIR") /\ IsAbs(env["XDG_RUNTIME_DIR"]) => S = {POk(env["XDG_RUNTIME_DIR"])})
HomeDirLaw == g = "home" => (IF IsSet(env, "HOME") THEN HomeDir(env) = {POk(env["HOME"])} ELSE \A o \in HomeDir(env) : o.o # "ok")

ListOk(S, n, default) ==
   /\ S # {} /\ \A o \in S : o.o = "ok"
   \* never an empty segment, never a separator inside an entry
   /\ \A o \in S : \A k \in 1..Len(o.v) : o.v[k] # <<>> /\ Count(o.v[k], ":") = 0
   \* order preserved: every answer is the default or an order-preserving selection of the listed segments
   /\ \A o \in S : o.v = default \/ (IsSet(env, n) /\ SubSeqOf(o.v, RawSplit(env[n])))
   \* unset or empty: exactly the default
   /\ (~IsSet(env, n) \/ env[n] = <<>> => S = {POk(default)})
   \* a list with at least one directory: all its non-empty segments in order is admissible, and the only
   \* admissible answer when all of them are absolute
   /\ (IsSet(env, n) /\ NonEmpty(RawSplit(env[n])) # <<>> =>
          /\ POk(NonEmpty(RawSplit(env[n]))) \in S
          /\ ((\A k \in 1..Len(NonEmpty(RawSplit(env[n]))) : IsAbs(NonEmpty(RawSplit(env[n]))[k])) => Cardinality(S) = 1))
   \* the default is never mixed into a list (no value of this run names a default directory)
   /\ \A o \in S : o.v # default => \A k \in 1..Len(o.v) : \A q \in 1..Len(default) : o.v[k] # default[q]
ListLaw == g = "list" =>
   /\ ListOk(SysConfigDirs(env), "XDG_CONFIG_DIRS", DefaultConfigDirs)
   /\ ListOk(SysDataDirs(env), "XDG_DATA_DIRS", DefaultDataDirs)
   /\ (IsSet(env, "PATH") => PathDirs(env) = {POk(NonEmpty(RawSplit(env["PATH"])))})
   /\ (~IsSet(env, "PATH") => \A o \in PathDirs(env) : o.o # "ok" \/ o.v = <<>>)
   /\ SysConfigDirs(env) = SysConfigDirs(Restrict(env, {"XDG_CONFIG_DIRS"}))
   /\ SysDataDirs(env) = SysDataDirs(Restrict(env, {"XDG_DATA_DIRS"}))

VfsLaw == g = "vfs" => LET S == VfsConfigDir(env, ex, Name) IN
   /\ S # {}
   /\ \A r \in S : \E c \in CandidateLists(env) :
        IF r.o = "ok"
        THEN \E k \in 1..Len(c) : /\ c[k] = r.v /\ Holds(c[k], ex, Name)
                                  /\ \A j \in 1..(k - 1) : ~Holds(c[j], ex, Name)
        ELSE r = NoneR /\ \A k \in 1..Len(c) : ~Holds(c[k], ex, Name)
   \* a directory outside the search order is never returned, whatever it contains
   /\ \A r \in S : r.o = "ok" => ~SamePath(r.v, Decoy) /\ Mash(r.v, Name) \in ex
   \* precedence: a usable XDG_CONFIG_HOME that contains the file wins over every XDG_CONFIG_DIRS entry
   /\ (IsSet(env, "XDG_CONFIG_HOME") /\ IsAbs(env["XDG_CONFIG_HOME"]) /\ Mash(env["XDG_CONFIG_HOME"], Name) \in ex
          => S = {POk(env["XDG_CONFIG_HOME"])})
   \* the XDG_CONFIG_DIRS default is searched when the variable is unset or empty
   /\ (~IsSet(env, "XDG_CONFIG_DIRS") /\ ~IsSet(env, "XDG_CONFIG_HOME") /\ ~IsSet(env, "HOME") /\ Mash(EtcXdg, Name) \in ex
          => S = {POk(EtcXdg)})
   /\ (ex = {} => S = {NoneR})
\* the search machine answers within the admissible outcomes
ScanLaw == pc = "done" => res \in VfsConfigDir(env, ex, Name)
ScanType == pc \in {"idle", "init", "scan", "done"} /\ (pc = "scan" => i \in 1..(Len(cl) + 1))

CanonId(s) == IsDigits(s) /\ Len(s) <= 9 /\ (Len(s) > 1 => s[1] # "0")
RidsLaw == g = "rids" => LET S == GetRids(env, uid, gid) IN
   /\ S # {}
   /\ (uid # <<"0">> => S = {<<uid, gid>>})
   /\ (~IsSet(env, "SUDO_UID") \/ ~IsSet(env, "SUDO_GID") => S = {<<uid, gid>>})
   /\ \A p \in S : IsDigits(p[1]) /\ IsDigits(p[2])
   /\ (uid = <<"0">> /\ IsSet(env, "SUDO_UID") /\ IsSet(env, "SUDO_GID") =>
        LET u == env["SUDO_UID"]  v == env["SUDO_GID"] IN
        /\ (CanonId(u) /\ CanonId(v) => S = {<<u, v>>})
        /\ ((\E k \in 1..Len(u) : ~IsDigit(u[k]) /\ u[k] # "+") \/ u = <<>> => S = {<<uid, gid>>})
        /\ ((\E k \in 1..Len(v) : ~IsDigit(v[k]) /\ v[k] # "+") \/ v = <<>> => S = {<<uid, gid>>})
        /\ (Len(u) > 10 /\ u[1] # "0" => S = {<<uid, gid>>}))
ASSUME Numeric(<<"4","2","9","4","9","6","7","2","9","5">>) /\ ~Numeric(<<"4","2","9","4","9","6","7","2","9","6">>)
ASSUME Numeric(<<"0","0","7">>) /\ Canon(<<"0","0","7">>) = <<"7">> /\ Canon(<<"0","0">>) = <<"0">>
ASSUME ~Numeric(<<>>) /\ ~Numeric(<<"-","1">>) /\ ~Numeric(<<"+","5">>) /\ PlusNumeric(<<"+","5">>) /\ ~Numeric(<<" ","5">>)
ASSUME RawSplit(ListAB) = << A, <<>>, B, <<>> >> /\ ParsePaths(ListAB) = << A, B >>
=============================================================================
