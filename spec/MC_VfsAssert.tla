------------------------------- MODULE MC_VfsAssert -------------------------------
(* Design-level check of VfsAssert (C20): the acting macros are the transitions of a machine over the reference
   filesystem (every macro from every reachable state of a bounded namespace, with every argument); in every
   reachable state the soundness / completeness laws of the macro suite are evaluated for ALL macros and ALL
   arguments of the bound:
     - exactly one of exists! / no_exists! panics; is_x! and no_x! are complementary; the three kind
       assertions partition the existing paths; read_all! / readlink! / readlink_abs! accept at most one value,
     - an acting macro whose operation succeeds per the reference does not panic, one whose operation fails does,
     - no macro passes vacuously: when an acting macro passes, the matching checking macros pass in the state it
       leaves (write_all!(p, d) passing => read_all!(p, d) passes, ...), and running it again changes nothing.
   `last` records the transition (observation only; hidden from the state space by the VIEW). *)
EXTENDS VfsAssert
CONSTANTS NameSet, Depth, MaxLinks, MaxData, MaxOdd
VARIABLES fs, cwd, last
vars == <<fs, cwd, last>>
View == <<fs, cwd>>

RECURSIVE PathsUpTo(_)
PathsUpTo(n) == IF n = 0 THEN {<<>>} ELSE LET P == PathsUpTo(n - 1) IN P \cup {Append(p, x) : p \in {q \in P : Len(q) = n - 1}, x \in NameSet}
Paths == PathsUpTo(Depth)
Own == [uid |-> 1000, gid |-> 1000]
X == <<120>>
Datas == {<<>>, X}
OddMode == 16832              \* 0o40700
Modes == {DirMode, OddMode, 448}   \* with type bits (default / other permissions), bare permissions 0o700
st == [fs |-> fs, cwd |-> cwd]

\* ---- arguments
NoArg == [p |-> <<>>, pok |-> TRUE, q |-> <<>>, qok |-> TRUE, d |-> <<>>, m |-> 0, rel |-> <<>>, relabs |-> FALSE]
A1(p) == [NoArg EXCEPT !.p = p]
A2(p, q) == [NoArg EXCEPT !.p = p, !.q = q]
AD(p, d) == [NoArg EXCEPT !.p = p, !.d = d]
AM(p, m) == [NoArg EXCEPT !.p = p, !.m = m]
AR(p, r, ab) == [NoArg EXCEPT !.p = p, !.rel = r, !.relabs = ab]
Bad1 == [NoArg EXCEPT !.pok = FALSE]                       \* first argument rejected by abs()
Bad2(p) == [NoArg EXCEPT !.p = p, !.qok = FALSE]
ParentOr(p) == IF p = Root THEN Root ELSE Parent(p)
Rels(p) == {RelC(q, ParentOr(p)) : q \in Paths}
ArgsOf(mac) ==
  IF mac \in {"read_all", "write_all"} THEN {AD(p, d) : p \in Paths, d \in Datas} \cup {Bad1}
  ELSE IF mac = "mkdir_m" THEN {AM(p, m) : p \in Paths, m \in Modes} \cup {Bad1}
  ELSE IF mac = "readlink" THEN {AR(p, r, FALSE) : p \in Paths, r \in UNION {Rels(x) : x \in Paths}} \cup {AR(p, <<"a">>, TRUE) : p \in Paths} \cup {Bad1}
  ELSE IF mac \in TwoPathMacros THEN {A2(p, q) : p \in Paths, q \in Paths} \cup {Bad1} \cup {Bad2(p) : p \in Paths}
  ELSE {A1(p) : p \in Paths} \cup {Bad1}

InBounds(s) == /\ DOMAIN s.fs \subseteq Paths
               /\ Cardinality({p \in DOMAIN s.fs : s.fs[p].k = "link"}) <= MaxLinks
               /\ Cardinality({p \in DOMAIN s.fs : s.fs[p].k = "dir" /\ s.fs[p].mode # DirMode}) <= MaxOdd
               /\ \A p \in DOMAIN s.fs : Len(s.fs[p].d) <= MaxData /\ s.fs[p].tk # "?"
\* wildcards of the reference resolved as in MC_Vfs: mode 0 = keep (or the default for a new parent), owner AnyId = Own
Fix(s) == [s EXCEPT !.fs = [p \in DOMAIN s.fs |->
             [s.fs[p] EXCEPT !.mode = IF @ # 0 THEN @ ELSE IF p \in DOMAIN fs THEN fs[p].mode ELSE DirMode,
                             !.uid = IF @ = AnyId THEN Own.uid ELSE @, !.gid = IF @ = AnyId THEN Own.gid ELSE @]]]

\* an acting macro as a transition: it leaves one of the admissible states and panics as its post-condition demands
Run(mac) == \E a \in ArgsOf(mac) : \E s0 \in Admissible(mac, st, Own, a).sts : LET s == Fix(s0) IN
               /\ InBounds(s)
               /\ fs' = s.fs /\ cwd' = s.cwd
               /\ \E pn \in BOOLEAN :
                     /\ (pn => ActMayPanic(mac, st, s, Own, a)) /\ (~pn => ActMayPass(mac, st, s, Own, a))
                     /\ last' = [mac |-> mac, a |-> a, pn |-> pn, post |-> Post(mac, st, s, Own, a), ok |-> Act(mac, st, Own, a).res.o]

MkdirP    == "mkdir_p" \in ActingMacros /\ Run("mkdir_p")
MkdirM    == "mkdir_m" \in ActingMacros /\ Run("mkdir_m")
Mkfile    == "mkfile" \in ActingMacros /\ Run("mkfile")
WriteAll  == "write_all" \in ActingMacros /\ Run("write_all")
Copyfile  == "copyfile" \in ActingMacros /\ Run("copyfile")
Symlink   == MaxLinks > 0 /\ Run("symlink")
Remove    == "remove" \in ActingMacros /\ Run("remove")
RemoveAll == "remove_all" \in ActingMacros /\ Run("remove_all")

Init == fs = (Root :> NDir(Own)) /\ cwd = Root /\ last = [mac |-> "init", a |-> NoArg, pn |-> FALSE, post |-> "T", ok |-> "ok"]
Next == MkdirP \/ MkdirM \/ Mkfile \/ WriteAll \/ Copyfile \/ Symlink \/ Remove \/ RemoveAll
Spec == Init /\ [][Next]_vars

(* ------------------------------------------------------------------ laws of the checking macros ------ *)
P(mac, a) == Pred(mac, st, a)
TwoValued == \A mac \in CheckingMacros \ {"read_all", "readlink"} : \A a \in ArgsOf(mac) : a.pok => P(mac, a) \in {"T", "F"}
\* for every state and path exactly one of exists! / no_exists! panics
ExistsXor == \A p \in Paths : Panics("exists", st, A1(p)) # Panics("no_exists", st, A1(p))
\* is_x! and no_x! never both pass and never both panic
Complementary == \A p \in Paths : \A k \in {"dir", "file", "symlink"} :
                    (P("is_" \o k, A1(p)) = "T") # (P("no_" \o k, A1(p)) = "T")
\* a path that exists is exactly one of directory / file / symlink; one that does not is none of them
KindPartition == \A p \in Paths :
   LET n == Cardinality({k \in {"is_dir", "is_file", "is_symlink"} : P(k, A1(p)) = "T"}) IN
   IF P("exists", A1(p)) = "T" THEN n = 1 ELSE n = 0
\* read_all! accepts exactly the content of a file and nothing about anything else
ReadAllExact == \A p \in Paths :
   LET acc == {d \in Datas : P("read_all", AD(p, d)) = "T"} IN
   /\ (P("is_file", A1(p)) = "T") => acc = {fs[p].d} \cap Datas
   /\ (P("is_file", A1(p)) = "F") => acc = {}
\* readlink_abs! accepts exactly the recorded target of a link; readlink! exactly the navigation to it
ReadlinkExact == \A p \in Paths :
   LET acc == {q \in Paths : P("readlink_abs", A2(p, q)) = "T"}
       accr == {r \in Rels(p) : P("readlink", AR(p, r, FALSE)) = "T"} IN
   /\ (P("is_symlink", A1(p)) = "T") => /\ acc = {fs[p].t}
                                        /\ (fs[p].t # Parent(p) => accr = {RelC(fs[p].t, Parent(p))})
   /\ (P("is_symlink", A1(p)) = "F") => (acc = {} /\ accr = {} /\ \A r \in Rels(p) : P("readlink", AR(p, r, FALSE)) = "F")
   /\ (~IsLink(fs, p) \/ fs[p].t # Parent(p)) => P("readlink", AR(p, <<"a">>, TRUE)) = "F"
\* an argument abs() rejects: every positive assertion panics
Unresolvable == /\ \A mac \in CheckingMacros \ NegativeMacros : Panics(mac, st, Bad1)
                /\ \A p \in Paths : Panics("readlink_abs", st, Bad2(p))
CheckingLaws == TwoValued /\ ExistsXor /\ Complementary /\ KindPartition /\ ReadAllExact /\ ReadlinkExact /\ Unresolvable

(* ------------------------------------------------------------------ laws of the acting macros -------- *)
\* what the macro establishes, said with the checking macros (the rustdoc examples pair them exactly like this)
Establishes(mac, s, a) ==
   CASE mac \in {"mkdir_p", "mkdir_m"} -> Pred("is_dir", s, A1(a.p)) = "T" /\ Pred("exists", s, A1(a.p)) = "T"
     [] mac = "mkfile"    -> Pred("is_file", s, A1(a.p)) = "T"
     [] mac = "write_all" -> Pred("read_all", s, AD(a.p, a.d)) = "T" /\ Pred("is_file", s, A1(a.p)) = "T"
     [] mac = "copyfile"  -> /\ Pred("is_file", s, A1(a.p)) = "T" /\ Pred("is_file", s, A1(a.q)) = "T"
                             /\ Pred("read_all", s, AD(a.q, s.fs[a.p].d)) = "T"
     [] mac = "symlink"   -> Pred("is_symlink", s, A1(a.p)) = "T" /\ Pred("readlink_abs", s, A2(a.p, a.q)) = "T"
     [] mac \in {"remove", "remove_all"} -> Pred("no_exists", s, A1(a.p)) = "T" /\ Pred("exists", s, A1(a.p)) = "F"
\* the macro-specific reading of "the operation succeeds"
Applicable(mac, a) == CASE mac = "mkdir_m" -> ~Exists(fs, a.p) /\ TypeOf(a.m) = DirType      \* an existing directory keeps its mode
                        [] mac = "copyfile" -> IsFile(fs, a.p) /\ (a.q = a.p \/ ~IsDir(fs, a.q))
                        [] OTHER -> TRUE
ActLaw(mac, a) ==
   LET o == Act(mac, st, Own, a) IN
   \A s0 \in Admissible(mac, st, Own, a).sts : LET s == Fix(s0)  post == Post(mac, st, s, Own, a) IN
      \* operation succeeds per the reference => the post-condition holds: no panic
      /\ (o.res.o = "ok" /\ Settled(o) /\ Applicable(mac, a)) => post = "T"
      \* operation fails per the reference => nothing changed and the macro panics
      /\ (Failed(o) /\ Settled(o)) => (post = "F" /\ s0 = st)
      \* a macro that must not panic is idempotent: running it again passes and changes nothing
      /\ (post = "T" /\ Settled(o)) => LET o2 == Act(mac, s, Own, a) IN
                                          /\ StEq(o2.st, s) /\ o2.alt = {} /\ Post(mac, s, s, Own, a) = "T"
      \* arguments abs() rejects: nothing is done and the macro panics
      /\ (~a.pok \/ (mac \in TwoPathMacros /\ ~a.qok)) => (post = "F" /\ s0 = st)
\* never a vacuous pass: whatever state the macro's run might have left - the admissible ones, the unchanged one
\* ("did nothing"), the result of any OTHER operation on the same arguments ("did something else") - a post-condition
\* that holds there implies that the matching checking macros pass there
Candidates(mac, a) == {st} \cup Admissible(mac, st, Own, a).sts \cup {Act(m2, st, Own, a).st : m2 \in ActingMacros}
NoVacuous(mac, a) == \A s0 \in Candidates(mac, a) : LET s == Fix(s0) IN
                        (Post(mac, st, s, Own, a) = "T") => Establishes(mac, s, a)
ActingLaws == \A mac \in ActingMacros : \A a \in ArgsOf(mac) : ActLaw(mac, a) /\ NoVacuous(mac, a)

\* on the transitions actually taken: "a macro that does not panic leaves a state satisfying its post-condition"
NoVacuousPass == [][(~last'.pn /\ last'.post = "T") => Establishes(last'.mac, [fs |-> fs', cwd |-> cwd'], last'.a)]_vars
PanicIffPostFails == [][/\ (last'.post = "T" => ~last'.pn) /\ (last'.post = "F" => last'.pn)
                        /\ ((last'.ok \notin {"ok", "?"} /\ last'.mac # "copyfile") => (last'.pn /\ fs' = fs /\ cwd' = cwd))]_vars
WellFormedTree == TreeOK(fs) /\ Exists(fs, cwd)
=============================================================================
