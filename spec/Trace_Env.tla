------------------------------- MODULE Trace_Env -------------------------------
(* Record validator for the environment-dependent path functions (C17 expand, C05 abs).
   The environment of the process that produced the chunk is read from IOEnv.PENV. *)
EXTENDS PathLex, Tally, Ascii, Json, IOUtils, Integers

Recs == ndJsonDeserialize(IOEnv.TRACE)
EnvRec == JsonDeserialize(IOEnv.PENV)          \* [vars |-> << [n |-> chars, v |-> chars], ... >>]
EnvNames == {EnvRec.vars[i].n : i \in 1..Len(EnvRec.vars)}
Env == [n \in EnvNames |-> (CHOOSE i \in 1..Len(EnvRec.vars) : EnvRec.vars[i].n = n) ]
EnvF == [n \in EnvNames |-> EnvRec.vars[Env[n]].v]

IsOk(x) == x.o = "ok"
IsErr(x) == x.o # "ok" /\ x.o # "panic"
Flag(b, s) == IF b THEN s ELSE "-"
\* input class for signatures
XClass(a) == << Flag(\E i \in 1..Len(a) : a[i] = "$" /\ (i = Len(a) \/ a[i + 1] \in {Sep, "$", "}"} \/ (a[i + 1] = "{" /\ (i + 1 = Len(a) \/ a[i + 2] \in {"}", Sep, "$"}))), "empty-var-name"),
                Flag(Count(a, "~") > 0, "tilde"),
                Flag(~IsAsciiStr(a), "nonascii") >>
Bad(fn, law, a) == <<"BAD", fn, law>> \o XClass(a)

\* compare got against the reference outcome e; exact = spelling fixed, else by components
Conf(fn, a, e, got, exact) ==
   IF got.o = "panic" THEN << Bad(fn, "panic", a) >>
   ELSE IF e.o = "ok" THEN
        (IF ~IsOk(got) THEN << Bad(fn, "fails-but-should-succeed", a) >>
         ELSE IF exact THEN (IF got.v = e.v THEN <<>> ELSE << Bad(fn, "wrong-value", a) >>)
         ELSE (IF CompsR(got.v) = CompsR(e.v) THEN <<>> ELSE << Bad(fn, "wrong-value", a) >>))
   ELSE (IF IsErr(got) THEN <<>> ELSE << Bad(fn, "succeeds-but-should-fail:" \o e.o, a) >>)

Plain(a) == Count(a, "~") = 0 /\ Count(a, "$") = 0
JudgeX(r) == LET a == r.a  e == Expand(EnvF, a) IN
   IF AmbiguousExpand(EnvF, a) THEN << <<"skip", "ambiguous-expansion">> >>
   ELSE Conf("expand", a, e, r.o.expand, Plain(a))
     \o (IF r.o.x_expand = r.o.expand THEN <<>> ELSE << Bad("x_expand", "route-differs", a) >>)
     \o Conf("abs", a, Abs(EnvF, r.cwd, a), r.o.abs, TRUE)

\* Stdfs runs inside a sandbox directory: its cwd is whatever the process cwd is, the law is the same
JudgeA(r) == LET a == r.a IN
   IF a # <<>> /\ AmbiguousExpand(EnvF, a) THEN << <<"skip", "ambiguous-expansion">> >>
   ELSE LET e == Abs(EnvF, r.cwd, a) IN
        Conf("abs:" \o r.be, a, e, r.o.abs, TRUE)
     \o (IF r.be = "stdfs" /\ r.o.abs_assoc # r.o.abs THEN << Bad("abs:stdfs", "Stdfs::abs-differs-from-trait-abs", a) >> ELSE <<>>)
     \o (IF IsOk(r.o.abs) /\ ~(IsAbs(r.o.abs.v) /\ IsCleanForm(r.o.abs.v)) THEN << Bad("abs:" \o r.be, "not-clean-absolute", a) >> ELSE <<>>)

Judge(r) == CASE r.k = "x" -> JudgeX(r) [] r.k = "a" -> JudgeA(r)
NT(r) == IF Plain(r.a) /\ IsAbs(r.a) /\ Clean(r.a) = r.a THEN "tr" ELSE "nt"

VARIABLES l
Init == l = 1 /\ TLCSet(1, <<>>)
Next == /\ l <= Len(Recs)
        /\ LET j == Judge(Recs[l]) IN TLCSet(1, UpdAll(TLCGet(1), IF j = <<>> THEN << <<"ok", Recs[l].k, NT(Recs[l])>> >> ELSE j, l))
        /\ l' = l + 1
Done == (l = Len(Recs) + 1) => JsonSerialize(IOEnv.OUT, [checked |-> Len(Recs), classes |-> TLCGet(1)])
Spec == Init /\ [][Next]_l
=============================================================================
