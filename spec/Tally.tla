------------------------------- MODULE Tally -------------------------------
(* Verdict tallies kept in TLC registers (not in the state): a sequence of
   [c |-> class, n |-> count, ex |-> index of first example]. *)
EXTENDS Naturals, Sequences, TLC
Upd(tally, c, at) == IF \E j \in 1..Len(tally) : tally[j].c = c
                     THEN [j \in 1..Len(tally) |-> IF tally[j].c = c THEN [tally[j] EXCEPT !.n = @ + 1] ELSE tally[j]]
                     ELSE Append(tally, [c |-> c, n |-> 1, ex |-> at])
RECURSIVE UpdAll(_, _, _)
UpdAll(tally, cs, at) == IF cs = <<>> THEN tally ELSE UpdAll(Upd(tally, Head(cs), at), Tail(cs), at)
=============================================================================
