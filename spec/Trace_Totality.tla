------------------------------- MODULE Trace_Totality -------------------------------
(* C12 - validator of the event stream written by harness/src/bin/totality.rs against the acceptance automaton
   of Totality.  The variables mode / owed ARE the automaton's; `l` steps through the records (stepping idiom),
   the verdict tallies live in TLC register 1.

   One record = one call and what the driver observed right after it, in this order:
        call(fn, o)   [poison, when the lock was seen poisoned]   [probe(ok|fail), run after every outcome but ok]
     nw = "t": the call ran on a freshly built instance, i.e. on a new automaton;
     nw = "f": the automaton continues from the state the previous record left (a wedged instance stays wedged);
     nw = "p": a pure helper - there is no instance (a new automaton per record, no probe applies).
   A record of an instance call that leaves a probe owed (error without probe in the log) is BAD "probe-missing-after-error":
   the instance would be discarded unprobed.
   Every event is put to the automaton (`Accepts`); an event without action is NOT the end of the validation: it
   becomes the class  <<"BAD", fn, Why, input-class>>  (Why = "panic" | "timeout" | "probe-failed-after-error" |
   "poisoned" | "wedged" | ...; fn / input-class = those of the call that wedged the instance when Why = "wedged")
   and the monitor continues (`Observe`).  A record without rejected event has the class <<"ok", fn, "nt"|"tr">>
   (nt: the call returned an error - the Call(err) -> Probe path of the automaton - or the input is not plain ASCII).

   k = "s": aggregate of n plain calls of one function / input class / outcome (ok, or err followed by a successful
            probe), each on its own: judged as one such call.
   k = "m": per-worker totals (skipped).
   Where PathLex can interpret the argument (field "x" = the input as characters) the ok / err outcome of the unary
   path helpers is compared with the documented one as well: <<"BAD", fn, "outcome-differs-from-PathLex", got, class>>. *)
EXTENDS Totality, PathLex, Json, IOUtils, TLC

Recs == ndJsonDeserialize(IOEnv.TRACE)

VARIABLES l, who, whoc
tvars == <<mode, owed, l, who, whoc>>

Events(r) == << EvCall(r.fn, r.o) >>
             \o (IF r.poisoned = "t" THEN << EvPoison >> ELSE <<>>)
             \o (IF r.probe # "-" THEN << EvProbe(r.probe) >> ELSE <<>>)

\* run the events of one record through the monitor: [s |-> state after, bad |-> reasons of the rejected events]
RECURSIVE Run(_, _, _)
Run(s, evs, bad) == IF evs = <<>> THEN [s |-> s, bad |-> bad]
                    ELSE LET ev == Head(evs) IN
                         Run(Observe(s, ev), Tail(evs), IF Accepts(s, ev) THEN bad ELSE Append(bad, Why(s, ev)))

NT(r) == IF r.o = "err" \/ (r["in"] # "plain" /\ r["in"] # "plain|plain" /\ r["in"] # "ints") THEN "nt" ELSE "tr"

(* ---- expected ok / err of the unary path helpers (PathLex; the same conditions as Trace_Strings) ---- *)
Helper(fn) == IF fn \in {"sys::base", "PathExt::base", "sys::last", "PathExt::last", "sys::first", "PathExt::first", "sys::name", "PathExt::name"} THEN "component"
              ELSE IF fn \in {"sys::dir", "PathExt::dir"} THEN "dir"
              ELSE IF fn \in {"sys::ext", "PathExt::ext"} THEN "ext"
              ELSE IF fn \in {"sys::clean", "PathExt::clean", "sys::trim_ext", "PathExt::trim_ext", "sys::trim_first", "PathExt::trim_first", "sys::trim_last",
                              "PathExt::trim_last", "sys::trim_protocol", "PathExt::trim_protocol", "sys::is_empty", "PathExt::is_empty", "sys::parse_paths"} THEN "total"
              ELSE "-"
ExpectedOutcome(fn, a) == LET cr == CompsR(a)  h == Helper(fn) IN
  IF h = "component" THEN (IF cr = <<>> THEN "err" ELSE "ok")
  ELSE IF h = "dir" THEN (IF cr = <<>> \/ cr = << <<Sep>> >> THEN "err" ELSE "ok")
  ELSE IF h = "ext" THEN (IF HasExt(a) THEN "ok" ELSE "err")
  ELSE IF h = "total" THEN "ok"
  ELSE "-"
HasX(r) == "x" \in DOMAIN r
Outcome(r) == IF HasX(r) /\ r.o \in Good /\ ExpectedOutcome(r.fn, r.x) \notin {"-", r.o}
              THEN << <<"BAD", r.fn, "outcome-differs-from-PathLex", r.o, r["in"]>> >> ELSE <<>>

(* ---- one record ---- *)
Start(r) == IF r.nw \in {"t", "p"} THEN S0 ELSE St
\* culprit of a wedge: the call of the record in which the instance became wedged
Culprit(r, after) == IF Start(r).mode = "wedged" THEN <<who, whoc>>
                     ELSE IF after.mode = "wedged" THEN <<r.fn, r["in"]>> ELSE <<"-", "-">>
BadClass(r, why, cul) == IF why = "wedged" THEN <<"BAD", cul[1], "wedged", cul[2]>> ELSE <<"BAD", r.fn, why, r["in"]>>
JudgeT(r) == LET res == Run(Start(r), Events(r), <<>>)
                 cul == Culprit(r, res.s)
                 miss == IF r.nw # "p" /\ res.s.mode = "usable" /\ res.s.owed /\ res.bad = <<>>
                         THEN << <<"BAD", r.fn, "probe-missing-after-error", r["in"]>> >> ELSE <<>>
                 bads == [i \in 1..Len(res.bad) |-> BadClass(r, res.bad[i], cul)] \o miss \o Outcome(r) IN
             [s |-> res.s, cul |-> cul,
              cs |-> IF bads = <<>> THEN << <<"ok", r.fn, NT(r)>> >> ELSE bads]

\* an aggregate claims: n calls, all of them accepted.  Anything else in a summary is a broken log.
SummaryOK(r) == r.o \in Good /\ r.n >= 1 /\ r.poisoned = "f" /\ r.probe = (IF r.o = "err" /\ r.nw # "p" THEN "ok" ELSE "-")
JudgeS(r) == LET res == Run(S0, Events(r), <<>>) IN
             [s |-> St, cul |-> <<who, whoc>>,
              cs |-> IF SummaryOK(r) /\ res.bad = <<>> THEN << <<"ok", r.fn, NT(r)>> >> ELSE << <<"BAD", r.fn, "summary-inconsistent", r["in"]>> >>]
JudgeM(r) == [s |-> St, cul |-> <<who, whoc>>, cs |-> << <<"skip", "worker-totals">> >>]
Judge(r) == CASE r.k = "t" -> JudgeT(r) [] r.k = "s" -> JudgeS(r) [] OTHER -> JudgeM(r)

(* ---- tallies: with > 200 classes the shared sequence tally (Tally.tla, linear search) costs 0.5 ms per record; here the
        tally in TLC register 1 is a FUNCTION class -> [n, ex] (lookup and update inside TLC's Java code), turned into the
        usual sequence of [c, n, ex] when it is written out ---- *)
FUpd(t, c, at) == IF c \in DOMAIN t THEN [t EXCEPT ![c] = [@ EXCEPT !.n = @ + 1]] ELSE t @@ (c :> [n |-> 1, ex |-> at])
RECURSIVE FUpdAll(_, _, _)
FUpdAll(t, cs, at) == IF cs = <<>> THEN t ELSE FUpdAll(FUpd(t, Head(cs), at), Tail(cs), at)
RECURSIVE SetAsSeq(_)
SetAsSeq(S) == IF S = {} THEN <<>> ELSE LET x == CHOOSE y \in S : TRUE IN <<x>> \o SetAsSeq(S \ {x})
TallySeq(t) == LET ks == SetAsSeq(DOMAIN t) IN [i \in 1..Len(ks) |-> [c |-> ks[i], n |-> t[ks[i]].n, ex |-> t[ks[i]].ex]]

TInit == Init /\ l = 1 /\ who = "-" /\ whoc = "-" /\ TLCSet(1, <<>>)
TNext == /\ l <= Len(Recs)
         /\ LET j == Judge(Recs[l]) IN
              /\ TLCSet(1, FUpdAll(TLCGet(1), j.cs, l))
              /\ Set(j.s)
              /\ who' = j.cul[1] /\ whoc' = j.cul[2]
         /\ l' = l + 1
Done == (l = Len(Recs) + 1) => JsonSerialize(IOEnv.OUT, [checked |-> Len(Recs), classes |-> TallySeq(TLCGet(1))])
TSpec == TInit /\ [][TNext]_tvars
=============================================================================
