------------------------------- MODULE MC_Handle -------------------------------
(* Design-level exploration of the handle machine of Handle.tla (C07).
   side = "r": a read handle over every data vector of length 0..MaxData, every sequence of at most
               MaxOps operations from Read(0..MaxRead), Seek(Start 0..MaxOff), Seek(Current -MaxOff..MaxOff),
               Seek(End -MaxOff..MaxOff).
   side = "w": one write/append handle on a file with every base content in Bases; the caller offers the
               stream D in every splitting into at most MaxWrites writes (a write may be short: every
               accepted count is explored), flushes or not, and drops the handle after any prefix (crash
               points).  The backend moves bytes to the file whenever it likes (TruncEarly, Through).
   Checked: ReadNeverBeyond, SeekErrorKeepsPos, LikeCursor, FlushMakesVisible, DropPersistsExactlyWritten,
            AppendKeepsPrefix, NothingForeign. *)
EXTENDS Handle, TLC
CONSTANTS MaxData, MaxRead, MaxOff, MaxOps, WLen, MaxWrites
VARIABLES side, h, file, w, last, cnt, used
vars == <<side, h, file, w, last, cnt, used>>

Bytes == <<11, 12, 13, 14, 15, 16>>
Datas == {SubSeq(Bytes, 1, n) : n \in 0..MaxData}
D == [i \in 1..WLen |-> 20 + i]                       \* the stream offered to the write handle
Bases == {<<>>, <<91>>, <<92, 93>>}
NoW == [mode |-> "none", base |-> <<>>, written |-> <<>>, synced |-> 0, cut |-> FALSE, open |-> FALSE]
L(op, a, ok, n, bytes, prev) == [op |-> op, a |-> a, ok |-> ok, n |-> n, bytes |-> bytes, prev |-> prev]
L0 == L("none", 0, TRUE, 0, <<>>, 0)

Init == /\ side \in {"r", "w"}
        /\ h \in (IF side = "r" THEN {[data |-> d, pos |-> 0] : d \in Datas} ELSE {[data |-> <<>>, pos |-> 0]})
        /\ file \in (IF side = "w" THEN Bases ELSE {<<>>})
        /\ w = NoW /\ last = L0 /\ cnt = 0 /\ used = 0

(* ---- read side ---- *)
\* (each action spells out its primes: TLC attributes coverage to the innermost definition containing them)
LR(op, s) == L(op.op, op.n, s.ok, s.n, s.bytes, h.pos)
CanR == side = "r" /\ cnt < MaxOps
RRead == /\ CanR
         /\ \E n \in 0..MaxRead : LET op == [op |-> "read", n |-> n]  s == Step(h, op) IN h' = s.h /\ last' = LR(op, s)
         /\ cnt' = cnt + 1 /\ UNCHANGED <<side, file, w, used>>
RSeekStart == /\ CanR
              /\ \E k \in 0..MaxOff : LET op == [op |-> "start", n |-> k]  s == Step(h, op) IN h' = s.h /\ last' = LR(op, s)
              /\ cnt' = cnt + 1 /\ UNCHANGED <<side, file, w, used>>
RSeekCur == /\ CanR
            /\ \E k \in (-MaxOff)..MaxOff : LET op == [op |-> "cur", n |-> k]  s == Step(h, op) IN h' = s.h /\ last' = LR(op, s)
            /\ cnt' = cnt + 1 /\ UNCHANGED <<side, file, w, used>>
RSeekEnd == /\ CanR
            /\ \E k \in (-MaxOff)..MaxOff : LET op == [op |-> "end", n |-> k]  s == Step(h, op) IN h' = s.h /\ last' = LR(op, s)
            /\ cnt' = cnt + 1 /\ UNCHANGED <<side, file, w, used>>

(* ---- write side ---- *)
WOpenAct == /\ side = "w" /\ w.mode = "none"
            /\ \E m \in Modes : w' = WOpen(file, m)
            /\ last' = L("open", 0, TRUE, 0, <<>>, 0) /\ UNCHANGED <<side, h, file, cnt, used>>
WTruncEarly == /\ side = "w" /\ CanCut(w)
               /\ file' = <<>> /\ w' = [w EXCEPT !.cut = TRUE]
               /\ last' = L("internal", 0, TRUE, 0, <<>>, 0) /\ UNCHANGED <<side, h, cnt, used>>
WWriteAct == /\ side = "w" /\ w.open /\ cnt < MaxWrites
             /\ \E c \in 0..(WLen - used) : \E n \in 0..c :
                  /\ w' = WAccept(w, SubSeq(D, used + 1, used + c), n)
                  /\ used' = used + n
                  /\ last' = L("write", c, TRUE, n, <<>>, 0)
             /\ cnt' = cnt + 1 /\ UNCHANGED <<side, h, file>>
WThrough == /\ side = "w" /\ w.open
            /\ \E k \in (w.synced + 1)..Len(w.written) : LET p == Push(file, w, k) IN file' = p.file /\ w' = p.w
            /\ last' = L("internal", 0, TRUE, 0, <<>>, 0) /\ UNCHANGED <<side, h, cnt, used>>
WFlushAct == /\ side = "w" /\ w.open /\ last.op # "flush"
             /\ LET p == WFlush(file, w) IN file' = p.file /\ w' = p.w
             /\ last' = L("flush", 0, TRUE, 0, <<>>, 0) /\ UNCHANGED <<side, h, cnt, used>>
WDropAct == /\ side = "w" /\ w.open
            /\ LET p == WDrop(file, w) IN file' = p.file /\ w' = p.w
            /\ last' = L("drop", 0, TRUE, 0, <<>>, 0) /\ UNCHANGED <<side, h, cnt, used>>

Next == RRead \/ RSeekStart \/ RSeekCur \/ RSeekEnd \/ WOpenAct \/ WTruncEarly \/ WWriteAct \/ WThrough \/ WFlushAct \/ WDropAct
Spec == Init /\ [][Next]_vars

(* ---- properties ---- *)
ReadNeverBeyond == (side = "r" /\ last.op = "read") =>
   /\ last.ok /\ last.n >= 0 /\ last.n <= last.a /\ Len(last.bytes) = last.n
   /\ last.bytes = SubSeq(h.data, last.prev + 1, last.prev + last.n)
   /\ last.prev + last.n <= Max(Len(h.data), last.prev)              \* no byte from beyond the end
   /\ (last.prev >= Len(h.data) => last.n = 0)                       \* at or beyond the end: 0 bytes
   /\ (last.n < last.a => h.pos >= Len(h.data))                      \* short only because the data ended
   /\ h.pos = last.prev + last.n
SeekTarget == CASE last.op = "start" -> last.a [] last.op = "cur" -> last.prev + last.a [] last.op = "end" -> Len(h.data) + last.a [] OTHER -> 0
SeekErrorKeepsPos == (side = "r" /\ last.op \in {"start", "cur", "end"}) =>
   /\ (last.ok <=> SeekTarget >= 0)
   /\ (~last.ok => h.pos = last.prev)                                \* an error does not move
   /\ (last.ok => h.pos = SeekTarget /\ last.n = SeekTarget)
PosNonNeg == h.pos >= 0
\* the algorithm of std::io::Cursor, transcribed from its documentation/source, must be the same function
CursorStep(hh, op) ==
  IF op.op = "read"
  THEN LET amt == Min(hh.pos, Len(hh.data))
           rem == SubSeq(hh.data, amt + 1, Len(hh.data))
           k == Min(op.n, Len(rem)) IN
       [h |-> [hh EXCEPT !.pos = @ + k], ok |-> TRUE, n |-> k, bytes |-> SubSeq(rem, 1, k)]
  ELSE IF op.op = "start" THEN [h |-> [hh EXCEPT !.pos = op.n], ok |-> TRUE, n |-> op.n, bytes |-> <<>>]
  ELSE LET b == IF op.op = "end" THEN Len(hh.data) ELSE hh.pos IN
       IF b + op.n >= 0 THEN [h |-> [hh EXCEPT !.pos = b + op.n], ok |-> TRUE, n |-> b + op.n, bytes |-> <<>>]
       ELSE [h |-> hh, ok |-> FALSE, n |-> 0, bytes |-> <<>>]
AllOps == {[op |-> "read", n |-> n] : n \in 0..MaxRead} \cup {[op |-> "start", n |-> k] : k \in 0..MaxOff}
          \cup {[op |-> o, n |-> k] : o \in {"cur", "end"}, k \in (-MaxOff)..MaxOff}
LikeCursor == side = "r" => \A op \in AllOps : Step(h, op) = CursorStep(h, op)

FlushMakesVisible == (side = "w" /\ last.op = "flush") => file = ContractW(w)
DropPersistsExactlyWritten == (side = "w" /\ w.mode # "none" /\ ~w.open) => (last.op = "drop" /\ file = ContractW(w))
AppendKeepsPrefix == (side = "w" /\ w.mode = "append") => IsPrefix(w.base, file)
NothingForeign == (side = "w" /\ w.mode # "none") => Between(file, w)
WrittenIsOffered == side = "w" => w.written = SubSeq(D, 1, used)
=============================================================================
