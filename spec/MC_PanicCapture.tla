------------------------------- MODULE MC_PanicCapture -------------------------------
EXTENDS PanicCapture
\* nesting shapes up to depth 2 with every closure outcome
Outs == {"X:ok", "X:text", "X:other"}
ShapesDef == {<<"E", a>> : a \in Outs} \cup {<<"E", "E", a, b>> : a \in Outs, b \in Outs} \cup {<<"E", a, "E", b>> : a \in Outs, b \in Outs}
=============================================================================
