CONSTANTS
  Payloads = {"", "/", "/a/b", "x: y", "0"}
SPECIFICATION Spec
INVARIANTS Laws Pairwise Tables
CHECK_DEADLOCK FALSE
