------------------------------- MODULE MC_Creds -------------------------------
(* Design-level exploration of the privilege machine (Creds.tla): every call of rivia's user module with every id of a small
   universe, from a root process (the situation under sudo) and from an ordinary one, for every SUDO_UID/SUDO_GID situation.
   Checked: the kernel's no-escalation law, the three documented claims about sudo_down / sudo_up / drop_sudo, and - as a
   configuration that is EXPECTED TO FAIL (MC_Creds_doc.cfg, negative control and a recorded observation, DESIGN 3.2.3) - the
   literal reading of drop_sudo's "no way to go back" for a drop_sudo issued after sudo_down. *)
EXTENDS Creds, TLC
CONSTANTS Ids                      \* small universe of ids, 0 = root
VARIABLES c, sudo, last, droppedAsRoot, droppedOk
vars == <<c, sudo, last, droppedAsRoot, droppedOk>>

Sudos == {[set |-> FALSE, uid |-> 0, gid |-> 0]} \cup {[set |-> TRUE, uid |-> u, gid |-> g] : u \in Ids, g \in Ids}
AllRoot == [ru |-> 0, eu |-> 0, su |-> 0, rg |-> 0, eg |-> 0, sg |-> 0]
Init == /\ sudo \in Sudos
        /\ c \in {AllRoot} \cup {[ru |-> u, eu |-> u, su |-> u, rg |-> g, eg |-> g, sg |-> g] : u \in Ids \ {0}, g \in Ids \ {0}}
        /\ last = [op |-> "init", ok |-> TRUE, partial |-> FALSE]
        /\ droppedAsRoot = FALSE /\ droppedOk = FALSE

Do(call) == LET r == Step(c, sudo, call) IN
   /\ c' = r.c /\ sudo' = sudo /\ last' = [op |-> call.op, ok |-> r.ok, partial |-> r.partial]
   /\ droppedAsRoot' = (droppedAsRoot \/ (call.op = "drop_sudo" /\ r.ok /\ IsRoot(c)))
   /\ droppedOk' = (droppedOk \/ (call.op = "drop_sudo" /\ r.ok))
DoSudoDown == Do([op |-> "sudo_down", a |-> <<>>])
DoSudoUp == Do([op |-> "sudo_up", a |-> <<>>])
DoDropSudo == Do([op |-> "drop_sudo", a |-> <<>>])
DoSetUid == \E u \in Ids : Do([op |-> "setuid", a |-> <<u>>])
DoSetEUid == \E u \in Ids : Do([op |-> "seteuid", a |-> <<u>>])
DoSetGid == \E u \in Ids : Do([op |-> "setgid", a |-> <<u>>])
DoSetEGid == \E u \in Ids : Do([op |-> "setegid", a |-> <<u>>])
DoSwitchUser == \E a \in [1..6 -> Ids] : Do([op |-> "switchuser", a |-> a])
Next == DoSudoDown \/ DoSudoUp \/ DoDropSudo \/ DoSetUid \/ DoSetEUid \/ DoSetGid \/ DoSetEGid \/ DoSwitchUser
Spec == Init /\ [][Next]_vars

TypeOK == c \in [{"ru", "eu", "su", "rg", "eg", "sg"} -> Ids]
\* kernel: once none of the three uids is 0, none ever is again (same for regaining the gid privilege, which hangs on euid)
NoEscalation == [][~CanRegainRoot(c) => ~CanRegainRoot(c')]_vars
\* a failed call changes nothing unless it is the two-syscall switchuser stopping half way (then only the gids moved)
FailedCallAtomic == [][(~last'.ok /\ ~last'.partial) => c' = c]_vars
PartialOnlyGids == [][last'.partial => (c'.ru = c.ru /\ c'.eu = c.eu /\ c'.su = c.su /\ <<c'.rg, c'.eg, c'.sg>> # <<c.rg, c.eg, c.sg>>)]_vars
\* drop_sudo "no way to go back", for the situation it is written for (called as real root behind sudo of a non-root user)
DropIsFinal == (droppedAsRoot /\ sudo.set /\ sudo.uid # 0) => ~CanRegainRoot(c)
\* sudo_down "preserves the ability to raise sudo again", sudo_up "raise root privileges ... masked off from sudo_down"
RoundTrip == (c = AllRoot /\ sudo.set /\ sudo.uid # 0) =>
   LET d == SudoDown(c, sudo) IN /\ d.ok /\ d.c.ru = sudo.uid /\ d.c.eu = sudo.uid /\ d.c.su = 0
                                 /\ d.c.rg = sudo.gid /\ d.c.eg = sudo.gid /\ d.c.sg = 0
                                 /\ ~IsRoot(d.c) /\ SudoUp(d.c).ok /\ SudoUp(d.c).c = AllRoot
                                 /\ SudoDown(d.c, sudo) = NoOp(d.c)                \* idempotent
\* sudo_up "returns an error if not allowed": from a process that cannot regain root it fails and the uids stay (the group
\* half of switchuser may already have run when the process still had gid 0 among its gids: TLC's counterexample to the
\* stronger "changes nothing" is root: switchuser(1,1,1,0,0,1); sudo_up -> Err with the saved gid moved to 0)
SudoUpRefused == ~CanRegainRoot(c) => LET r == SudoUp(c) IN ~r.ok /\ r.c.ru = c.ru /\ r.c.eu = c.eu /\ r.c.su = c.su /\ ~CanRegainRoot(r.c)
\* without a usable SUDO_UID/SUDO_GID pair a root process stays what it is
NoSudoNoChange == (~sudo.set /\ c = AllRoot) => (SudoDown(c, sudo).c = c /\ DropSudo(c, sudo).c = c)
\* NEGATIVE CONTROL / observation: the literal doc claim for ANY successful drop_sudo - fails after sudo_down (real uid no
\* longer 0 -> drop_sudo is a no-op and the saved uid 0 stays)
DocDropAlwaysFinal == (droppedOk /\ sudo.set /\ sudo.uid # 0) => ~CanRegainRoot(c)
=============================================================================
