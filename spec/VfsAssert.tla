------------------------------- MODULE VfsAssert -------------------------------
(* The assert_vfs_* macros of src/testing/assert.rs as test oracles over the reference filesystem (C20),
   written from the rustdoc line of each macro and the statement of C20 - not from the macro bodies.

   A checking macro is a predicate over a Vfs state and its arguments; it panics exactly when the predicate
   is false.  An acting macro performs one operation of the reference filesystem (an Op_* operator of Vfs) and
   panics exactly when its post-condition does not hold in the state it leaves.  Truth values are three-valued:
   "T" / "F" / "?" where "?" marks a case the documentation does not settle (\* DECISION: both outcomes are
   accepted, they are counted separately by the validator).

   Arguments:  a = [p, pok, q, qok, d, m, rel, relabs]
     p, q      resolved absolute paths (component sequences) of the first / second path argument,
     pok, qok  whether abs() of that argument succeeds at all (FALSE: p / q are meaningless),
     d         data (byte sequence), m mode (Nat),
     rel       the expected link text of readlink! as components, relabs = it was spelled as an absolute path. *)
EXTENDS MemfsRep          \* Vfs (Exists / IsDir / IsFile / IsLink, Op_*) and RelC

CheckingMacros == {"exists", "no_exists", "is_dir", "no_dir", "is_file", "no_file", "is_symlink", "no_symlink",
                   "read_all", "readlink", "readlink_abs"}
ActingMacros   == {"mkdir_p", "mkdir_m", "mkfile", "write_all", "copyfile", "symlink", "remove", "remove_all"}
NegativeMacros == {"no_exists", "no_dir", "no_file", "no_symlink"}
TwoPathMacros  == {"readlink_abs", "copyfile", "symlink"}        \* second argument is a path resolved with abs()

B3(b) == IF b THEN "T" ELSE "F"

\* entry a path leads to when links are followed (bounded chase; a dangling or looping chain stops where it is)
RECURSIVE Final(_, _, _)
Final(fs, p, n) == IF Exists(fs, p) /\ fs[p].k = "link" /\ n > 0 THEN Final(fs, fs[p].t, n - 1) ELSE p

(* ------------------------------------------------------------------ checking macros ------------------ *)
Pred(mac, st, a) ==
  LET fs == st.fs  p == a.p IN
  IF ~a.pok THEN (IF mac \in NegativeMacros THEN "?" ELSE "F")
       \* DECISION: "assert the path doesn't exist / isn't a .." says nothing about a path abs() rejects (the empty
       \* path); a positive assertion about such a path cannot hold
  ELSE CASE mac = "exists"     -> B3(Exists(fs, p))        \* "Assert that a file or directory exists"
         [] mac = "no_exists"  -> B3(~Exists(fs, p))       \* "Assert the given path doesn't exist"
         [] mac = "is_dir"     -> B3(IsDir(fs, p))         \* "... exists and is a directory"
         [] mac = "no_dir"     -> B3(~IsDir(fs, p))        \* "Assert that the given path isn't a directory"
         [] mac = "is_file"    -> B3(IsFile(fs, p))        \* "... exists and is a file"
         [] mac = "no_file"    -> B3(~IsFile(fs, p))       \* "Assert that the given path isn't a file"
         [] mac = "is_symlink" -> B3(IsLink(fs, p))        \* "... exists and is a symlink"
         [] mac = "no_symlink" -> B3(~IsLink(fs, p))       \* "Assert that the given path isn't a symlink"
         [] mac = "read_all"   ->                          \* "Assert data read from the file matches the input data"
              IF IsFile(fs, p) THEN B3(fs[p].d = a.d)
              ELSE IF IsLink(fs, p) /\ IsFile(fs, Final(fs, p, ChaseDepth)) /\ fs[Final(fs, p, ChaseDepth)].d = a.d
                   THEN "?"      \* DECISION (D10): reading through a link to a file - Memfs refuses, the real filesystem follows
              ELSE "F"
         [] mac = "readlink"   ->                          \* "Assert the reading of a link's target relative path"
              IF ~IsLink(fs, p) THEN "F"
              ELSE IF fs[p].t = Parent(p) THEN "?"   \* DECISION (D11): link to its own directory - relative(p, p) is documented to
                                                     \* return p itself, the real filesystem stores "."
              ELSE B3(~a.relabs /\ a.rel = RelC(fs[p].t, Parent(p)))
         [] mac = "readlink_abs" ->                        \* "Assert the reading of a link's target absolute path"
              IF ~a.qok THEN "F" ELSE B3(IsLink(fs, p) /\ fs[p].t = a.q)

\* the statement of C20 for a checking macro; MayPass / MayPanic are what a run is allowed to show
Panics(mac, st, a)   == Pred(mac, st, a) = "F"
MayPanic(mac, st, a) == Pred(mac, st, a) \in {"F", "?"}
MayPass(mac, st, a)  == Pred(mac, st, a) \in {"T", "?"}

(* ------------------------------------------------------------------ acting macros -------------------- *)
\* the operation the macro must perform (reference outcome record [st, res, alt, partial, paired])
Act(mac, st, own, a) ==
  IF ~a.pok \/ (mac \in TwoPathMacros /\ ~a.qok) THEN R(st, RErr("Path::Empty"))        \* abs() fails: nothing is done
  ELSE CASE mac = "mkdir_p"    -> Op_mkdir_p(st, own, a.p)
         [] mac = "mkdir_m"    -> Op_mkdir_m(st, own, a.p, DirType + Perm(a.m))
         [] mac = "mkfile"     -> Op_mkfile(st, own, a.p)
         [] mac = "write_all"  -> Op_write_all(st, own, a.p, a.d)
         [] mac = "copyfile"   -> Op_copy_b(st, own, a.p, a.q, [dm |-> 0, fm |-> 0, follow |-> FALSE])
         [] mac = "symlink"    -> Op_symlink(st, own, a.p, a.q)
         [] mac = "remove"     -> Op_remove(st, a.p)
         [] mac = "remove_all" -> Op_remove_all(st, a.p)

Settled(o) == o.res.o # "?" /\ o.alt = {} /\ ~o.partial
Failed(o)  == o.res.o \notin {"ok", "?"}

\* states the macro may leave behind; `any` = the documentation allows a partial result
Admissible(mac, st, own, a) ==
  LET o == Act(mac, st, own, a) IN
  [sts |-> {o.st} \cup o.alt
           \cup (IF mac = "copyfile" /\ a.pok /\ ~IsFile(st.fs, a.p) THEN {st} ELSE {}),
              \* DECISION: "Assert the copy of a file" - when the source is no file the assertion fails; whether the
              \* copy of the directory / link is attempted first is not documented
   any |-> o.partial]

\* post-condition of the macro in the state `s` it leaves (pre = the state it started from)
Post(mac, pre, s, own, a) ==
  LET fs == s.fs  p == a.p  o == Act(mac, pre, own, a) IN
  IF ~a.pok \/ (mac \in TwoPathMacros /\ ~a.qok) THEN "F"
  ELSE CASE mac = "mkdir_p" -> B3(IsDir(fs, p))                  \* "Assert the creation of the given directory"
         [] mac = "mkdir_m" ->                                   \* "... with the given mode"
              IF ~IsDir(fs, p) \/ Perm(fs[p].mode) # Perm(a.m) THEN "F"
              ELSE IF TypeOf(a.m) = DirType THEN "T"
              ELSE "?"   \* DECISION: the rustdoc example passes the mode with the directory type bits (0o40777); whether a
                         \* bare permission value (0o777) is acceptable is not documented
         [] mac = "mkfile" -> B3(IsFile(fs, p))                  \* "Assert the creation of a file. If the file exists no change is made"
         [] mac = "write_all" -> B3(IsFile(fs, p) /\ fs[p].d = a.d)   \* "Assert data is written to the given file"
         [] mac = "copyfile" ->                                  \* "Assert the copy of a file"
              IF ~IsFile(pre.fs, p) THEN "F"
              ELSE IF a.q # p /\ IsDir(pre.fs, a.q)
                   THEN (LET t == Append(a.q, Base(p)) IN
                         IF IsFile(fs, p) /\ IsFile(fs, t) /\ fs[t].d = fs[p].d THEN "?" ELSE "F")
                         \* DECISION: destination is a directory - copy() places the file inside it; whether the macro
                         \* accepts that as "the copy" is not documented
              ELSE B3(IsFile(fs, p) /\ IsFile(fs, a.q) /\ fs[a.q].d = fs[p].d)
         [] mac = "symlink" ->                                   \* "Assert the creation of a symlink. If the symlink exists no change is made"
              IF ~IsLink(fs, p) THEN "F"
              ELSE IF fs[p].t = a.q THEN "T"
              ELSE IF IsLink(pre.fs, p) THEN "?"   \* DECISION: an existing link to another target is documented to be left alone;
                                                   \* whether the assertion then fails is not documented
              ELSE "F"
         [] mac \in {"remove", "remove_all"} ->                  \* "fails if the call fails / the path still exists afterwards"
              IF Failed(o) \/ Exists(fs, p) THEN "F"
              ELSE IF o.res.o = "?" THEN "?"       \* DECISION (D8 / D4): outcome of the call itself not settled
              ELSE "T"

(* --- how a run is judged (used by Trace_Assert and by MC_VfsAssert) --- *)
\* (written without building the set Admissible.sts: comparing whole states for set membership is costly in TLC)
Performed(mac, st, own, a, post) ==
  LET o == Act(mac, st, own, a) IN
  \/ o.partial
  \/ StEq(o.st, post)
  \/ \E e \in o.alt : StEq(e, post)
  \/ (mac = "copyfile" /\ a.pok /\ ~IsFile(st.fs, a.p) /\ StEq(st, post))
ActMayPanic(mac, pre, post, own, a) == Post(mac, pre, post, own, a) \in {"F", "?"}
ActMayPass(mac, pre, post, own, a)  == Post(mac, pre, post, own, a) \in {"T", "?"}
=============================================================================
