------------------------------- MODULE MC_Errors -------------------------------
(* Design-level run: an error value is raised (any variant, any payload of the alphabet), travels through `?` / From into the
   wrapper, and is observed; every law of Errors.tla is an invariant of the observed states.  A second error is drawn for the
   pairwise law DisplayDistinguishes. *)
EXTENDS Errors
CONSTANT Payloads
VARIABLES st, e, w, e2
vars == <<st, e, w, e2>>
None == [fam |-> "-", v |-> "-", arg |-> ""]
Init == st = "idle" /\ e = None /\ e2 = None /\ w = [pos |-> "-", inner |-> None]
Raise == /\ st = "idle"
         /\ \E x \in Variants, a \in Payloads : e' = Inner(x.fam, x.v, a)
         /\ \E y \in Variants, b \in Payloads : e2' = Inner(y.fam, y.v, b)
         /\ st' = "raised" /\ UNCHANGED w
Propagate == st = "raised" /\ w' = Question(e) /\ st' = "wrapped" /\ UNCHANGED <<e, e2>>
RaiseStr == st = "idle" /\ \E a \in Payloads : (w' = FromStr(a) /\ e' = Inner("Core", "Msg", a)) /\ e2' = None /\ st' = "wrapped"
Handle == st = "wrapped" /\ st' = "idle" /\ e' = None /\ e2' = None /\ w' = [pos |-> "-", inner |-> None]
Next == Raise \/ Propagate \/ RaiseStr \/ Handle
Spec == Init /\ [][Next]_vars
Laws == st = "wrapped" => /\ WrapAtOwnPosition(e) /\ IsExactlyOwnFamily(e) /\ DowncastInverse(e) /\ DisplayTransparent(e)
                          /\ w = Wrap(e) /\ WSource(w) = <<>>
Pairwise == (st = "raised" /\ e2 # None) => DisplayDistinguishes(e, e2)
Tables == CtorsTotal /\ VariantKeysUnique /\ CtorKeysUnique
\* negative control (MC_Errors_N.cfg MUST fail): the exception for the two Core message carriers is needed
PairwiseNoException == (st = "raised" /\ e2 # None) => ((e.fam = e2.fam /\ e.v # e2.v /\ e.arg = e2.arg) => Display(e) # Display(e2))
=============================================================================
