------------------------------- MODULE CoreExt -------------------------------
(* C19 - the "core" helpers of rivia (IteratorExt, StringExt, OptionExt, PeekableExt, defer) as plain
   definitions, written from the rustdoc and the property statement:

     drop(n)      removes the first n items for n > 0 and the last |n| for n < 0
     slice(l, r)  (l not below -len) the inclusive index range l..=r, negative indices count from the end, a
                  right bound beyond the end is clamped, nothing when the range is empty or out of bounds
     first / first_result / last_result / single / some / consume : plain list semantics with their error cases
     size         number of characters;  to_bool  false exactly for "", "0" and any casing of "false"
     trim_suffix  removes exactly one trailing occurrence or nothing;  Option::has  equality with the content
     take_while_p the longest prefix satisfying the predicate, the first failing item is left unconsumed
     defer        the closure of a guard runs exactly once when the scope of the guard ends, guards of a scope in
                  reverse order of creation, whether the scope is left normally, by return or by unwinding.

   Strings are sequences of 1-character strings, options are sequences of length 0 or 1, results are
   [o |-> "ok" | <error kind>, v |-> value] (the format of the harness records). *)
EXTENDS Integers, Sequences, FiniteSets, TLC

Min(a, b) == IF a < b THEN a ELSE b
Max(a, b) == IF a > b THEN a ELSE b
Abs(i) == IF i < 0 THEN -i ELSE i
Iota(len) == [i \in 1..len |-> i - 1]                       \* the sequence 0, 1, .., len-1
FrontS(s) == SubSeq(s, 1, Len(s) - 1)
LastS(s) == s[Len(s)]

Ok(v) == [o |-> "ok", v |-> v]
Err(kind) == [o |-> kind, v |-> <<>>]
ItemNotFound == "Iter::ItemNotFound"
MultipleItemsFound == "Iter::MultipleItemsFound"

\* ------------------------------------------------------------------ IteratorExt
\* drop(n): first n items gone for n > 0, last |n| gone for n < 0 (everything when |n| >= len)
DropSeq(s, n) == IF n >= 0 THEN SubSeq(s, n + 1, Len(s)) ELSE SubSeq(s, 1, Len(s) + n)
\* slice(l, r), domain l >= -Len(s): 0-based inclusive range, negative = from the end, right bound clamped
SliceLo(len, l) == IF l < 0 THEN len + l ELSE l
SliceHi(len, r) == Min(IF r < 0 THEN len + r ELSE r, len - 1)
SliceSeq(s, l, r) == LET lo == SliceLo(Len(s), l)  hi == SliceHi(Len(s), r)
                     IN IF lo < 0 \/ lo > hi THEN <<>> ELSE SubSeq(s, lo + 1, hi + 1)
InSliceDomain(len, l) == l >= -len
\* the instances over 0..len-1 that the drivers enumerate
Slice(len, l, r) == SliceSeq(Iota(len), l, r)
Drop(len, n) == DropSeq(Iota(len), n)

First(s) == IF s = <<>> THEN <<>> ELSE <<s[1]>>                                         \* Option: <<>> = None
FirstResult(s) == IF s = <<>> THEN Err(ItemNotFound) ELSE Ok(<<s[1]>>)
LastResult(s) == IF s = <<>> THEN Err(ItemNotFound) ELSE Ok(<<LastS(s)>>)
Single(s) == IF s = <<>> THEN Err(ItemNotFound) ELSE IF Len(s) > 1 THEN Err(MultipleItemsFound) ELSE Ok(<<s[1]>>)
Some(s) == s # <<>>
Consume(s) == <<>>                                                                     \* what is left for the caller

\* ------------------------------------------------------------------ StringExt
Size(s) == Len(s)                                                                      \* s: sequence of characters
\* the same number read off the UTF-8 encoding: every character has exactly one non-continuation byte
SizeUtf8(b) == Cardinality({i \in DOMAIN b : b[i] < 128 \/ b[i] >= 192})
LowerC(c) == CASE c = "A" -> "a" [] c = "B" -> "b" [] c = "C" -> "c" [] c = "D" -> "d" [] c = "E" -> "e" [] c = "F" -> "f"
               [] c = "G" -> "g" [] c = "H" -> "h" [] c = "I" -> "i" [] c = "J" -> "j" [] c = "K" -> "k" [] c = "L" -> "l"
               [] c = "M" -> "m" [] c = "N" -> "n" [] c = "O" -> "o" [] c = "P" -> "p" [] c = "Q" -> "q" [] c = "R" -> "r"
               [] c = "S" -> "s" [] c = "T" -> "t" [] c = "U" -> "u" [] c = "V" -> "v" [] c = "W" -> "w" [] c = "X" -> "x"
               [] c = "Y" -> "y" [] c = "Z" -> "z" [] OTHER -> c
LowerStr(s) == [i \in DOMAIN s |-> LowerC(s[i])]
FalseWord == <<"f", "a", "l", "s", "e">>
ToBool(s) == ~(s = <<>> \/ s = <<"0">> \/ LowerStr(s) = FalseWord)
EndsWithStr(s, t) == Len(t) <= Len(s) /\ SubSeq(s, Len(s) - Len(t) + 1, Len(s)) = t
TrimSuffixStr(s, t) == IF EndsWithStr(s, t) THEN SubSeq(s, 1, Len(s) - Len(t)) ELSE s

\* ------------------------------------------------------------------ OptionExt, PeekableExt
OptionHas(opt, x) == opt = <<x>>
\* longest prefix whose items all satisfy P; rest starts with the first failing item
TakeWhileP(s, P(_)) == LET k == CHOOSE k \in 0..Len(s) : (\A i \in 1..k : P(s[i])) /\ (k < Len(s) => ~P(s[k + 1]))
                       IN [taken |-> SubSeq(s, 1, k), rest |-> SubSeq(s, k + 1, Len(s))]

\* ------------------------------------------------------------------ defer: a machine over program shapes
(* A program is a tree of scopes.  A scope [g, kids, x] creates g (0..2) guards, contains up to two nested
   scopes and is left by x: "fall" (end of block), "return" (leaves the whole function through every
   enclosing scope) or "panic" (unwinding up to the catch at the top).  Its statements, in order:
        guard 1 (if g >= 1); nested scope 1 (if any); guard 2 (if g = 2); nested scope 2 (if any); exit marker; x
   Scopes are numbered by position: root 1, i-th nested scope of scope c is 10c+i.  The observable log is a
   sequence of integers:  +(10c+k) guard k of scope c created,  -(10c+k) its closure ran,  10c  scope c
   reached its exit statement. *)
Exits == {"fall", "return", "panic"}
GuardId(code, k) == code * 10 + k
KidCode(code, i) == code * 10 + i
MarkId(code) == code * 10
ScopeOf(id) == id \div 10
IsGuard(e) == e > 0 /\ e % 10 # 0
IsMark(e) == e > 0 /\ e % 10 = 0
Frame(s, code) == [s |-> s, code |-> code, pc |-> 1, live |-> <<>>]   \* pc 1..5 statements, 6 = leaving by fall-through
DInit(shape) == [stack |-> <<Frame(shape, 1)>>, log |-> <<>>, mode |-> "run", how |-> "-"]
Top(d) == d.stack[Len(d.stack)]
SetTop(d, f) == [d EXCEPT !.stack[Len(d.stack)] = f]
Leaving(d) == d.mode \in {"ret", "unw"} \/ (d.mode = "run" /\ Top(d).pc = 6)

EnCreate(d) == d.mode = "run" /\ Top(d).pc \in {1, 3} /\ Top(d).s.g >= (Top(d).pc + 1) \div 2
DoCreate(d) == LET f == Top(d)  id == GuardId(f.code, (f.pc + 1) \div 2)
               IN [SetTop(d, [f EXCEPT !.pc = @ + 1, !.live = Append(@, id)]) EXCEPT !.log = Append(@, id)]
EnSkipGuard(d) == d.mode = "run" /\ Top(d).pc \in {1, 3} /\ Top(d).s.g < (Top(d).pc + 1) \div 2
EnEnter(d) == d.mode = "run" /\ Top(d).pc \in {2, 4} /\ Len(Top(d).s.kids) >= Top(d).pc \div 2
DoEnter(d) == LET f == Top(d)  i == f.pc \div 2  d1 == SetTop(d, [f EXCEPT !.pc = @ + 1])
              IN [d1 EXCEPT !.stack = Append(@, Frame(f.s.kids[i], KidCode(f.code, i)))]
EnSkipKid(d) == d.mode = "run" /\ Top(d).pc \in {2, 4} /\ Len(Top(d).s.kids) < Top(d).pc \div 2
DoAdvance(d) == SetTop(d, [Top(d) EXCEPT !.pc = @ + 1])
EnExit(d, x) == d.mode = "run" /\ Top(d).pc = 5 /\ Top(d).s.x = x
DoExit(d, x) == LET d1 == [d EXCEPT !.log = Append(@, MarkId(Top(d).code))]
                IN IF x = "fall" THEN SetTop(d1, [Top(d1) EXCEPT !.pc = 6])
                   ELSE [d1 EXCEPT !.mode = IF x = "return" THEN "ret" ELSE "unw"]
\* a scope that is being left runs the closures of its live guards, last created first, then disappears
EnRunGuard(d) == d.mode # "done" /\ Leaving(d) /\ Top(d).live # <<>>
DoRunGuard(d) == LET f == Top(d)
                 IN [SetTop(d, [f EXCEPT !.live = FrontS(@)]) EXCEPT !.log = Append(@, -LastS(f.live))]
EnPop(d) == d.mode # "done" /\ Leaving(d) /\ Top(d).live = <<>>
DoPop(d) == LET st == FrontS(d.stack)
            IN IF st = <<>> THEN [d EXCEPT !.stack = st, !.mode = "done", !.how = IF d.mode = "unw" THEN "panicked" ELSE "returned"]
               ELSE [d EXCEPT !.stack = st]

\* the machine is deterministic: the one enabled step / the complete run
DStep(d) == IF EnCreate(d) THEN DoCreate(d) ELSE IF EnSkipGuard(d) \/ EnSkipKid(d) THEN DoAdvance(d)
            ELSE IF EnEnter(d) THEN DoEnter(d)
            ELSE IF EnRunGuard(d) THEN DoRunGuard(d) ELSE IF EnPop(d) THEN DoPop(d)
            ELSE DoExit(d, Top(d).s.x)
RECURSIVE DRun(_)
DRun(d) == IF d.mode = "done" THEN d ELSE DRun(DStep(d))
DeferLog(shape) == DRun(DInit(shape))                         \* .log and .how are what a conforming execution shows

\* the property statement as predicates on a log alone (independent of the machine)
RECURSIVE IsWithin(_, _)
IsWithin(c, a) == c = a \/ (c > a /\ IsWithin(c \div 10, a))                            \* scope c lies in the subtree of scope a
AtMostOnce(log) == \A i, j \in DOMAIN log : log[i] = log[j] => i = j                   \* no closure twice
RunAfterCreate(log) == \A j \in DOMAIN log : log[j] < 0 => \E i \in 1..(j - 1) : log[i] = -log[j]
AllRan(log) == \A i \in DOMAIN log : IsGuard(log[i]) => \E j \in (i + 1)..Len(log) : log[j] = -log[i]
ExactlyOnce(log) == AtMostOnce(log) /\ RunAfterCreate(log) /\ AllRan(log)
\* guards of one scope run in reverse order of creation
ReverseOrder(log) == \A i, j \in DOMAIN log : (i < j /\ IsGuard(log[i]) /\ IsGuard(log[j]) /\ ScopeOf(log[i]) = ScopeOf(log[j])) =>
                        \A p, q \in DOMAIN log : (log[p] = -log[i] /\ log[q] = -log[j]) => q < p
\* ... and across scopes: when a closure runs, every guard created after its guard has already run
Lifo(log) == \A i, j \in DOMAIN log : (i < j /\ IsGuard(log[i]) /\ log[j] = -log[i]) =>
                \A k \in (i + 1)..(j - 1) : IsGuard(log[k]) => \E m \in (k + 1)..(j - 1) : log[m] = -log[k]
\* not before the scope ends: some scope inside it reached an exit statement, and nothing of the scope happens afterwards
NotEarly(log) == \A j \in DOMAIN log : log[j] < 0 =>
                    /\ \E i \in 1..(j - 1) : IsMark(log[i]) /\ IsWithin(ScopeOf(log[i]), ScopeOf(-log[j]))
                    /\ \A m \in (j + 1)..Len(log) : log[m] > 0 => ~IsWithin(ScopeOf(log[m]), ScopeOf(-log[j]))
\* not later either: once control is outside the scope of a guard, its closure has run
Prompt(log) == \A i, j \in DOMAIN log : (i < j /\ IsGuard(log[i]) /\ log[j] > 0 /\ ~IsWithin(ScopeOf(log[j]), ScopeOf(log[i]))) =>
                  \E m \in (i + 1)..(j - 1) : log[m] = -log[i]
=============================================================================
