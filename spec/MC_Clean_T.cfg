CONSTANTS
  MaxLen = 9
  Alphabet = {"/", ".", "a", "b"}
SPECIFICATION Spec
INVARIANTS Confluent MeaningKept CleanLaws
PROPERTY Shrinks
CHECK_DEADLOCK FALSE
