SPECIFICATION MSpec
CONSTANTS
  Methods = {"mkdir_p", "move_p", "trim_prefix"}
INVARIANTS MTypeOK CleanIsUsable WedgedOnlyByObservation OwedMeaning
PROPERTIES WedgedAbsorbing UsablePreservedByOkErr NoActionForPanicTimeout ErrIsFollowedByProbe ErrOwesProbe FailedProbeWedges PoisonWedges AcceptedIsGoodNext RejectedIsNeverForgiven
CHECK_DEADLOCK FALSE
