------------------------------- MODULE MemfsConc -------------------------------
(* Threads sharing one in-memory filesystem (C04).  A call is executed as a sequence of critical sections
   (CS), each atomic on the shared state `st` because Memfs' state is reachable only through one RwLock
   guard; between two critical sections of one call other threads may run.  The decomposition table CSOf is
   the single source of truth about which calls are one critical section:

     Split = FALSE  every call of the alphabet is ONE critical section (the code after the repair of
                    write_all / append_all; the harness checks the real guard sequence of every call against it)
     Split = TRUE   write_all = [create entry] ; [store data]      append_all = [create + read data] ; [store] ; [store]
                    (the decomposition through a handle that the unrepaired code had) - TLC must find a
                    non-linearizable behaviour here; it is run as a negative control.

   Explored: every interleaving of Invoke / CS steps of every program of the bound.  Checked at the end of every
   behaviour: the observed results and final state are those of SOME sequential order of the calls that respects
   program order and real-time precedence (Linearizable), every concurrent append is present exactly once
   (AppendsExactlyOnce), and the tree is well formed (QuiescentWellFormed). *)
EXTENDS Vfs
CONSTANTS Split, MaxCalls, Ops
VARIABLES prog, st, pc, cs, loc, res, inv, rsp, clock
vars == <<prog, st, pc, cs, loc, res, inv, rsp, clock>>

Own == [uid |-> 1000, gid |-> 1000]
F == <<"f">>
G == <<"g">>
\* the call alphabet: [op, p, d]
AllCalls == { [op |-> "write_all", p |-> F, d |-> <<87>>], [op |-> "append_all", p |-> F, d |-> <<49>>], [op |-> "append_all", p |-> F, d |-> <<50>>],
              [op |-> "read_all", p |-> F, d |-> <<>>], [op |-> "remove", p |-> F, d |-> <<>>], [op |-> "mkfile", p |-> F, d |-> <<>>],
              [op |-> "exists", p |-> F, d |-> <<>>], [op |-> "move_p", p |-> F, d |-> <<>>] }
Calls == {c \in AllCalls : c.op \in Ops}
Threads == {1, 2}
Progs == [Threads -> UNION {[1..n -> Calls] : n \in 1..MaxCalls}]
InitSt == [fs |-> (Root :> NDir(Own)) @@ (F :> NFile(<<48>>, Own)), cwd |-> Root]

RV(o, v) == [o |-> o, v |-> v]
\* ---- sequential semantics of one call (the linearizability oracle) ----
SeqOp(s, c) ==
  CASE c.op = "write_all"  -> LET o == Op_write_all(s, Own, c.p, c.d) IN [st |-> o.st, res |-> RV(o.res.o, <<>>)]
    [] c.op = "append_all" -> LET o == Op_append_all(s, Own, c.p, c.d) IN [st |-> o.st, res |-> RV(o.res.o, <<>>)]
    [] c.op = "read_all"   -> LET o == Op_read_all(s, c.p) IN [st |-> s, res |-> RV(o.res.o, o.res.v)]
    [] c.op = "remove"     -> LET o == Op_remove(s, c.p) IN [st |-> o.st, res |-> RV(o.res.o, <<>>)]
    [] c.op = "mkfile"     -> LET o == Op_mkfile(s, Own, c.p) IN [st |-> o.st, res |-> RV(o.res.o, <<>>)]
    [] c.op = "exists"     -> [st |-> s, res |-> RV("ok", Q_exists(s, c.p))]
    [] c.op = "move_p"     -> LET o == Op_move_p(s, c.p, G) IN [st |-> o.st, res |-> RV(o.res.o, <<>>)]

\* ---- critical sections: CSCount(c) and CSStep(s, loc, c, k) = [st, loc, res] ----
IsSplit(c) == Split /\ c.op \in {"write_all", "append_all"}
CSCount(c) == IF ~IsSplit(c) THEN 1 ELSE IF c.op = "write_all" THEN 2 ELSE 3
StoreData(s, p, buf) == IF IsFile(s.fs, p) THEN WithFs(s, [s.fs EXCEPT ![p].d = buf]) ELSE s
CSStep(s, l, c, k) ==
  IF ~IsSplit(c) THEN LET o == SeqOp(s, c) IN [st |-> o.st, loc |-> l, res |-> o.res, done |-> TRUE]
  ELSE IF c.op = "write_all" THEN
       (IF k = 1 THEN LET o == Op_mkfile(s, Own, c.p) IN                                  \* write(): create the entry, the handle starts empty
                      IF o.res.o # "ok" THEN [st |-> s, loc |-> l, res |-> RV(o.res.o, <<>>), done |-> TRUE]
                      ELSE [st |-> o.st, loc |-> c.d, res |-> RV("ok", <<>>), done |-> FALSE]
        ELSE [st |-> StoreData(s, c.p, l), loc |-> l, res |-> RV("ok", <<>>), done |-> TRUE])  \* Drop -> sync
  ELSE (IF k = 1 THEN LET o == Op_mkfile(s, Own, c.p) IN                                  \* append(): create + clone the stored data
                      IF o.res.o # "ok" THEN [st |-> s, loc |-> l, res |-> RV(o.res.o, <<>>), done |-> TRUE]
                      ELSE [st |-> o.st, loc |-> [buf |-> o.st.fs[c.p].d \o c.d, r |-> "ok"], res |-> RV("ok", <<>>), done |-> FALSE]
        ELSE IF k = 2 THEN (IF Exists(s.fs, c.p) THEN [st |-> StoreData(s, c.p, l.buf), loc |-> l, res |-> RV("ok", <<>>), done |-> FALSE]   \* flush -> sync
                            ELSE [st |-> s, loc |-> [l EXCEPT !.r = "Io::NotFound"], res |-> RV("ok", <<>>), done |-> FALSE])
        ELSE [st |-> StoreData(s, c.p, l.buf), loc |-> l, res |-> RV(l.r, <<>>), done |-> TRUE])                                         \* Drop -> sync again

Init == /\ prog \in Progs
        /\ st = InitSt /\ pc = [t \in Threads |-> 1] /\ cs = [t \in Threads |-> 0] /\ loc = [t \in Threads |-> <<>>]
        /\ res = [t \in Threads |-> <<>>] /\ inv = [t \in Threads |-> <<>>] /\ rsp = [t \in Threads |-> <<>>] /\ clock = 0
Invoke(t) == /\ pc[t] <= Len(prog[t]) /\ cs[t] = 0
             /\ cs' = [cs EXCEPT ![t] = 1] /\ inv' = [inv EXCEPT ![t] = Append(@, clock)] /\ clock' = clock + 1
             /\ UNCHANGED <<prog, st, pc, loc, res, rsp>>
CSAct(t) == /\ pc[t] <= Len(prog[t]) /\ cs[t] >= 1
         /\ LET c == prog[t][pc[t]]  o == CSStep(st, loc[t], c, cs[t]) IN
              /\ st' = o.st /\ loc' = [loc EXCEPT ![t] = o.loc] /\ clock' = clock + 1
              /\ IF o.done
                 THEN /\ res' = [res EXCEPT ![t] = Append(@, o.res)] /\ rsp' = [rsp EXCEPT ![t] = Append(@, clock)]
                      /\ pc' = [pc EXCEPT ![t] = @ + 1] /\ cs' = [cs EXCEPT ![t] = 0]
                 ELSE cs' = [cs EXCEPT ![t] = @ + 1] /\ UNCHANGED <<res, rsp, pc>>
         /\ UNCHANGED <<prog, inv>>
Invoke1 == Invoke(1)
Invoke2 == Invoke(2)
CS1 == CSAct(1)
CS2 == CSAct(2)
Next == Invoke1 \/ Invoke2 \/ CS1 \/ CS2
Spec == Init /\ [][Next]_vars /\ WF_vars(Next)

Done == \A t \in Threads : pc[t] > Len(prog[t])
CallIds == {<<t, i>> : t \in Threads, i \in 1..MaxCalls} \cap {x \in Threads \X (1..MaxCalls) : x[2] <= Len(prog[x[1]])}
RECURSIVE Orders(_)
Orders(S) == IF S = {} THEN {<<>>} ELSE UNION {{<<x>> \o o : o \in Orders(S \ {x})} : x \in S}
Before(a, b) == (a[1] = b[1] /\ a[2] < b[2]) \/ (a[1] # b[1] /\ rsp[a[1]][a[2]] < inv[b[1]][b[2]])
RECURSIVE Run(_, _)
Run(o, s) == IF o = <<>> THEN s = st ELSE
   LET c == o[1]  r == SeqOp(s, prog[c[1]][c[2]]) IN r.res = res[c[1]][c[2]] /\ Run(Tail(o), r.st)
Linearizable == Done => \E o \in Orders(CallIds) :
                   /\ \A i, j \in 1..Len(o) : i < j => ~Before(o[j], o[i])
                   /\ Run(o, InitSt)
\* every successful append of a byte is present exactly once in the final content when the file was never removed/replaced
Appends == {x \in CallIds : prog[x[1]][x[2]].op = "append_all"}
Calm == \A x \in CallIds : prog[x[1]][x[2]].op \in {"append_all", "read_all", "exists"}
AppendsExactlyOnce == (Done /\ Calm) =>
     /\ Len(st.fs[F].d) = 1 + Cardinality(Appends)
     /\ \A b \in {49, 50} : Cardinality({i \in 1..Len(st.fs[F].d) : st.fs[F].d[i] = b}) = Cardinality({x \in Appends : prog[x[1]][x[2]].d = <<b>>})
QuiescentWellFormed == Done => TreeOK(st.fs)
NoResultIsIo == \A t \in Threads : \A i \in 1..Len(res[t]) : res[t][i].o # "Io::NotFound"
Terminates == <>Done                       \* every behaviour finishes: no call waits for ever (the lock protocol itself: LockProto)
=============================================================================
