CONSTANTS
  Threads = {1, 2, 3}
  Nesting = TRUE
SPECIFICATION Spec
INVARIANTS MutualExclusion NoDeadlock
PROPERTY EveryAcquireEventuallyGranted
CHECK_DEADLOCK FALSE
