------------------------------- MODULE Traversal -------------------------------
(* C08 - the documented traversal of `Entries` (rustdoc of src/sys/fs/entries.rs and the statement of C08),
   written from the documentation, not from EntriesIter.

   Trees follow spec/Vfs.tla: a tree is a function  path -> node,  path = sequence of component strings
   (root <<>>), node = [k: "dir"|"file"|"link", t: target path of a link, tk: "dir"|"file"|"none" = kind
   the link's target has ("-" for non-links)].

   Options  o = [filt: "none"|"dirs"|"files"|"links" (links = a custom predicate given to filter_p),
                 follow: BOOLEAN, min, max: Nat (MAXD = unbounded), ord: "min"|"max" (which of min_depth /
                 max_depth the builder was given first: the later call is auto-corrected), cf: BOOLEAN
                 (contents_first), sort: "none"|"name"|"dirs_first"|"files_first",
                 rk: [name -> Nat] the order of names (TLC cannot order strings; rk[""] is the root's)]

   Part 1  declarative: Visits (the unfolding of the tree under the options), Selected (bag of what has to
           be yielded), ValidOrder (depth-first order without naming the hidden sibling choices), Expected
           (the exact sequence when a sort is set), AllOuts (every admissible sequence), listing helpers.
   Part 2  operational: the traversal as a nondeterministic DFS state machine.
   What is yielded for an entry is its *label* [p, d, f, l, e]: reported path (the target's path for a
   followed link), is_dir / is_file / is_symlink as "t"/"f", e = "" (e = error kind for an error item). *)
EXTENDS Naturals, Sequences, FiniteSets, TLC

MAXD == 99
Front(s) == SubSeq(s, 1, Len(s) - 1)
Last(s) == s[Len(s)]
IsPrefix(p, q) == Len(p) <= Len(q) /\ SubSeq(q, 1, Len(p)) = p
Children(fs, p) == {q \in DOMAIN fs : Len(q) = Len(p) + 1 /\ Front(q) = p}
Sub(fs, p) == {q \in DOMAIN fs : IsPrefix(p, q)}
TF(b) == IF b THEN "t" ELSE "f"
SetMax(S) == CHOOSE x \in S : \A y \in S : y <= x
SetMin(S) == CHOOSE x \in S : \A y \in S : x <= y

(* ---- the builder's clamping (rustdoc of min_depth / max_depth: "Setting min_depth first will autocorrect
        later calls to max_depth to be consistent in relation to min_depth. The inverse would be true if
        max_depth was called first.") ---- *)
EffMin(o) == IF o.ord = "max" /\ o.min > o.max THEN o.max ELSE o.min
EffMax(o) == IF o.ord = "min" /\ o.max < o.min THEN o.min ELSE o.max
Norm(o) == [o EXCEPT !.min = EffMin(o), !.max = EffMax(o)]

(* ---- entries as the iterator reports them ----
   rp = reported path, lp = directory that is listed when the entry is descended into, src = tree path.
   A link is a directory / file exactly when its target is one (Entry::is_dir "links are followed"); with
   follow the reported path is the target's. *)
EntryOf(fs, p, o) == LET n == fs[p] IN
  IF n.k = "link" THEN [src |-> p, rp |-> IF o.follow THEN n.t ELSE p, lp |-> IF o.follow THEN n.t ELSE p,
                        isdir |-> n.tk = "dir", isfile |-> n.tk = "file", islink |-> TRUE]
  ELSE [src |-> p, rp |-> p, lp |-> p, isdir |-> n.k = "dir", isfile |-> n.k = "file", islink |-> FALSE]
Pass(e, o) == CASE o.filt = "dirs" -> e.isdir [] o.filt = "files" -> e.isfile [] o.filt = "links" -> e.islink [] OTHER -> TRUE
Lab(e) == [p |-> e.rp, d |-> TF(e.isdir), f |-> TF(e.isfile), l |-> TF(e.islink), e |-> ""]
LoopKind == "Path::LinkLooping"
ErrLab(p, kind) == [p |-> p, d |-> "-", f |-> "-", l |-> "-", e |-> kind]
PassLab(x, o) == CASE o.filt = "dirs" -> x.d = "t" [] o.filt = "files" -> x.f = "t" [] o.filt = "links" -> x.l = "t" [] OTHER -> TRUE

(* ---- sibling order ---- *)
Name(e) == IF e.rp = <<>> THEN "" ELSE Last(e.rp)
NameLess(e1, e2, o) == o.rk[Name(e1)] < o.rk[Name(e2)]
\* strictly before; two siblings may tie (follow: two links whose targets have the same name)
Before(e1, e2, o) ==
  CASE o.sort = "name"        -> NameLess(e1, e2, o)
    [] o.sort = "dirs_first"  -> (e1.isdir /\ ~e2.isdir) \/ (e1.isdir = e2.isdir /\ NameLess(e1, e2, o))
    [] o.sort = "files_first" -> (~e1.isdir /\ e2.isdir) \/ (e1.isdir = e2.isdir /\ NameLess(e1, e2, o))
    [] OTHER -> FALSE

(* =====================================  Part 1: declarative  ===================================== *)
(* A *visit* is one encounter of an entry: it is named by its route <<root, child, grandchild, ..>> of tree
   paths (a followed link continues in the listing of its target).  The stack of a visit = reported paths
   of the directories being listed above it.  o is normalised (Norm) in everything below. *)
StackOf(fs, o, route) == [i \in 1..(Len(route) - 1) |-> EntryOf(fs, route[i], o).rp]
VisitOf(fs, o, route) ==
  LET e     == EntryOf(fs, Last(route), o)
      depth == Len(route) - 1
      stack == StackOf(fs, o, route)
      would == e.isdir /\ (~e.islink \/ o.follow)                           \* directories and followed links to directories
      loop  == would /\ e.islink /\ \E i \in 1..Len(stack) : stack[i] = e.rp  \* a followed link back into the active branch
      desc  == would /\ ~loop /\ depth < o.max /\ e.lp \in DOMAIN fs
      sel   == ~loop /\ depth >= o.min /\ Pass(e, o)
  IN [route |-> route, e |-> e, depth |-> depth, loop |-> loop, desc |-> desc, sel |-> sel, emits |-> loop \/ sel,
      lab |-> IF loop THEN ErrLab(e.rp, LoopKind) ELSE Lab(e)]
RECURSIVE VisitsFrom(_, _, _)
VisitsFrom(fs, o, route) == LET v == VisitOf(fs, o, route) IN
  {v} \cup (IF v.desc THEN UNION {VisitsFrom(fs, o, Append(route, c)) : c \in Children(fs, v.e.lp)} ELSE {})
Visits(fs, root, o) == VisitsFrom(fs, o, <<root>>)

\* bags as functions element -> count
BagOfSeq(s) == LET L == {s[i] : i \in 1..Len(s)} IN [x \in L |-> Cardinality({i \in 1..Len(s) : s[i] = x})]
BagOfVisits(E) == LET L == {v.lab : v \in E} IN [x \in L |-> Cardinality({v \in E : v.lab = x})]
Emitting(V) == {v \in V : v.emits}
\* what has to be yielded: every entry inside the depth window that the filter accepts, once per visit
\* (= once when links are not followed), plus one LinkLooping error per followed link that closes a cycle
SelectedN(fs, root, o) == BagOfVisits(Emitting(Visits(fs, root, o)))
Selected(fs, root, o0) == SelectedN(fs, root, Norm(o0))
LoopCount(fs, root, o0) == Cardinality({v \in Visits(fs, root, Norm(o0)) : v.loop})

(* ---- assignments of sequence positions to emitting visits (only ambiguous when follow makes two visits
        report the same entry) ---- *)
Inj(A, B) == {f \in [A -> B] : \A x, y \in A : x # y => f[x] # f[y]}
Merge(f, g) == [x \in DOMAIN f \cup DOMAIN g |-> IF x \in DOMAIN f THEN f[x] ELSE g[x]]
RECURSIVE AssignDup(_, _, _)
AssignDup(Ls, seq, E) == IF Ls = {} THEN {[x \in {} |-> 0]} ELSE
  LET l  == CHOOSE x \in Ls : TRUE
      bs == Inj({v.route : v \in {w \in E : w.lab = l}}, {i \in 1..Len(seq) : seq[i] = l})
  IN {Merge(f, g) : f \in bs, g \in AssignDup(Ls \ {l}, seq, E)}
\* precondition: BagOfSeq(seq) = BagOfVisits(E)
Assignments(seq, E) ==
  LET dupL == {l \in {v.lab : v \in E} : Cardinality({v \in E : v.lab = l}) > 1}
      uni  == {v \in E : v.lab \notin dupL}
      base == [r \in {v.route : v \in uni} |-> LET l == (CHOOSE v \in uni : v.route = r).lab IN CHOOSE i \in 1..Len(seq) : seq[i] = l]
  IN IF dupL = {} THEN {base} ELSE {Merge(base, g) : g \in AssignDup(dupL, seq, E)}
AssignmentCount(E) ==    \* how many assignments there would be (validators skip absurdly ambiguous records)
  \* saturating (32-bit integers): both factors are capped at 10^4, the product stops growing once it exceeds 10^4
  LET RECURSIVE Fact(_)  Fact(n) == IF n <= 1 THEN 1 ELSE IF n > 7 THEN 10000 ELSE n * Fact(n - 1)
      RECURSIVE Prod(_)  Prod(Ls) == IF Ls = {} THEN 1 ELSE LET l == CHOOSE x \in Ls : TRUE  rest == Prod(Ls \ {l}) IN
                                     IF rest > 10000 THEN rest ELSE Fact(Cardinality({v \in E : v.lab = l})) * rest
  IN Prod({v.lab : v \in E})

(* ---- depth-first order without search over sibling choices ----
   block(u) = positions of the emitting visits at or below u.  A sequence is a depth-first order iff
   every block is contiguous (so sibling blocks do not interleave), a yielded directory stands first in
   its block (last with contents_first), and - when a sort is set - the block of a sibling that sorts
   strictly before another lies entirely before it. *)
Block(pos, u) == {pos[r] : r \in {x \in DOMAIN pos : IsPrefix(u, x)}}
Contig(S) == S = {} \/ SetMax(S) - SetMin(S) + 1 = Cardinality(S)
Siblings(x, y) == Len(x.route) = Len(y.route) /\ Len(x.route) > 1 /\ Front(x.route) = Front(y.route) /\ x.route # y.route
OrderOK(pos, V, o) ==
  /\ \A v \in V : v.desc => Contig(Block(pos, v.route))
  /\ \A v \in V : v.emits => LET B == Block(pos, v.route) IN
        pos[v.route] = IF o.cf /\ v.e.isdir THEN SetMax(B) ELSE SetMin(B)
  /\ o.sort # "none" => \A x, y \in V : (Siblings(x, y) /\ Before(x.e, y.e, o)) =>
        LET Bx == Block(pos, x.route)  By == Block(pos, y.route) IN Bx = {} \/ By = {} \/ SetMax(Bx) < SetMin(By)
ValidOrderN(seq, fs, root, o) == LET V == Visits(fs, root, o)  E == Emitting(V) IN
  /\ BagOfSeq(seq) = BagOfVisits(E)
  /\ \E pos \in Assignments(seq, E) : OrderOK(pos, V, o)
ValidOrder(seq, fs, root, o0) == ValidOrderN(seq, fs, root, Norm(o0))

(* ---- the exact sequence for sorted traversals (DESIGN appendix F) ---- *)
RECURSIVE SortP(_, _, _)       \* sort child *paths* (two links may report identical followed entries)
SortP(fs, S, o) == IF S = {} THEN <<>> ELSE
   LET m == CHOOSE x \in S : \A y \in S \ {x} : ~Before(EntryOf(fs, y, o), EntryOf(fs, x, o), o) IN <<m>> \o SortP(fs, S \ {m}, o)
RECURSIVE Walk(_, _, _, _, _), WalkKids(_, _, _, _, _)
Walk(fs, p, depth, o, stack) ==
  LET e     == EntryOf(fs, p, o)
      would == e.isdir /\ (~e.islink \/ o.follow)
      loop  == would /\ e.islink /\ \E i \in 1..Len(stack) : stack[i] = e.rp
      desc  == would /\ ~loop /\ depth < o.max /\ e.lp \in DOMAIN fs
      self  == IF depth >= o.min /\ Pass(e, o) THEN << Lab(e) >> ELSE <<>>
      kids  == IF desc THEN WalkKids(fs, SortP(fs, Children(fs, e.lp), o), depth + 1, o, Append(stack, e.rp)) ELSE <<>>
  IN IF loop THEN << ErrLab(e.rp, LoopKind) >>
     ELSE IF o.cf /\ e.isdir THEN kids \o self ELSE self \o kids
WalkKids(fs, ps, depth, o, stack) == IF ps = <<>> THEN <<>> ELSE Walk(fs, Head(ps), depth, o, stack) \o WalkKids(fs, Tail(ps), depth, o, stack)
Expected(fs, root, o0) == Walk(fs, root, 0, Norm(o0), <<>>)
\* the sequence is fully determined: a sort is set and no two siblings of a listed directory tie
UniqueKeys(fs, root, o0) == LET o == Norm(o0) IN
  /\ o.sort # "none"
  /\ \A v \in Visits(fs, root, o) : v.desc => \A x, y \in Children(fs, v.e.lp) :
        x # y => (Before(EntryOf(fs, x, o), EntryOf(fs, y, o), o) \/ Before(EntryOf(fs, y, o), EntryOf(fs, x, o), o))

(* ---- every admissible sequence (third formulation, used by the design check only) ---- *)
RECURSIVE Orders(_, _, _)
Orders(fs, S, o) == IF S = {} THEN {<<>>} ELSE
  UNION {{<<m>> \o t : t \in Orders(fs, S \ {m}, o)} :
            m \in {x \in S : \A y \in S \ {x} : ~Before(EntryOf(fs, y, o), EntryOf(fs, x, o), o)}}
RECURSIVE WalkAll(_, _, _, _, _), KidsAll(_, _, _, _, _)
WalkAll(fs, p, depth, o, stack) ==
  LET e     == EntryOf(fs, p, o)
      would == e.isdir /\ (~e.islink \/ o.follow)
      loop  == would /\ e.islink /\ \E i \in 1..Len(stack) : stack[i] = e.rp
      desc  == would /\ ~loop /\ depth < o.max /\ e.lp \in DOMAIN fs
      self  == IF depth >= o.min /\ Pass(e, o) THEN << Lab(e) >> ELSE <<>>
      kids  == IF desc THEN UNION {KidsAll(fs, ord, depth + 1, o, Append(stack, e.rp)) : ord \in Orders(fs, Children(fs, e.lp), o)} ELSE {<<>>}
  IN IF loop THEN {<< ErrLab(e.rp, LoopKind) >>}
     ELSE IF o.cf /\ e.isdir THEN {k \o self : k \in kids} ELSE {self \o k : k \in kids}
KidsAll(fs, ps, depth, o, stack) == IF ps = <<>> THEN {<<>>} ELSE
  {a \o b : a \in WalkAll(fs, Head(ps), depth, o, stack), b \in KidsAll(fs, Tail(ps), depth, o, stack)}
AllOuts(fs, root, o0) == WalkAll(fs, root, 0, Norm(o0), <<>>)

(* ---- listing helpers (rustdoc of paths/dirs/files/all_*: absolute, distinct, sorted by name, children
        only resp. recursive, the argument excluded; the argument must be a real directory) ---- *)
DirIsh(fs, q)  == fs[q].k = "dir" \/ (fs[q].k = "link" /\ fs[q].tk = "dir")
FileIsh(fs, q) == fs[q].k = "file" \/ (fs[q].k = "link" /\ fs[q].tk = "file")
Listing(fs, p, what) ==
   LET base == IF what \in {"paths", "dirs", "files"} THEN Children(fs, p) ELSE Sub(fs, p) \ {p} IN
   IF what \in {"paths", "all_paths"} THEN base
   ELSE IF what \in {"dirs", "all_dirs"} THEN {q \in base : DirIsh(fs, q)}
   ELSE {q \in base : FileIsh(fs, q)}
ListOpts(what, rk) == [filt |-> CASE what \in {"dirs", "all_dirs"} -> "dirs" [] what \in {"files", "all_files"} -> "files" [] OTHER -> "none",
                       follow |-> FALSE, min |-> 1, max |-> IF what \in {"paths", "dirs", "files"} THEN 1 ELSE MAXD, ord |-> "min",
                       cf |-> FALSE, sort |-> "name", rk |-> rk]
\* the helper as a traversal ("listing helpers = entries + min/max depth + sort_by_name + filter")
ListingSeq(fs, p, what, rk) == LET s == Expected(fs, p, ListOpts(what, rk)) IN [i \in 1..Len(s) |-> s[i].p]

(* ---- pre_op (rustdoc of Entries::pre_op: "Set the pre-operation function to run over each directory before processing.
        Runs the pre-operation before reading the filesystem.  Useful for changing permissions or ownership on the way in to
        allow for recursion") ----
   The pre-operation is called exactly once per directory that the traversal lists (the visits with `desc`), before anything
   below that directory is touched (its own pre-operations, its yields) and - when the directory itself is yielded - before
   that yield.  A combined log of events [t: "P" | "Y" | "E", p: reported path] is judged:  *)
PreOpBag(fs, root, o) == LET D == {v \in Visits(fs, root, o) : v.desc}  L == {v.e.rp : v \in D} IN
                         [x \in L |-> Cardinality({v \in D : v.e.rp = x})]
StrictlyBelow(p, q) == IsPrefix(p, q) /\ p # q
\* every P event precedes every event strictly below its directory and the yield of the directory itself (paths unique: no follow)
PreOpFirst(ev) == \A i, j \in 1..Len(ev) : (ev[i].t = "P" /\ (StrictlyBelow(ev[i].p, ev[j].p) \/ (ev[j].t = "Y" /\ ev[j].p = ev[i].p))) => i < j
\* a failing pre-operation: its error is the very next item, and nothing below the directory is visited
PreOpFailStops(ev, bad) == \A i \in 1..Len(ev) : (ev[i].t = "P" /\ ev[i].p # <<>> /\ Last(ev[i].p) = bad) =>
                              /\ i < Len(ev) /\ ev[i + 1].t = "E"
                              /\ \A j \in 1..Len(ev) : ~StrictlyBelow(ev[i].p, ev[j].p)

(* =====================================  Part 2: the machine  ===================================== *)
(* cfg = [fs, root, o (normalised), nv (number of visits: bound for the step counter)];
   cur = the entry in hand (stage "self": decide what to emit; stage "enter": open its listing);
   stack = frames [rp, pend (children not yet handed out), def (the directory waits in `deferred`)];
   deferred = directories to emit after their contents; out = what has been yielded so far. *)
VARIABLES cfg, cur, stack, deferred, out, done, steps
vars == <<cfg, cur, stack, deferred, out, done, steps>>

NoEntry == [src |-> <<>>, rp |-> <<>>, lp |-> <<>>, isdir |-> FALSE, isfile |-> FALSE, islink |-> FALSE]
Off == [on |-> FALSE, e |-> NoEntry, depth |-> 0, stage |-> "-"]
Hand(e, depth) == [on |-> TRUE, e |-> e, depth |-> depth, stage |-> "self"]
MkCfg(fs, root, o0) == LET o == Norm(o0) IN [fs |-> fs, root |-> root, o |-> o, nv |-> Cardinality(Visits(fs, root, o))]
MInit == /\ cur = Hand(EntryOf(cfg.fs, cfg.root, cfg.o), 0)
         /\ stack = <<>> /\ deferred = <<>> /\ out = <<>> /\ done = FALSE /\ steps = 0

CWould == cur.e.isdir /\ (~cur.e.islink \/ cfg.o.follow)
CLoop  == CWould /\ cur.e.islink /\ \E i \in 1..Len(stack) : stack[i].rp = cur.e.rp
CDesc  == CWould /\ ~CLoop /\ cur.depth < cfg.o.max /\ cur.e.lp \in DOMAIN cfg.fs
CSel   == cur.depth >= cfg.o.min /\ Pass(cur.e, cfg.o)
CDefer == cfg.o.cf /\ cur.e.isdir /\ CDesc /\ CSel
AtSelf == cur.on /\ cur.stage = "self"
Moved  == IF CDesc THEN [cur EXCEPT !.stage = "enter"] ELSE Off
Top    == stack[Len(stack)]
Minimal(c, S) == \A y \in S \ {c} : ~Before(EntryOf(cfg.fs, y, cfg.o), EntryOf(cfg.fs, c, cfg.o), cfg.o)

\* a followed link leads back into a directory that is being listed: an error item instead of a descent
LoopError == /\ AtSelf /\ CLoop
             /\ out' = Append(out, ErrLab(cur.e.rp, LoopKind)) /\ cur' = Off /\ steps' = steps + 1
             /\ UNCHANGED <<cfg, stack, deferred, done>>
Yield == /\ AtSelf /\ ~CLoop /\ CSel /\ ~CDefer
         /\ out' = Append(out, Lab(cur.e)) /\ cur' = Moved /\ steps' = steps + 1
         /\ UNCHANGED <<cfg, stack, deferred, done>>
SkipDepth == /\ AtSelf /\ ~CLoop /\ cur.depth < cfg.o.min
             /\ cur' = Moved /\ steps' = steps + 1
             /\ UNCHANGED <<cfg, stack, deferred, out, done>>
SkipFilter == /\ AtSelf /\ ~CLoop /\ cur.depth >= cfg.o.min /\ ~Pass(cur.e, cfg.o)
              /\ cur' = Moved /\ steps' = steps + 1
              /\ UNCHANGED <<cfg, stack, deferred, out, done>>
\* contents_first: a selected directory whose contents are visited is emitted when its listing is left
Defer == /\ AtSelf /\ ~CLoop /\ CDefer
         /\ deferred' = Append(deferred, cur.e) /\ cur' = [cur EXCEPT !.stage = "enter"] /\ steps' = steps + 1
         /\ UNCHANGED <<cfg, stack, out, done>>
Enter == /\ cur.on /\ cur.stage = "enter"
         /\ stack' = Append(stack, [rp |-> cur.e.rp, pend |-> Children(cfg.fs, cur.e.lp), def |-> CDefer])
         /\ cur' = Off /\ steps' = steps + 1
         /\ UNCHANGED <<cfg, deferred, out, done>>
PickAny == /\ ~cur.on /\ stack # <<>> /\ cfg.o.sort = "none"
           /\ \E c \in Top.pend : /\ cur' = Hand(EntryOf(cfg.fs, c, cfg.o), Len(stack))
                                  /\ stack' = [stack EXCEPT ![Len(stack)].pend = @ \ {c}]
           /\ steps' = steps + 1 /\ UNCHANGED <<cfg, deferred, out, done>>
PickSorted == /\ ~cur.on /\ stack # <<>> /\ cfg.o.sort # "none"
              /\ \E c \in Top.pend : /\ Minimal(c, Top.pend)
                                     /\ cur' = Hand(EntryOf(cfg.fs, c, cfg.o), Len(stack))
                                     /\ stack' = [stack EXCEPT ![Len(stack)].pend = @ \ {c}]
              /\ steps' = steps + 1 /\ UNCHANGED <<cfg, deferred, out, done>>
EmitDeferred == /\ ~cur.on /\ stack # <<>>
                /\ IF stack # <<>> THEN Top.pend = {} /\ Top.def ELSE FALSE
                /\ out' = Append(out, Lab(Last(deferred))) /\ deferred' = Front(deferred)
                /\ stack' = [stack EXCEPT ![Len(stack)].def = FALSE] /\ steps' = steps + 1
                /\ UNCHANGED <<cfg, cur, done>>
Leave == /\ ~cur.on /\ stack # <<>>
         /\ IF stack # <<>> THEN Top.pend = {} /\ ~Top.def ELSE FALSE
         /\ stack' = Front(stack) /\ steps' = steps + 1
         /\ UNCHANGED <<cfg, cur, deferred, out, done>>
Finish == /\ ~cur.on /\ stack = <<>> /\ ~done
          /\ done' = TRUE /\ steps' = steps + 1
          /\ UNCHANGED <<cfg, cur, stack, deferred, out>>
Idle == done /\ UNCHANGED vars
MNext == \/ LoopError \/ Yield \/ SkipDepth \/ SkipFilter \/ Defer \/ Enter \/ PickAny \/ PickSorted
         \/ EmitDeferred \/ Leave \/ Finish \/ Idle
=============================================================================
