SPECIFICATION Spec
CONSTANT Ids = {0, 1}
INVARIANT DocDropAlwaysFinal
CHECK_DEADLOCK FALSE
