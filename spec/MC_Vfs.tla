------------------------------- MODULE MC_Vfs -------------------------------
(* Design-level model checking of the reference filesystem: every operation of the alphabet from every
   reachable state of a bounded namespace (reachability fix-point), with the properties the statements of
   C01 / C03 / C06 / C09 / C10 make about ALL histories checked as invariants and action properties:
   a failed single-target call changes nothing, the tree stays well formed, copy leaves the source and
   everything outside the destination alone, move is an exact relocation, files are independent, ...
   `last` records the call (observation only; hidden from the state space by the VIEW). *)
EXTENDS Vfs
CONSTANTS Names, Depth, MaxLinks, MaxData, WithCwd, Sure
VARIABLES fs, cwd, last
vars == <<fs, cwd, last>>
View == <<fs, cwd>>

RECURSIVE PathsUpTo(_)
PathsUpTo(n) == IF n = 0 THEN {<<>>} ELSE LET P == PathsUpTo(n - 1) IN P \cup {Append(p, x) : p \in {q \in P : Len(q) = n - 1}, x \in Names}
Paths == PathsUpTo(Depth)
Own == [uid |-> 1000, gid |-> 1000]
X == <<120>>
st == [fs |-> fs, cwd |-> cwd]

InBounds(s) == /\ DOMAIN s.fs \subseteq Paths
               /\ Cardinality({p \in DOMAIN s.fs : s.fs[p].k = "link"}) <= MaxLinks
               /\ \A p \in DOMAIN s.fs : Len(s.fs[p].d) <= MaxData /\ s.fs[p].tk # "?"
\* outcomes admitted by the documentation; with Sure only the fully settled ones (for the reachable-set sandwich)
Outcomes(o) == IF Sure THEN (IF o.res.o = "?" \/ o.alt # {} \/ o.partial THEN {} ELSE {o.st}) ELSE {o.st} \cup o.alt
\* wildcards of the reference (mode 0 = "mode of a pre-existing file after copy: keep or take over") are
\* resolved to "keep" here; links whose recorded kind is not settled ("?") are cut off by InBounds
Fix(s) == [s EXCEPT !.fs = [p \in DOMAIN s.fs |->
             [s.fs[p] EXCEPT !.mode = IF @ # 0 THEN @ ELSE IF p \in DOMAIN fs THEN fs[p].mode ELSE DirMode,
                             !.uid = IF @ = AnyId THEN Own.uid ELSE @, !.gid = IF @ = AnyId THEN Own.gid ELSE @]]]
Do(o, op, a, b) == \E s0 \in Outcomes(o) : LET s == Fix(s0) IN
                      /\ InBounds(s)
                      /\ fs' = s.fs /\ cwd' = s.cwd
                      /\ last' = [op |-> op, a |-> a, b |-> b, ok |-> o.res.o, settled |-> (o.alt = {} /\ ~o.partial /\ o.res.o # "?")]

Mkfile    == \E p \in Paths : Do(Op_mkfile(st, Own, p), "mkfile", p, <<>>)
MkdirP    == \E p \in Paths : Do(Op_mkdir_p(st, Own, p), "mkdir_p", p, <<>>)
WriteX    == \E p \in Paths : Do(Op_write_all(st, Own, p, X), "write_all", p, X)
WriteE    == \E p \in Paths : Do(Op_write_all(st, Own, p, <<>>), "write_all", p, <<>>)
AppendX   == \E p \in Paths : Do(Op_append_all(st, Own, p, X), "append_all", p, X)
Remove    == \E p \in Paths : Do(Op_remove(st, p), "remove", p, <<>>)
RemoveAll == \E p \in Paths : Do(Op_remove_all(st, p), "remove_all", p, <<>>)
Symlink   == MaxLinks > 0 /\ \E p \in Paths, q \in Paths : Do(Op_symlink(st, Own, p, q), "symlink", p, q)
MoveP     == \E p \in Paths, q \in Paths : Do(Op_move_p(st, p, q), "move_p", p, q)
Copy      == \E p \in Paths, q \in Paths : Do(Op_copy_b(st, Own, p, q, [dm |-> 0, fm |-> 0, follow |-> FALSE]), "copy", p, q)
SetCwd    == WithCwd /\ \E p \in Paths : Do(Op_set_cwd(st, p), "set_cwd", p, <<>>)

Init == fs = (Root :> NDir(Own)) /\ cwd = Root /\ last = [op |-> "init", a |-> <<>>, b |-> <<>>, ok |-> "ok", settled |-> TRUE]
Next == Mkfile \/ MkdirP \/ WriteX \/ WriteE \/ AppendX \/ Remove \/ RemoveAll \/ Symlink \/ MoveP \/ Copy \/ SetCwd
Spec == Init /\ [][Next]_vars

(* ---------------- properties ---------------- *)
WellFormedTree == TreeOK(fs)                  \* C03 on the abstract level (links never have children); the cwd may name a directory that was removed since
SingleTarget == {"mkfile", "mkdir_p", "write_all", "append_all", "remove", "move_p", "symlink", "set_cwd"}
Failed(x) == x.ok # "ok" /\ x.ok # "?"
\* C01: a single-target call that reports failure leaves the tree exactly as it was
FailedCallAtomic == [][(last'.op \in SingleTarget /\ Failed(last')) => (fs' = fs /\ cwd' = cwd)]_vars
\* C06: a write replaces the whole content of exactly that file, an append extends it, nothing else moves
WriteLaw == [][(last'.op = "write_all" /\ last'.ok = "ok") =>
                 /\ fs'[last'.a].d = last'.b /\ fs'[last'.a].k = "file"
                 /\ \A q \in DOMAIN fs' \ {last'.a} : q \in DOMAIN fs /\ fs'[q] = fs[q]
                 /\ DOMAIN fs' \ {last'.a} = DOMAIN fs \ {last'.a}]_vars
AppendLaw == [][(last'.op = "append_all" /\ last'.ok = "ok") =>
                 /\ fs'[last'.a].d = (IF last'.a \in DOMAIN fs THEN fs[last'.a].d ELSE <<>>) \o last'.b
                 /\ \A q \in DOMAIN fs' \ {last'.a} : q \in DOMAIN fs /\ fs'[q] = fs[q]]_vars
\* C09: a successful move makes the source disappear and the destination equal to the former source subtree
MoveTargetOf(f, s, d) == IF IsDir(f, d) THEN Append(d, Base(s)) ELSE d
MoveIsRelocation == [][(last'.op = "move_p" /\ last'.ok = "ok" /\ last'.settled) =>
     LET s == last'.a  t == MoveTargetOf(fs, s, last'.b) IN
       t = s \/ ( /\ Sub(fs', s) = {}
                  /\ Sub(fs', t) = {Rebase(x, s, t) : x \in Sub(fs, s)}
                  /\ \A x \in Sub(fs, s) : fs'[Rebase(x, s, t)] = fs[x]
                  /\ \A q \in DOMAIN fs : (~IsPrefix(s, q) /\ ~IsPrefix(t, q)) => (q \in DOMAIN fs' /\ fs'[q] = fs[q])
                  /\ \A q \in DOMAIN fs' : ~IsPrefix(t, q) => q \in DOMAIN fs )]_vars
\* C09: a successful copy leaves the source untouched, recreates every source entry below the destination with
\* the same kind / content / link target (same mode when new), keeps what existed, changes nothing outside
CopyLaw == [][(last'.op = "copy" /\ last'.ok = "ok" /\ last'.settled /\ last'.a # last'.b) =>
     LET s == last'.a  t == MoveTargetOf(fs, s, last'.b) IN
       t = s \/ ( /\ \A x \in Sub(fs, s) : x \in DOMAIN fs' /\ (IsPrefix(t, x) \/ fs'[x] = fs[x])
                  /\ \A x \in Sub(fs, s) : LET q == Rebase(x, s, t) IN
                        /\ q \in DOMAIN fs' /\ fs'[q].k = fs[x].k /\ fs'[q].t = fs[x].t
                        /\ (fs[x].k = "file" => fs'[q].d = fs[x].d)
                        /\ (q \notin DOMAIN fs => fs'[q].mode = fs[x].mode)
                  /\ \A q \in DOMAIN fs : q \in DOMAIN fs'                                        \* nothing disappears
                  /\ \A q \in DOMAIN fs : (~IsPrefix(t, q)) => fs'[q] = fs[q]                       \* nothing outside the destination changes
                  /\ \A q \in DOMAIN fs' \ DOMAIN fs : IsPrefix(t, q) \/ IsPrefix(q, t) )]_vars    \* only the destination (and its missing parents) appear
\* C10: a new link records its target, is a link and nothing else, and never touches the target
SymlinkLaw == [][(last'.op = "symlink" /\ last'.ok = "ok" /\ last'.settled) =>
                 /\ fs'[last'.a].k = "link" /\ fs'[last'.a].t = last'.b
                 /\ \A q \in DOMAIN fs : q \in DOMAIN fs' /\ (q # last'.a => fs'[q] = fs[q])]_vars
\* remove acts on the entry itself (a link is removed, never its target)
RemoveLaw == [][(last'.op = "remove" /\ last'.ok = "ok") =>
                 /\ last'.a \notin DOMAIN fs'
                 /\ \A q \in DOMAIN fs \ {last'.a} : q \in DOMAIN fs' /\ fs'[q] = fs[q]]_vars
RemoveAllLaw == [][(last'.op = "remove_all" /\ last'.ok = "ok" /\ last'.a # Root) =>
                 /\ Sub(fs', last'.a) = {}
                 /\ \A q \in DOMAIN fs : ~IsPrefix(last'.a, q) => (q \in DOMAIN fs' /\ fs'[q] = fs[q])]_vars
CwdLaw == [][(last'.op # "set_cwd") => cwd' = cwd]_vars
=============================================================================
