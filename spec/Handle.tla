------------------------------- MODULE Handle -------------------------------
(* C07 - the handle machine: what a handle returned by Vfs::read / Vfs::write / Vfs::append must do,
   written from the property statement, the rustdoc of read/write/append ("Provides a handle to a
   Read + Seek implementation", "Creates a file if it does not exist or truncates it if it does",
   "... or appends to it if it does") and the std contracts of io::Read, io::Seek, io::Write.

   The machine is given as transition operators over explicit state records so that the same
   definitions drive the design-level exploration (MC_Handle, which wraps them in variables) and
   the judgement of the implementation's logged steps (Trace_Handle).

   READ SIDE  state h = [data, pos]            == std::io::Cursor over the file's bytes
     Read(n)   returns min(n, max(0, Len(data) - pos)) bytes starting at pos and advances by that
               count; at or beyond the end it returns 0 bytes; it never fails;
     Seek      Start k | Current k | End k: target = k | pos + k | Len(data) + k;
               target < 0 is an error and the position DOES NOT MOVE; a target beyond the end is
               legal (later reads return 0 bytes).

   WRITE SIDE state w = [mode, base, written, synced, cut, open], file = visible content
     mode "trunc" (Vfs::write) | "append" (Vfs::append); base = content when the handle was opened;
     written = every byte accepted by Write so far (Write(chunk) accepts n <= Len(chunk) bytes and
     says so - the io::Write contract); synced = how many of them have reached the file; cut =
     the old content of a "trunc" file has been discarded.
     The backends are free in WHEN bytes reach the file (std::fs::File writes through at once and
     truncates at open, Memfs writes back at flush/drop and truncates at the first write-back):
     TruncEarly / Through are internal steps.  The CONTRACT constrains the visible content only at
     Flush and at Drop (= implicit flush):
         trunc:   file = written            append:  file = base \o written
     so "dropping the handle at any point persists exactly the bytes written through it", and an
     append never alters the existing prefix. *)
EXTENDS Integers, Sequences

Min(a, b) == IF a < b THEN a ELSE b
Max(a, b) == IF a > b THEN a ELSE b
IsPrefix(p, s) == Len(p) <= Len(s) /\ SubSeq(s, 1, Len(p)) = p

(* ------------------------------ read side ------------------------------ *)
IsSeek(op) == op.op \in {"start", "cur", "end"}
Avail(h) == Max(0, Len(h.data) - h.pos)
Target(h, op) == CASE op.op = "start" -> op.n
                   [] op.op = "cur" -> h.pos + op.n
                   [] op.op = "end" -> Len(h.data) + op.n
\* one step: op = [op |-> "read"|"start"|"cur"|"end", n |-> Int]; result [h, ok, n, bytes]
\* (n = number of bytes read / new position)
Step(h, op) ==
  IF op.op = "read"
  THEN LET k == Min(op.n, Avail(h)) IN
       [h |-> [h EXCEPT !.pos = @ + k], ok |-> TRUE, n |-> k, bytes |-> IF k = 0 THEN <<>> ELSE SubSeq(h.data, h.pos + 1, h.pos + k)]
  ELSE LET t == Target(h, op) IN
       IF t < 0 THEN [h |-> h, ok |-> FALSE, n |-> 0, bytes |-> <<>>]
       ELSE [h |-> [h EXCEPT !.pos = t], ok |-> TRUE, n |-> t, bytes |-> <<>>]
PosClass(h) == IF h.pos < Len(h.data) THEN "pos<len" ELSE IF h.pos = Len(h.data) THEN "pos=len" ELSE "pos>len"

(* ------------------------------ write side ------------------------------ *)
Modes == {"trunc", "append"}
WOpen(file, mode) == [mode |-> mode, base |-> file, written |-> <<>>, synced |-> 0, cut |-> FALSE, open |-> TRUE]
\* Write(chunk) accepted n of the bytes offered
WAccept(w, chunk, n) == [w EXCEPT !.written = @ \o SubSeq(chunk, 1, n)]
\* internal: the old content of a trunc file goes away (at open, or any time before the first write-back)
CanCut(w) == w.open /\ w.mode = "trunc" /\ ~w.cut
\* the bytes written[synced+1..k] reach the file (a trunc file loses its old content first at the latest now)
Push(file, w, k) == LET start == IF CanCut(w) THEN <<>> ELSE file IN
   [file |-> start \o SubSeq(w.written, w.synced + 1, k), w |-> [w EXCEPT !.synced = k, !.cut = TRUE]]
WFlush(file, w) == Push(file, w, Len(w.written))
WDrop(file, w) == LET p == Push(file, w, Len(w.written)) IN [file |-> p.file, w |-> [p.w EXCEPT !.open = FALSE]]

\* THE CONTRACT: content that must be visible right after a Flush and after the Drop
Contract(mode, base, written) == IF mode = "trunc" THEN written ELSE base \o written
ContractW(w) == Contract(w.mode, w.base, w.written)
\* what may be visible in between (nothing foreign, nothing reordered) - checked on the machine only
Between(file, w) == IF w.mode = "append" THEN \E k \in 0..Len(w.written) : file = w.base \o SubSeq(w.written, 1, k)
                    ELSE (~w.cut /\ file = w.base) \/ (\E k \in 0..Len(w.written) : file = SubSeq(w.written, 1, k))

(* ---- two append handles on one file (O_APPEND), informational: c = base \o an interleaving of a and b ---- *)
RECURSIVE IsShuffle(_, _, _)
IsShuffle(c, a, b) == IF c = <<>> THEN a = <<>> /\ b = <<>>
                      ELSE \/ (IF a # <<>> THEN Head(a) = Head(c) /\ IsShuffle(Tail(c), Tail(a), b) ELSE FALSE)
                           \/ (IF b # <<>> THEN Head(b) = Head(c) /\ IsShuffle(Tail(c), a, Tail(b)) ELSE FALSE)
=============================================================================
