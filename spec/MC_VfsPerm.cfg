CONSTANTS
  Names = {"a", "b"}
  MaxLinks = 1
  Octals = {320}
  Variants = {1}
  DeepUnder = {"a"}
SPECIFICATION Spec
INVARIANTS TypeOK KeepsType ChmodOnlyTargets ChmodExactValue LinksUntouched ChownOnlyTargets ChownExactValue QueriesAgree ErrorUnchanged MissingPath MalformedFirst MkModes
CHECK_DEADLOCK FALSE
