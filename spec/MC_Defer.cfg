CONSTANTS
  MaxDepth = 3
  MaxG = 2
  KidsAt <- KidsDeep
SPECIFICATION Spec
INVARIANTS Deterministic AtMostOnceInv ReverseInv ScopeEndInv LiveInv FinalInv Terminates
CHECK_DEADLOCK TRUE
