------------------------------- MODULE XdgEnv -------------------------------
(* XDG base-directory lookup of rivia's `user` module and `vfs.config_dir`, written from the
   rustdoc of src/sys/user.rs, src/sys/fs/path.rs (parse_paths), src/sys/fs/vfs.rs (config_dir),
   the XDG Base Directory Specification and the statement of C18.

   env : function from variable names (TLA+ strings) to values (character sequences); a variable
         that is not set is not in DOMAIN env.
   Every operator returns the SET of admissible outcomes.  The set is a singleton wherever the
   documents fix the answer; where they are silent or disagree (marked DECISION) every reading is
   admitted, so that neither raises an alarm.
   Outcomes: POk(v) / PErr(kind) of PathLex (the kind of an error is not documented: any error
   conforms to PErr), for vfs.config_dir POk(dir) / NoneR, for getrids pairs of decimal strings.
   Paths are compared the way Rust compares `Path`s: by components (SamePath). *)
EXTENDS PathLex

IsSet(env, n) == n \in DOMAIN env
SamePath(a, b) == CompsR(a) = CompsR(b)
SameList(a, b) == Len(a) = Len(b) /\ \A i \in 1..Len(a) : SamePath(a[i], b[i])
AnyErr == PErr("error")

(* ---- the documented defaults ---- *)
DotConfig  == <<".","c","o","n","f","i","g">>
DotCache   == <<".","c","a","c","h","e">>
LocalShare == <<".","l","o","c","a","l","/","s","h","a","r","e">>
LocalState == <<".","l","o","c","a","l","/","s","t","a","t","e">>
TmpDir     == <<"/","t","m","p">>
EtcXdg     == <<"/","e","t","c","/","x","d","g">>
UsrLocalShare == <<"/","u","s","r","/","l","o","c","a","l","/","s","h","a","r","e">>
UsrShare   == <<"/","u","s","r","/","s","h","a","r","e">>
DefaultConfigDirs == << EtcXdg >>
DefaultDataDirs   == << UsrLocalShare, UsrShare >>

(* ---- $HOME ---- *)
HomeDir(env) == IF IsSet(env, "HOME") THEN {POk(env["HOME"])} ELSE {AnyErr}

\* "$HOME/rel"
HomeRel(env, rel) ==
   IF ~IsSet(env, "HOME") THEN {AnyErr}                 \* no home, no default: an error (rustdoc: RvResult)
   ELSE IF env["HOME"] = <<>>
        \* DECISION: HOME set to the empty string is covered by no document: "$HOME/rel" read textually is
        \* "/rel", joined as paths it is "rel", and treating an empty HOME as no HOME is an error.
        THEN {POk(<<Sep>> \o rel), POk(rel), AnyErr}
   ELSE {POk(Mash(env["HOME"], rel))}

(* ---- XDG_*_HOME with the default under $HOME ---- *)
XdgHome(env, var, rel) ==
   IF ~IsSet(env, var) THEN HomeRel(env, rel)
   ELSE IF env[var] = <<>>
        \* DECISION: set-but-empty: the property says "the value when set", the XDG text says "if either not
        \* set or empty, a default equal to $HOME/... should be used": both are admitted.
        THEN {POk(<<>>)} \cup HomeRel(env, rel)
   ELSE IF ~IsAbs(env[var])
        \* DECISION: a relative value: the property says "the value when set", the XDG text says "all paths
        \* must be absolute; a relative path should be considered invalid and ignored": both are admitted.
        THEN {POk(env[var])} \cup HomeRel(env, rel)
   ELSE {POk(env[var])}

ConfigDir(env) == XdgHome(env, "XDG_CONFIG_HOME", DotConfig)
CacheDir(env)  == XdgHome(env, "XDG_CACHE_HOME", DotCache)
DataDir(env)   == XdgHome(env, "XDG_DATA_HOME", LocalShare)
StateDir(env)  == XdgHome(env, "XDG_STATE_HOME", LocalState)

\* runtime_dir is infallible: "Defaults to /tmp"
RuntimeDir(env) ==
   IF ~IsSet(env, "XDG_RUNTIME_DIR") THEN {POk(TmpDir)}
   ELSE IF env["XDG_RUNTIME_DIR"] = <<>> \/ ~IsAbs(env["XDG_RUNTIME_DIR"])
        THEN {POk(env["XDG_RUNTIME_DIR"]), POk(TmpDir)}      \* DECISION: empty / relative as for XdgHome
   ELSE {POk(env["XDG_RUNTIME_DIR"])}

(* ---- colon lists ---- *)
AbsOnly(ps) == SelectSeq(ps, IsAbs)
OrDefault(ps, default) == IF ps = <<>> THEN default ELSE ps
XdgList(env, var, default) ==
   IF ~IsSet(env, var) \/ env[var] = <<>> THEN {POk(default)}        \* "unset or empty": the default
   ELSE LET ps == ParsePaths(env[var]) IN
        IF ps = <<>>
        \* DECISION: a value made of separators only lists no directory; it is neither "empty" nor a list of
        \* directories: the default and the empty list are both admitted.
        THEN {POk(default), POk(<<>>)}
        \* DECISION: relative entries: the property says "the listed directories in order", the XDG text says
        \* relative paths are invalid and should be ignored: both are admitted.
        ELSE {POk(ps), POk(OrDefault(AbsOnly(ps), default))}

SysConfigDirs(env) == XdgList(env, "XDG_CONFIG_DIRS", DefaultConfigDirs)
SysDataDirs(env)   == XdgList(env, "XDG_DATA_DIRS", DefaultDataDirs)

\* path_dirs: "Returns the current user's path directories"; no default is documented
PathDirs(env) ==
   IF ~IsSet(env, "PATH")
   THEN {AnyErr, POk(<<>>)}      \* DECISION: PATH unset: the rustdoc is silent; an error or no directories
   ELSE {POk(ParsePaths(env["PATH"]))}       \* relative entries are legitimate in PATH

(* ---- vfs.config_dir(name) ----
   existsSet: the set of paths that exist on that filesystem (clean absolute character sequences). *)
NoneR == [o |-> "none", v |-> <<>>]
\* "contains name on that filesystem": the filesystem resolves the spelling of the directory lexically (every vfs method cleans its
\* argument), so a candidate spelled with "." / ".." holds the file when the cleaned path exists
Holds(d, existsSet, name) == \E x \in existsSet : SamePath(x, Clean(Mash(d, name)))
\* the search order: $XDG_CONFIG_HOME (user::config_dir) first, then $XDG_CONFIG_DIRS
\* DECISION: when the config home cannot be determined (an error outcome of ConfigDir) the search has no first
\* entry but still "searches ... then the $XDG_CONFIG_DIRS directories" (property: None only "when none does").
CandidateLists(env) ==
   { (IF c.o = "ok" THEN << c.v >> ELSE <<>>) \o (IF s.o = "ok" THEN s.v ELSE <<>>) : c \in ConfigDir(env), s \in SysConfigDirs(env) }
FirstHit(cands, existsSet, name) ==
   LET H == {i \in 1..Len(cands) : Holds(cands[i], existsSet, name)} IN
   IF H = {} THEN NoneR ELSE POk(cands[CHOOSE i \in H : \A j \in H : i <= j])
VfsConfigDir(env, existsSet, name) == { FirstHit(c, existsSet, name) : c \in CandidateLists(env) }

(* ---- getrids(uid, gid): ids are decimal digit strings (u32 does not fit a TLC integer) ---- *)
Digits == <<"0","1","2","3","4","5","6","7","8","9">>
IsDigit(c) == \E i \in 1..10 : Digits[i] = c
DigitVal(c) == (CHOOSE i \in 1..10 : Digits[i] = c) - 1
IsDigits(s) == s # <<>> /\ \A i \in 1..Len(s) : IsDigit(s[i])
Canon(s) == LET t == StripLeading(s, "0") IN IF t = <<>> THEN <<"0">> ELSE t
RECURSIVE LexLE(_, _)          \* equal lengths
LexLE(a, b) == IF a = <<>> THEN TRUE
               ELSE IF DigitVal(a[1]) < DigitVal(b[1]) THEN TRUE
               ELSE IF DigitVal(a[1]) > DigitVal(b[1]) THEN FALSE
               ELSE LexLE(Tail(a), Tail(b))
U32Max == <<"4","2","9","4","9","6","7","2","9","5">>
FitsU32(s) == LET t == Canon(s) IN Len(t) < 10 \/ (Len(t) = 10 /\ LexLE(t, U32Max))
Numeric(s) == IsDigits(s) /\ FitsU32(s)         \* "numeric": a decimal number that is a valid id
PlusNumeric(s) == s # <<>> /\ s[1] = "+" /\ Numeric(Tail(s))
NumVal(s) == IF Numeric(s) THEN Canon(s) ELSE Canon(Tail(s))
GetRids(env, uid, gid) ==
   IF uid = <<"0">> /\ IsSet(env, "SUDO_UID") /\ IsSet(env, "SUDO_GID")
   THEN LET u == env["SUDO_UID"]  g == env["SUDO_GID"] IN
        IF Numeric(u) /\ Numeric(g) THEN { <<Canon(u), Canon(g)>> }
        ELSE IF (Numeric(u) \/ PlusNumeric(u)) /\ (Numeric(g) \/ PlusNumeric(g))
             \* DECISION: a number written with a leading "+" (sudo never writes one): numeric or junk, both admitted
             THEN { <<uid, gid>>, <<NumVal(u), NumVal(g)>> }
        ELSE { <<uid, gid>> }
   ELSE { <<uid, gid>> }
=============================================================================
