CONSTANTS
  Names = {"a", "ab", "c"}
  MaxDepth = 4
SPECIFICATION Spec
INVARIANTS Shape RoundTrip DotDotCount InputsClean
CHECK_DEADLOCK FALSE
