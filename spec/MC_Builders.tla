------------------------------- MODULE MC_Builders -------------------------------
(* The option builders Chmod / Chown / Copier as state machines: every builder method is an action on the
   option record, a program is any sequence of up to MaxSteps calls.  Checked: the record reached equals the
   fold used by the validator (VfsJudge!ChmodFold / ChownFold / CopyFold) - i.e. the last setter of each option
   wins and nothing else moves - plus the laws the rustdoc states: all(m) sets both kinds, dirs/files only their
   own; Copier.chmod_dirs / chmod_files / chmod_all are mutually exclusive (the last one wins entirely);
   follow / recurse toggles are idempotent. *)
EXTENDS VfsJudge
CONSTANTS MaxSteps, Modes
VARIABLES ch, co, cp, prog
vars == <<ch, co, cp, prog>>
Ch0 == [dm |-> 0, fm |-> 0, sym |-> <<>>, recursive |-> TRUE, follow |-> FALSE]
Co0 == [setu |-> FALSE, setg |-> FALSE, uid |-> 0, gid |-> 0, recursive |-> TRUE, follow |-> FALSE]
Cp0 == [dm |-> 0, fm |-> 0, follow |-> FALSE]
Init == ch = Ch0 /\ co = Co0 /\ cp = Cp0 /\ prog = <<>>
Step(k, hi, lo) == <<k, hi, lo>>
Can == Len(prog) < MaxSteps
\* one action per builder method (the same step is fed to all three builders when its code exists there)
All(m)     == Can /\ ch' = [ch EXCEPT !.dm = m, !.fm = m] /\ cp' = [cp EXCEPT !.dm = m, !.fm = m] /\ co' = [co EXCEPT !.setu = TRUE, !.uid = m \div 256]
              /\ prog' = Append(prog, Step(1, m \div 256, m % 256))
Dirs(m)    == Can /\ ch' = [ch EXCEPT !.dm = m] /\ cp' = [cp EXCEPT !.dm = m, !.fm = 0] /\ co' = [co EXCEPT !.setg = TRUE, !.gid = m % 256]
              /\ prog' = Append(prog, Step(2, m \div 256, m % 256))
Files(m)   == Can /\ ch' = [ch EXCEPT !.fm = m] /\ cp' = [cp EXCEPT !.dm = 0, !.fm = m]
              /\ co' = [co EXCEPT !.setu = TRUE, !.uid = m \div 256, !.setg = TRUE, !.gid = m % 256]
              /\ prog' = Append(prog, Step(3, m \div 256, m % 256))
Follow     == Can /\ ch' = [ch EXCEPT !.follow = TRUE] /\ co' = [co EXCEPT !.follow = TRUE] /\ cp' = [cp EXCEPT !.follow = TRUE]
              /\ prog' = Append(prog, Step(4, 0, 0))
Recurse    == Can /\ ch' = [ch EXCEPT !.recursive = TRUE] /\ co' = [co EXCEPT !.recursive = TRUE] /\ cp' = [cp EXCEPT !.follow = FALSE]
              /\ prog' = Append(prog, Step(5, 0, 0))
NoRecurse  == Can /\ ch' = [ch EXCEPT !.recursive = FALSE] /\ co' = [co EXCEPT !.recursive = FALSE] /\ cp' = [cp EXCEPT !.follow = FALSE]
              /\ prog' = Append(prog, Step(6, 0, 0))
AllM == \E m \in Modes : All(m)
DirsM == \E m \in Modes : Dirs(m)
FilesM == \E m \in Modes : Files(m)
Next == AllM \/ DirsM \/ FilesM \/ Follow \/ Recurse \/ NoRecurse
Spec == Init /\ [][Next]_vars

FoldAgrees == /\ ch = ChmodFold(Ch0, prog) /\ co = ChownFold(Co0, prog) /\ cp = CopyFold(Cp0, prog)
\* Copier: the kind selection of the LAST chmod_* call wins entirely
LastMode(p) == LET I == {i \in 1..Len(p) : p[i][1] \in {1, 2, 3}} IN IF I = {} THEN 0 ELSE CHOOSE i \in I : \A j \in I : j <= i
CopierExclusive == LET i == LastMode(prog) IN
   IF i = 0 THEN cp.dm = 0 /\ cp.fm = 0
   ELSE LET m == SeqArg(prog[i]) IN CASE prog[i][1] = 1 -> cp.dm = m /\ cp.fm = m [] prog[i][1] = 2 -> cp.dm = m /\ cp.fm = 0 [] OTHER -> cp.dm = 0 /\ cp.fm = m
\* Chmod: dirs and files are independent, all sets both
ChmodIndependent == [][(\E m \in Modes : Dirs(m)) => ch'.fm = ch.fm]_vars
TogglesIdempotent == [][Follow => (ch'.follow /\ co'.follow /\ cp'.follow)]_vars
=============================================================================
