SPECIFICATION Spec
CONSTANT Ids = {0, 1}
INVARIANT TypeOK DropIsFinal RoundTrip SudoUpRefused NoSudoNoChange
PROPERTY NoEscalation FailedCallAtomic PartialOnlyGids
CHECK_DEADLOCK FALSE
