CONSTANTS
  Threads = {1, 2, 3}
  Nesting = FALSE
SPECIFICATION Spec
INVARIANTS MutualExclusion NoNestedAcquire NoDeadlock
PROPERTY EveryAcquireEventuallyGranted
CHECK_DEADLOCK FALSE
