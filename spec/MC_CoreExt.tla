------------------------------- MODULE MC_CoreExt -------------------------------
(* Design-level check of the CoreExt operators that judge the implementation (C19).  TLC enumerates as
   initial states
     kind "slice": every length 0..MaxLen x every index pair l, r in -MaxIdx..MaxIdx - laws of Slice / Drop
                   (contiguous ascending sub-sequence, set characterisation of the inclusive range, clamping,
                   negative = from the end, emptiness, slice as two drops, drop ++ rest = whole, composition)
     kind "str"  : every pair of strings s (<= MaxS) and t (<= MaxT) over Alphabet - trim_suffix is inverse to
                   concatenation / identity otherwise / removes exactly one occurrence; size is additive
     kind "bool" : every string of <= 3 characters over BoolLetters and every string of 5 characters over the
                   letters of "false" in both cases - to_bool is false exactly on "", "0" and the 32 casings
     kind "tw"   : every sequence <= MaxTw over 0..3 x every threshold - and here the model really moves: the
                   documented adaptor (a Peekable with a one-item look-ahead slot, "take_while that does not
                   consume the first item where the predicate returns false") runs step by step; nothing is ever
                   lost, and when it stops its output equals the closed form TakeWhileP and the look-ahead slot
                   still holds the first failing item.
   These show that the operators used by Trace_CoreExt have the stated properties on ALL inputs of the bound. *)
EXTENDS CoreExt
CONSTANTS MaxLen, MaxIdx, MaxS, MaxT, MaxTw, Alphabet
VARIABLES kind, len, l, r, s, t, src, peeked, taken, stopped
vars == <<kind, len, l, r, s, t, src, peeked, taken, stopped>>

StrUpTo(A, n) == UNION {[1..k -> A] : k \in 0..n}
FalseLetters == {"f", "a", "l", "s", "e", "F", "A", "L", "S", "E"}
BoolLetters == FalseLetters \cup {"0", " "}
NoStr == s = <<>> /\ t = <<>>
NoIdx == len = 0 /\ l = 0 /\ r = 0
NoTw == src = <<>> /\ peeked = <<>> /\ taken = <<>> /\ stopped = FALSE
Init == \/ kind = "slice" /\ len \in 0..MaxLen /\ l \in -MaxIdx..MaxIdx /\ r \in -MaxIdx..MaxIdx /\ NoStr /\ NoTw
        \/ kind = "str" /\ s \in StrUpTo(Alphabet, MaxS) /\ t \in StrUpTo(Alphabet, MaxT) /\ NoIdx /\ NoTw
        \/ kind = "bool" /\ s \in (StrUpTo(BoolLetters, 3) \cup [1..5 -> FalseLetters]) /\ t = <<>> /\ NoIdx /\ NoTw
        \/ kind = "tw" /\ s \in StrUpTo(0..3, MaxTw) /\ l \in -1..3 /\ src = s /\ peeked = <<>> /\ taken = <<>> /\ stopped = FALSE
                       /\ len = 0 /\ r = 0 /\ t = <<>>

\* ---- the take_while_p adaptor as a machine (predicate: item <= l)
P(x) == x <= l
Keep == UNCHANGED <<kind, len, l, r, s, t>>
TwPeek == kind = "tw" /\ ~stopped /\ peeked = <<>> /\ src # <<>> /\ peeked' = <<Head(src)>> /\ src' = Tail(src) /\ UNCHANGED <<taken, stopped>> /\ Keep
TwYield == kind = "tw" /\ ~stopped /\ peeked # <<>> /\ (IF peeked # <<>> THEN P(peeked[1]) ELSE FALSE)
           /\ taken' = Append(taken, peeked[1]) /\ peeked' = <<>> /\ UNCHANGED <<src, stopped>> /\ Keep
TwStop == kind = "tw" /\ ~stopped /\ peeked # <<>> /\ (IF peeked # <<>> THEN ~P(peeked[1]) ELSE FALSE)
          /\ stopped' = TRUE /\ UNCHANGED <<src, peeked, taken>> /\ Keep                         \* None; the item stays in the slot
TwEnd == kind = "tw" /\ ~stopped /\ peeked = <<>> /\ src = <<>> /\ stopped' = TRUE /\ UNCHANGED <<src, peeked, taken>> /\ Keep
LawOnly == (kind # "tw" \/ stopped) /\ UNCHANGED vars
Next == TwPeek \/ TwYield \/ TwStop \/ TwEnd \/ LawOnly
Spec == Init /\ [][Next]_vars

TwNothingLost == kind = "tw" => taken \o peeked \o src = s
TwTakenGood == kind = "tw" => \A i \in DOMAIN taken : P(taken[i])
TwFinal == (kind = "tw" /\ stopped) => LET e == TakeWhileP(s, P) IN
              /\ taken = e.taken /\ peeked \o src = e.rest
              /\ (e.rest # <<>> => ~P(e.rest[1]) /\ peeked = <<e.rest[1]>>)                      \* first failing item unconsumed
              /\ \A k \in (Len(taken) + 1)..Len(s) : ~(\A i \in 1..k : P(s[i]))                   \* no longer prefix qualifies
Measure == 2 * Len(src) + Len(peeked) + (IF stopped THEN 0 ELSE 1)
TwProgress == [][Measure' < Measure]_vars                                                          \* the adaptor terminates

\* ---- Slice / Drop
W == Iota(len)
S == Slice(len, l, r)
Norm(i) == IF i < 0 THEN len + i ELSE i
RangeOf(q) == {q[i] : i \in DOMAIN q}
Ascending(q) == \A i \in 1..(Len(q) - 1) : q[i + 1] = q[i] + 1
IsSlice == kind = "slice"
SliceContiguous == IsSlice => Ascending(S) /\ RangeOf(S) \subseteq 0..(len - 1)                   \* a contiguous sub-sequence, whatever the indices
SliceRange == (IsSlice /\ InSliceDomain(len, l)) => RangeOf(S) = {x \in 0..(len - 1) : Norm(l) <= x /\ x <= Norm(r)}
SliceClamp == (IsSlice /\ r >= len) => S = Slice(len, l, -1)                                      \* beyond the end = up to the last item
SliceNegative == IsSlice => /\ (l < 0 /\ len + l >= 0 => S = Slice(len, len + l, r))
                            /\ (r < 0 /\ len + r >= 0 => S = Slice(len, l, len + r))
SliceEmpty == (IsSlice /\ InSliceDomain(len, l)) => (S = <<>> <=> (Norm(l) > Norm(r) \/ Norm(l) >= len \/ Norm(r) < 0))
SlicePoints == IsSlice => /\ (0 <= l /\ l < len => Slice(len, l, l) = <<l>>)
                          /\ (-len <= l /\ l < 0 => Slice(len, l, l) = <<len + l>>)
                          /\ Slice(len, 0, -1) = W /\ Slice(len, -len, len) = W
SliceIsTwoDrops == (IsSlice /\ InSliceDomain(len, l) /\ S # <<>>) =>
                      S = DropSeq(DropSeq(W, SliceLo(len, l)), -(len - 1 - SliceHi(len, r)))
\* drop(n) with n = l (and a second drop with r)
D == Drop(len, l)
DropSplit == IsSlice => /\ (l >= 0 => SubSeq(W, 1, Min(l, len)) \o D = W)                         \* exactly the first n items are gone
                        /\ (l < 0 => D \o SubSeq(W, Max(len + l, 0) + 1, len) = W)                \* exactly the last |n|
                        /\ Len(D) = Max(0, len - Abs(l))
                        /\ Drop(len, 0) = W
DropCompose == IsSlice => /\ ((l >= 0 /\ r >= 0) \/ (l <= 0 /\ r <= 0) => DropSeq(D, r) = Drop(len, l + r))
                          /\ DropSeq(D, r) = DropSeq(Drop(len, r), l)
DropIsSlice == IsSlice => /\ (l >= 0 => D = Slice(len, l, -1))
                          /\ (l < 0 => D = Slice(len, 0, l - 1))

\* ---- strings
Utf8Of(c) == IF c = "#" THEN <<195, 169>> ELSE IF c = "%" THEN <<230, 151, 165>> ELSE IF c = "&" THEN <<240, 157, 132, 158>> ELSE <<97>>
RECURSIVE Enc(_)
Enc(q) == IF q = <<>> THEN <<>> ELSE Utf8Of(q[1]) \o Enc(Tail(q))
IsStr == kind = "str"
TrimInverse == IsStr => TrimSuffixStr(s \o t, t) = s
TrimIdentity == IsStr => /\ (~EndsWithStr(s, t) => TrimSuffixStr(s, t) = s)
                         /\ TrimSuffixStr(s, <<>>) = s
TrimOnce == (IsStr /\ EndsWithStr(s, t)) => TrimSuffixStr(s, t) \o t = s /\ Len(TrimSuffixStr(s, t)) = Len(s) - Len(t)
SizeLaw == IsStr => Size(s \o t) = Size(s) + Size(t) /\ SizeUtf8(Enc(s)) = Size(s) /\ Size(<<>>) = 0
Casings == {c \in [1..5 -> FalseLetters] : \A i \in 1..5 : c[i] \in {FalseWord[i], CASE FalseWord[i] = "f" -> "F" [] FalseWord[i] = "a" -> "A"
                                                                       [] FalseWord[i] = "l" -> "L" [] FalseWord[i] = "s" -> "S" [] FalseWord[i] = "e" -> "E"}}
ToBoolLaw == kind \in {"str", "bool"} => (ToBool(s) = FALSE <=> (s = <<>> \/ s = <<"0">> \/ s \in Casings))
CasingsCount == Cardinality(Casings) = 32
=============================================================================
