INIT Init
NEXT NextP
INVARIANT Done
CHECK_DEADLOCK FALSE
