------------------------------- MODULE MC_PathLaws -------------------------------
(* Design-level check of the PathLex operators against the laws stated in C15: TLC
   enumerates every pair of strings (a, b) up to the bounds as initial states and
   evaluates each law.  This shows that the operators used to judge the
   implementation have the stated properties on ALL inputs of the bound, i.e. that
   the judge itself is not vacuous or inconsistent. *)
EXTENDS PathLex
CONSTANTS MaxA, MaxB, Alphabet
VARIABLES a, b
StrUpTo(n) == UNION {[1..k -> Alphabet] : k \in 0..n}
Init == a \in StrUpTo(MaxA) /\ b \in StrUpTo(MaxB)
Next == UNCHANGED <<a, b>>
Spec == Init /\ [][Next]_<<a, b>>

NoDots(cs) == SelectSeq(cs, LAMBDA c : c # Dot)
IsPrefixSeq(p, s) == Len(p) <= Len(s) /\ SubSeq(s, 1, Len(p)) = p

\* mash: components of d followed by those of p without leading separators; stays under d; no trailing separator
MashLaw == LET m == Mash(a, b) IN
   /\ (a # <<>> => /\ CompsR(m) = CompsR(a) \o NoDots(Comps(StripLeading(b, Sep)))
                   /\ IsPrefixSeq(CompsR(a), CompsR(m))
                   /\ IsAbs(m) = IsAbs(a))
   /\ (Len(m) > 1 => LastOf(m) # Sep)
   /\ ~Contains(m, <<Sep, Sep>>)
\* trims are inverse to concatenation and the identity otherwise
TrimLaw == /\ TrimPrefix(b \o a, b) = a
           /\ TrimSuffix(a \o b, b) = a
           /\ (~StartsWith(a, b) => TrimPrefix(a, b) = a)
           /\ (~EndsWith(a, b) => TrimSuffix(a, b) = a)
\* extension: on a path that ends with its file name the three pieces reassemble
ExtLaw == (HasExt(a) /\ EndsWith(a, FileName(a))) =>
             /\ TrimSuffix(a, <<".">> \o ExtOf(a)) \o <<".">> \o ExtOf(a) = a
             /\ ~Contains(ExtOf(a), <<".">>) /\ ~Contains(ExtOf(a), <<Sep>>)
\* dir/base, first/trim_first, last/trim_last split off exactly one component
SplitLaw == LET cr == CompsR(a) IN cr # <<>> =>
             /\ JoinR(FrontOf(cr) \o <<LastOf(cr)>>) = Normalize(a)
             /\ JoinR(<<Head(cr)>> \o Tail(cr)) = Normalize(a)
             /\ CompsR(Normalize(a)) = cr
\* containment predicates agree with each other
HasLaw == /\ (StartsWith(a, b) => Contains(a, b)) /\ (EndsWith(a, b) => Contains(a, b))
          /\ Contains(a \o b, b) /\ Contains(b \o a, b)
\* trim_protocol removes one scheme (through its "//") and nothing else
ProtoLaw == LET t == TrimProtocol(a) IN
             /\ EndsWith(a, t)
             /\ (t # a => \E sch \in Schemes : LowerS(SubSeq(a, 1, Len(a) - Len(t))) = sch)
             /\ (t = a => \A sch \in Schemes : ~StartsWith(LowerS(a), sch))
\* parse_paths: ':'-free non-empty pieces, in order
ParseLaw == LET ps == ParsePaths(a) IN
             /\ \A i \in 1..Len(ps) : ps[i] # <<>> /\ ~Contains(ps[i], <<":">>)
             /\ Flatten(ps, <<":">>) = Flatten(SplitOn(a, ":", <<>>, <<>>), <<":">>)
             /\ Len(SelectSeq(a, LAMBDA c : c # ":")) = Len(Flatten(ps, <<>>))
=============================================================================
