CONSTANTS
  MaxA = 7
  MaxB = 0
  Alphabet = {"/", ":", "f", "F", "t", "p"}
SPECIFICATION Spec
INVARIANTS ProtoLaw ParseLaw
CHECK_DEADLOCK FALSE
