------------------------------- MODULE Trace_Strings -------------------------------
(* Record validator for the pure path helpers (C14, C15, C16; C12 for panics).
   One record = one input (pair) with the output of every helper on it. *)
EXTENDS PathLex, Tally, Ascii, Json, IOUtils, Integers

Recs == ndJsonDeserialize(IOEnv.TRACE)

Flag(b, s) == IF b THEN s ELSE "-"
InClass(a, b) == << Flag(~IsAsciiStr(a) \/ ~IsAsciiStr(b), "nonascii"),
                    Flag(StartsWith(b, <<Sep, Sep>>), "b=//..") ,
                    Flag(HasExt(a) /\ ~EndsWith(a, FileName(a)), "a=name.ext+junk"),
                    Flag(HasExt(a) /\ LastDot(FileName(a)) = 2 /\ FileName(a)[1] = ".", "stem=.") >>   \* the path does not end with its file name ("a.b/", "a.b/.")
Bad(fn, law, r) == <<"BAD", fn, law>> \o InClass(r.a, r.b)
Panicked(r, fn) == r.o[fn].o = "panic"
IsOk(x) == x.o = "ok"
IsErr(x) == x.o # "ok" /\ x.o # "panic"
TrueV == <<"true">>
FalseV == <<"false">>
BoolV(b) == IF b THEN TrueV ELSE FalseV

\* a check is a pair <<fn, law, holds>>; failing checks become BAD classes
Chk(r, fn, law, holds) == IF Panicked(r, fn) THEN << Bad(fn, "panic", r) >> ELSE IF holds THEN <<>> ELSE << Bad(fn, law, r) >>
Same(r, f, g) == Chk(r, g, "route-differs", r.o[f] = r.o[g])

JudgeC(r) == LET a == r.a IN
     Chk(r, "clean", "=Clean", IsOk(r.o.clean) /\ r.o.clean.v = Clean(a))
  \o Chk(r, "clean", "cleanform", IsOk(r.o.clean) /\ IsCleanForm(r.o.clean.v) /\ IsAbs(r.o.clean.v) = IsAbs(a))
  \o Same(r, "clean", "x_clean")

JudgeU(r) == LET a == r.a  cr == CompsR(a)  o == r.o IN
     JudgeC(r)
  \o Chk(r, "base", "last-component", IF cr = <<>> THEN IsErr(o.base) ELSE IsOk(o.base) /\ o.base.v = LastOf(cr))
  \o Chk(r, "last", "=base", o.last = o.base)
  \o Chk(r, "first", "first-component", IF cr = <<>> THEN IsErr(o.first) ELSE IsOk(o.first) /\ o.first.v = Head(cr))
  \o Chk(r, "dir", "all-but-last", IF cr = <<>> \/ cr = << <<Sep>> >> THEN o.dir.o = "Path::ParentNotFound"
                                   ELSE IsOk(o.dir) /\ CompsR(o.dir.v) = FrontOf(cr))
  \o Chk(r, "trim_first", "all-but-first", IsOk(o.trim_first) /\ CompsR(o.trim_first.v) = (IF cr = <<>> THEN <<>> ELSE Tail(cr)))
  \o Chk(r, "trim_last", "all-but-last", IsOk(o.trim_last) /\ CompsR(o.trim_last.v) = (IF cr = <<>> THEN <<>> ELSE FrontOf(cr)))
  \o Chk(r, "ext", "=extension", IF HasExt(a) THEN IsOk(o.ext) /\ o.ext.v = ExtOf(a) ELSE IsErr(o.ext))
  \o Chk(r, "trim_ext", "trim_ext+.+ext=p", IsOk(o.trim_ext) /\ (IF IsOk(o.ext) THEN o.trim_ext.v \o <<".">> \o o.ext.v = a ELSE o.trim_ext.v = a))
  \o Chk(r, "name", "base-without-ext", IF cr = <<>> THEN IsErr(o.name)
                                        ELSE IsOk(o.name) /\ IsOk(o.base) /\ (IF IsOk(o.ext) THEN o.name.v \o <<".">> \o o.ext.v = o.base.v ELSE o.name.v = o.base.v))
  \o Chk(r, "trim_protocol", "=TrimProtocol", IsOk(o.trim_protocol) /\ o.trim_protocol.v = TrimProtocol(a))
  \o Chk(r, "is_empty", "iff-empty", o.is_empty.v = BoolV(a = <<>>))
  \o Chk(r, "parse_paths", "split-colon", IsOk(o.parse_paths) /\ o.parse_paths.v = ParsePaths(a))
  \o Same(r, "trim_protocol", "x_trim_protocol") \o Same(r, "base", "x_base") \o Same(r, "name", "x_name")

JudgeB(r) == LET a == r.a  b == r.b  o == r.o IN
     Chk(r, "mash", "=Mash", IsOk(o.mash) /\ o.mash.v = Mash(a, b))
  \o Chk(r, "trim_prefix", "=TrimPrefix", IsOk(o.trim_prefix) /\ o.trim_prefix.v = TrimPrefix(a, b))
  \o Chk(r, "trim_suffix", "=TrimSuffix", IsOk(o.trim_suffix) /\ o.trim_suffix.v = TrimSuffix(a, b))
  \o Chk(r, "s_trim_suffix", "=TrimSuffix", IsOk(o.s_trim_suffix) /\ o.s_trim_suffix.v = TrimSuffix(a, b))
  \o Chk(r, "has", "contains", o.has.v = BoolV(Contains(a, b)))
  \o Chk(r, "has_prefix", "startswith", o.has_prefix.v = BoolV(StartsWith(a, b)))
  \o Chk(r, "has_suffix", "endswith", o.has_suffix.v = BoolV(EndsWith(a, b)))
  \o Chk(r, "concat", "append", IsOk(o.concat) /\ o.concat.v = a \o b)
  \o Same(r, "mash", "x_mash") \o Same(r, "trim_prefix", "x_trim_prefix") \o Same(r, "trim_suffix", "x_trim_suffix")

\* C16: p, b clean; p # b -> exactly the navigation; p = b -> joining the result onto b still yields p
RelOK(p, b, v) == IF p # b THEN v = Relative(p, b)
                  ELSE v = p \/ Clean(b \o <<Sep>> \o v) = p
JudgeR(r) == LET o == r.o IN
     Chk(r, "relative", IF IsAbs(r.a) THEN "navigation" ELSE "navigation(relative operands)", IsOk(o.relative) /\ RelOK(r.a, r.b, o.relative.v))
  \o Same(r, "relative", "x_relative")

\* a record is non-trivial when the helper had something to do
NT(r) == CASE r.k = "c" -> IF r.o.clean.v # r.a THEN "nt" ELSE "tr"
           [] r.k = "u" -> IF Len(CompsR(r.a)) > 1 THEN "nt" ELSE "tr"
           [] r.k = "b" -> IF r.b # <<>> /\ Contains(r.a, r.b) THEN "nt" ELSE "tr"
           [] r.k = "r" -> IF r.a # r.b THEN "nt" ELSE "tr"
Judge(r) == CASE r.k = "c" -> JudgeC(r) [] r.k = "u" -> JudgeU(r) [] r.k = "b" -> JudgeB(r) [] r.k = "r" -> JudgeR(r)

VARIABLES l
Init == l = 1 /\ TLCSet(1, <<>>)
Next == /\ l <= Len(Recs)
        /\ LET j == Judge(Recs[l]) IN TLCSet(1, UpdAll(TLCGet(1), IF j = <<>> THEN << <<"ok", Recs[l].k, NT(Recs[l])>> >> ELSE j, l))
        /\ l' = l + 1
Done == (l = Len(Recs) + 1) => JsonSerialize(IOEnv.OUT, [checked |-> Len(Recs), classes |-> TLCGet(1)])
Spec == Init /\ [][Next]_l
=============================================================================
