------------------------------- MODULE Trace_Handle -------------------------------
(* C07 - validator of the sequences logged by harness/src/bin/handles.rs: every record is one operation
   sequence on a REAL handle (Memfs / Stdfs); it is replayed step by step through the operators of Handle.
   The first diverging step gives the class (= finding signature) and ends the judgement of the record
   (afterwards the states of model and implementation differ, nothing further can be concluded).
     k = "rs": read/seek steps against Step            k = "w": write/flush/drop against Contract
     k = "w2": two append handles on one file - outside the single-handle statement of C07, classified
               "skip" (informational: does O_APPEND hold?), only a panic is BAD there. *)
EXTENDS Handle, Tally, Json, IOUtils, TLC

Recs == ndJsonDeserialize(IOEnv.TRACE)
Who(r) == r.k \o ":" \o r.be
Bad(r, law, flags) == << <<"BAD", Who(r), law>> \o flags >>

(* ------------------------------ read / seek ------------------------------ *)
TargetClass(h, op) == LET t == Target(h, op) IN IF t < 0 THEN "target<0" ELSE IF t <= Len(h.data) THEN "target<=len" ELSE "target>len"
ReqClass(op) == IF op.n = 0 THEN "n=0" ELSE "n>0"
\* prev = what the previous step was ("first", "after-read", "after-seek", "after-seek-error"): a seek error that moved
\* the position shows up as a divergence of the NEXT step, flagged "after-seek-error" (otherwise the flag is "-")
PrevF(prev) == IF prev = "after-seek-error" THEN prev ELSE "-"
RECURSIVE WalkR(_, _, _, _, _)
WalkR(r, h, i, prev, edge) ==
  IF i > Len(r.ops) THEN << <<"ok", Who(r), IF edge THEN "nt" ELSE "tr">> >>
  ELSE LET op == r.ops[i]  got == r.res[i]  e == Step(h, op) IN
    IF op.op = "read" THEN
      LET fl == <<PosClass(h), ReqClass(op), PrevF(prev)>> IN
      IF got.o = "panic" THEN Bad(r, "read-panic", fl)
      ELSE IF got.o # "ok" THEN Bad(r, "read-error", fl)
      ELSE IF got.n > op.n THEN Bad(r, "read-count-exceeds-buffer", fl)
      ELSE IF got.n > e.n THEN Bad(r, "read-beyond-end", fl)
      ELSE IF got.n < e.n THEN Bad(r, "read-short-before-end", fl)
      ELSE IF got.v # e.bytes THEN Bad(r, "read-wrong-bytes", fl)
      ELSE WalkR(r, e.h, i + 1, "after-read", edge \/ e.n < op.n \/ h.pos >= Len(h.data))
    ELSE
      LET fl == <<op.op, TargetClass(h, op), PosClass(h), PrevF(prev)>> IN
      IF got.o = "panic" THEN Bad(r, "seek-panic", fl)
      ELSE IF e.ok THEN (IF got.o # "ok" THEN Bad(r, "seek-rejects-valid-target", fl)
                         ELSE IF got.n # e.n THEN Bad(r, "seek-wrong-position", fl)
                         ELSE WalkR(r, e.h, i + 1, "after-seek", edge \/ e.n > Len(h.data)))
      ELSE (IF got.o = "ok" THEN Bad(r, "seek-negative-accepted", fl)
            ELSE WalkR(r, e.h, i + 1, "after-seek-error", TRUE))
JudgeRS(r) ==
  IF r.open.o # "ok" THEN Bad(r, "open-failed", <<r.open.o>>)
  ELSE IF r.pre # r.data THEN Bad(r, "setup-content", <<>>)
  ELSE IF Len(r.res) # Len(r.ops) THEN Bad(r, "log-incomplete", <<>>)
  ELSE WalkR(r, [data |-> r.data, pos |-> 0], 1, "first", FALSE)

(* ------------------------------ write / flush / drop ------------------------------ *)
BaseClass(r) == IF r.ex = <<"false">> THEN "absent" ELSE IF r.base = <<>> THEN "empty-base" ELSE "base"
Rel(r, c, e) == IF c = <<-1>> THEN "unreadable"
                ELSE IF IsPrefix(c, e) THEN "bytes-missing"
                ELSE IF IsPrefix(e, c) THEN "extra-bytes"
                ELSE IF r.mode = "append" /\ ~IsPrefix(r.base, c) THEN "prefix-altered"
                ELSE "different"
\* written = bytes accepted so far, fl = Len(written) at the last flush
RECURSIVE WalkW(_, _, _, _)
WalkW(r, written, fl, i) ==
  IF i > Len(r.ops) THEN << <<"ok", Who(r) \o ":" \o r.mode, IF written # <<>> THEN "nt" ELSE "tr">> >>
  ELSE LET op == r.ops[i]  got == r.res[i]
           pend == IF Len(written) > fl THEN "pending" ELSE "nothing-pending"
           flags == <<r.mode, BaseClass(r), pend>>
           want == Contract(r.mode, r.base, written) IN
    IF got.o = "panic" THEN Bad(r, op.op \o "-panic", flags)
    ELSE IF op.op = "write" THEN
      (IF got.o # "ok" THEN Bad(r, "write-error", flags \o <<got.o>>)
       ELSE IF got.n < 0 \/ got.n > Len(op.d) THEN Bad(r, "write-count-out-of-range", flags)
       ELSE WalkW(r, written \o SubSeq(op.d, 1, got.n), fl, i + 1))
    ELSE IF op.op = "flush" THEN
      (IF got.o # "ok" THEN Bad(r, "flush-error", flags \o <<got.o>>)
       ELSE IF got.c # want THEN Bad(r, "flush-not-visible", flags \o <<Rel(r, got.c, want)>>)
       ELSE WalkW(r, written, Len(written), i + 1))
    ELSE (IF got.c # want THEN Bad(r, "drop-not-persisted", flags \o <<Rel(r, got.c, want)>>)
          ELSE WalkW(r, written, Len(written), i + 1))
JudgeW(r) ==
  IF r.open.o # "ok" THEN Bad(r, "open-failed", <<r.mode, BaseClass(r), r.open.o>>)
  ELSE IF r.pre # r.base THEN Bad(r, "setup-content", <<>>)
  ELSE IF Len(r.res) # Len(r.ops) THEN Bad(r, "log-incomplete", <<>>)
  ELSE WalkW(r, <<>>, 0, 1)

(* ------------------------------ two append handles (informational) ------------------------------ *)
\* On the real filesystem an append handle is O_APPEND ("appends to it"): every write lands at the end whatever other appenders did,
\* so the content only grows and ends as base + all writes - binding for Stdfs.  Memfs' append handles work on a private copy of the
\* file and replace it at flush (recorded deviation, DESIGN 3.6): informational there.
Info(r, what) == IF r.be = "stdfs" /\ what \notin {"o_append-holds", "setup-or-open-failed", "write-error"}
                 THEN << <<"BAD", "w2:stdfs", "append-handle-is-not-append-only", what>> >>
                 ELSE << <<IF r.be = "stdfs" /\ what = "o_append-holds" THEN "ok" ELSE "skip", "two-append-handles", r.be, what>> >>
\* wr = <<written through 1, written through 2>>, lastc = content at the previous observation
RECURSIVE WalkW2(_, _, _, _)
WalkW2(r, wr, lastc, i) ==
  IF i > Len(r.ops) THEN (IF IsPrefix(r.base, lastc) /\ IsShuffle(SubSeq(lastc, Len(r.base) + 1, Len(lastc)), wr[1], wr[2])
                          THEN Info(r, "o_append-holds") ELSE Info(r, "final-content-is-not-base+all-writes"))
  ELSE LET op == r.ops[i]  got == r.res[i]  me == op.h  other == 3 - op.h IN
    IF got.o = "panic" THEN Bad(r, op.op \o "-panic", <<"two-handles">>)
    ELSE IF op.op = "write" THEN
      (IF got.o # "ok" \/ got.n < 0 \/ got.n > Len(op.d) THEN Info(r, "write-error")
       ELSE WalkW2(r, [wr EXCEPT ![me] = @ \o SubSeq(op.d, 1, got.n)], lastc, i + 1))
    ELSE LET c == got.c IN
      IF ~IsPrefix(lastc, c) THEN Info(r, "visible-bytes-lost-at-" \o op.op)          \* O_APPEND: content only grows
      ELSE IF ~(IsPrefix(r.base, c) /\ \E k \in 0..Len(wr[other]) :
                  IsShuffle(SubSeq(c, Len(r.base) + 1, Len(c)), wr[me], SubSeq(wr[other], 1, k)))
           THEN Info(r, "own-bytes-not-visible-at-" \o op.op)
      ELSE WalkW2(r, wr, c, i + 1)
JudgeW2(r) ==
  IF r.open.o # "ok" \/ r.pre # r.base \/ Len(r.res) # Len(r.ops) THEN Info(r, "setup-or-open-failed")
  ELSE WalkW2(r, << <<>>, <<>> >>, r.base, 1)

\* C13: the same sequence on a backend used directly and through the Vfs enum: identical transcripts (results of every call, what
\* an independent observer sees after every write / flush / drop), and the direct one is itself held to the handle contract
FirstDiff(a, b) == IF Len(a) # Len(b) THEN "length" ELSE LET D == {i \in 1..Len(a) : a[i] # b[i]} IN
                   IF D = {} THEN "-" ELSE LET i == CHOOSE x \in D : \A y \in D : x <= y IN
                   IF a[i].o # b[i].o THEN "result" ELSE IF "n" \in DOMAIN a[i] /\ a[i].n # b[i].n THEN "count" ELSE "visible-content"
JudgeWR(r) ==
   LET d == r.direct  v == r.via
       \* "rw" (a read handle across a rewrite of its file): the reference leaves the bytes open, only the two routes must agree
       base == IF r.what = "w" THEN JudgeW(d) ELSE IF r.what = "rw" THEN << <<"ok", "rw", "nt">> >> ELSE JudgeRS(d) IN
   IF d = v THEN [i \in 1..Len(base) |-> IF base[i][1] = "ok" THEN <<"ok", "route:" \o r.what \o ":" \o r.be, base[i][Len(base[i])]>> ELSE base[i]]
   ELSE << <<"BAD", "route", r.be, r.what, IF d.open # v.open THEN "open" ELSE FirstDiff(d.res, v.res)>> >>
\* flush under contention: every (write .. flush, read back) of a thread's own file shows exactly what was written so far
JudgeWC(r) == IF \E i \in 1..Len(r.pairs) : r.pairs[i].ok = "panic" THEN << <<"BAD", "wc", r.be, "panic">> >>
              ELSE IF \E i \in 1..Len(r.pairs) : r.pairs[i].ok # "t" THEN << <<"BAD", "wc", r.be, "flush-returned-ok-but-the-data-is-not-visible">> >>
              ELSE << <<"ok", "wc:" \o r.be, "nt">> >>
Judge(r) == CASE r.k = "wc" -> JudgeWC(r) [] r.k = "rs" -> JudgeRS(r) [] r.k = "w" -> JudgeW(r) [] r.k = "w2" -> JudgeW2(r) [] r.k = "wr" -> JudgeWR(r)

VARIABLES l
Init == l = 1 /\ TLCSet(1, <<>>)
Next == /\ l <= Len(Recs)
        /\ TLCSet(1, UpdAll(TLCGet(1), Judge(Recs[l]), l))
        /\ l' = l + 1
Done == (l = Len(Recs) + 1) => JsonSerialize(IOEnv.OUT, [checked |-> Len(Recs), classes |-> TLCGet(1)])
Spec == Init /\ [][Next]_l
=============================================================================
