------------------------------- MODULE MC_Traversal -------------------------------
(* Design-level exploration of the traversal machine of Traversal.tla (C08).
   Initial states: every tree over the names of NamesSeq (index = name order) with depth <= 2 and at most
   MaxLinks links (a link may point to any path of the namespace incl. the root, itself, another link -
   self and mutual cycles, dangling links - as long as the target path does not lead *through* a link),
   x every existing root x the option cross-product
      filter {none, dirs, files, links(custom)} x follow x min 0..2 x max {0,1,2,unbounded} (both builder
      call orders where they differ) x contents_first x sort {none, name, dirs_first, files_first},
   thinned systematically by OptStride (1 = everything; k = every k-th combination, the phase rotating
   with tree and root so that every combination still meets many trees).
   Checked: termination (step counter bounded by 5 * visits + 1, no deadlock before `done`); at the end
   Bag(out) = Selected, ValidOrder(out), out \in AllOuts, out = Expected when the sort decides everything,
   LinkLooping exactly on followed cycles, parent before content (after it with contents_first), sibling
   order and grouping; while running: nothing rejected by the filter is ever yielded, the listing stack
   never exceeds max_depth.  Lemmas over the initial states: AllOuts = the sequences ValidOrder accepts
   (on configurations with at most PermMax emitting visits), Expected is admissible also when nothing is sorted,
   listing helpers = children / descendants. *)
EXTENDS Traversal
CONSTANTS MaxLinks, OptStride, LinkStride, PermMax

NamesSeq == <<"a", "b">>
NameSet == {NamesSeq[i] : i \in 1..Len(NamesSeq)}
Rk == [n \in NameSet \cup {""} |-> IF n = "" THEN 0 ELSE CHOOSE i \in 1..Len(NamesSeq) : NamesSeq[i] = n]
P1 == {<<n>> : n \in NameSet}
P2 == {<<n, m>> : n \in NameSet, m \in NameSet}
AllP == {<<>>} \cup P1 \cup P2

(* ---- trees ---- *)
KindMaps == {K \in [P1 \cup P2 -> {"absent", "file", "dir", "link"}] :
               /\ \A q \in P2 : K[q] # "absent" => K[Front(q)] = "dir"
               /\ Cardinality({q \in P1 \cup P2 : K[q] = "link"}) <= MaxLinks}
LinkPos(K) == {q \in P1 \cup P2 : K[q] = "link"}
\* a target may not lead through a link (the tree model has no entry below a link)
TargetOK(K, t) == \A i \in 1..(Len(t) - 1) : K[SubSeq(t, 1, i)] # "link"
TargetMaps(K) == {T \in [LinkPos(K) -> AllP] : \A q \in LinkPos(K) : TargetOK(K, T[q])}
RECURSIVE Chase(_, _, _, _)
Chase(K, T, p, n) == IF p = <<>> THEN "dir" ELSE IF K[p] = "absent" THEN "none" ELSE IF K[p] # "link" THEN K[p]
                     ELSE IF n = 0 THEN "none" ELSE Chase(K, T, T[p], n - 1)
MkTree(K, T) == [q \in {<<>>} \cup {x \in P1 \cup P2 : K[x] # "absent"} |->
                   IF q = <<>> THEN [k |-> "dir", t |-> <<>>, tk |-> "-"]
                   ELSE IF K[q] = "link" THEN [k |-> "link", t |-> T[q], tk |-> Chase(K, T, T[q], 6)]
                   ELSE [k |-> K[q], t |-> <<>>, tk |-> "-"]]
Trees == UNION {{MkTree(K, T) : T \in TargetMaps(K)} : K \in KindMaps}
NLinks(fs) == Cardinality({q \in DOMAIN fs : fs[q].k = "link"})

(* ---- options ---- *)
Filts == <<"none", "dirs", "files", "links">>
Sorts == <<"none", "name", "dirs_first", "files_first">>
Maxes == <<0, 1, 2, MAXD>>
\* combination number i in 0..1535 -> options (decoded arithmetically: thinning picks numbers, not records)
OptAt(i) == [filt |-> Filts[(i % 4) + 1], sort |-> Sorts[((i \div 4) % 4) + 1], cf |-> ((i \div 16) % 2) = 1, follow |-> ((i \div 32) % 2) = 1,
             min |-> (i \div 64) % 3, max |-> Maxes[((i \div 192) % 4) + 1], ord |-> IF ((i \div 768) % 2) = 1 THEN "max" ELSE "min", rk |-> Rk]
NOpts == 1536
\* the call order only matters when min > max
OptValid(o) == o.ord = "max" => o.min > o.max
TreeIx(fs) == LET W(q) == IF q \notin DOMAIN fs THEN 0 ELSE CASE fs[q].k = "file" -> 1 [] fs[q].k = "dir" -> 2 [] OTHER -> 3 + Len(fs[q].t)
              IN W(<<"a">>) + 3 * W(<<"b">>) + 5 * W(<<"a", "a">>) + 7 * W(<<"a", "b">>) + 11 * W(<<"b", "a">>) + 13 * W(<<"b", "b">>)
Stride(fs) == IF NLinks(fs) = 0 THEN OptStride ELSE LinkStride

\* two-level start: an initial state fixes the tree only (nv = 0 marks it; `done` keeps the machine quiet);
\* Setup - explored in parallel by the workers - picks root and options
NoOpts == [filt |-> "none", follow |-> FALSE, min |-> 0, max |-> 0, ord |-> "min", cf |-> FALSE, sort |-> "none", rk |-> Rk]
Pre == cfg.nv = 0
Init == /\ \E fs \in Trees : cfg = [fs |-> fs, root |-> <<>>, o |-> NoOpts, nv |-> 0]
        /\ cur = Off /\ stack = <<>> /\ deferred = <<>> /\ out = <<>> /\ done = TRUE /\ steps = 0
Setup == /\ Pre
         /\ LET t == TreeIx(cfg.fs)  st == Stride(cfg.fs) IN
            \E r \in DOMAIN cfg.fs :
              LET off == (t + Len(r) + (IF r # <<>> /\ r[1] = "b" THEN 3 ELSE 0)) % st IN
              \E m \in 0..((NOpts - 1 - off) \div st) :
                LET o == OptAt(st * m + off) IN
                /\ OptValid(o)
                /\ cfg' = MkCfg(cfg.fs, r, o)
                /\ cur' = Hand(EntryOf(cfg.fs, r, Norm(o)), 0)
         /\ done' = FALSE /\ UNCHANGED <<stack, deferred, out, steps>>
Next == \/ Setup \/ LoopError \/ Yield \/ SkipDepth \/ SkipFilter \/ Defer \/ Enter \/ PickAny \/ PickSorted
        \/ EmitDeferred \/ Leave \/ Finish \/ Idle
Spec == Init /\ [][Next]_vars

(* ---- invariants ---- *)
Fs == cfg.fs
O == cfg.o
Terminates == Pre \/ steps <= 5 * cfg.nv + 1
NothingRejected == Pre \/ \A i \in 1..Len(out) : out[i].e = "" => PassLab(out[i], O)
StackBounded == Pre \/ (Len(stack) <= O.max /\ Len(deferred) <= Len(stack) + 1)
CountERR(s) == Cardinality({i \in 1..Len(s) : s[i].e # ""})
EndBag == (done /\ ~Pre) => BagOfSeq(out) = SelectedN(Fs, cfg.root, O)
EndValid == (done /\ ~Pre) => ValidOrderN(out, Fs, cfg.root, O)
EndAllOuts == (done /\ ~Pre) => out \in AllOuts(Fs, cfg.root, O)
EndExpected == (done /\ ~Pre /\ UniqueKeys(Fs, cfg.root, O)) => out = Expected(Fs, cfg.root, O)
EndLoop == (done /\ ~Pre) => /\ CountERR(out) = LoopCount(Fs, cfg.root, O)
                   /\ (~O.follow => CountERR(out) = 0)
                   /\ deferred = <<>>
\* independent plain formulations for traversals that do not follow links (all reported paths distinct)
EndParentChild == (done /\ ~Pre /\ ~O.follow) => \A i, j \in 1..Len(out) :
                     (i # j /\ IsPrefix(out[i].p, out[j].p)) => IF O.cf THEN j < i ELSE i < j
LabLess(x, y) == Rk[IF x.p = <<>> THEN "" ELSE Last(x.p)] < Rk[IF y.p = <<>> THEN "" ELSE Last(y.p)]
LabBefore(x, y) == CASE O.sort = "name" -> LabLess(x, y)
                     [] O.sort = "dirs_first" -> (x.d = "t" /\ y.d # "t") \/ (x.d = y.d /\ LabLess(x, y))
                     [] O.sort = "files_first" -> (x.d # "t" /\ y.d = "t") \/ (x.d = y.d /\ LabLess(x, y))
                     [] OTHER -> FALSE
EndSiblings == (done /\ ~Pre /\ ~O.follow /\ O.sort # "none") => \A i, j \in 1..Len(out) :
                  (i < j /\ out[i].p # <<>> /\ out[j].p # <<>> /\ Front(out[i].p) = Front(out[j].p)) => ~LabBefore(out[j], out[i])
EndOnce == (done /\ ~Pre /\ ~O.follow) => \A i, j \in 1..Len(out) : i # j => out[i] # out[j]
\* exactly the entries of the subtree inside the window that the filter accepts (no follow: plain set comprehension)
EndExactSet == (done /\ ~Pre /\ ~O.follow) =>
   {out[i] : i \in 1..Len(out)} =
   {Lab(EntryOf(Fs, q, O)) : q \in {x \in Sub(Fs, cfg.root) :
        LET d == Len(x) - Len(cfg.root) IN d >= O.min /\ d <= O.max /\ Pass(EntryOf(Fs, x, O), O)}}

(* ---- lemmas over the configuration alone (evaluated in the initial states) ---- *)
RECURSIVE PermsOf(_)
PermsOf(S) == IF S = {} THEN {<<>>} ELSE UNION {{<<x>> \o t : t \in PermsOf(S \ {x})} : x \in S}
\* ValidOrder accepts exactly the admissible sequences (all arrangements of the emitting visits' labels)
PredicateTight == (~Pre /\ steps = 0 /\ Cardinality(Emitting(Visits(Fs, cfg.root, O))) <= PermMax) =>
   LET E == Emitting(Visits(Fs, cfg.root, O))
       perms == PermsOf({v.route : v \in E})
       seqs == {[i \in 1..Len(p) |-> (CHOOSE v \in E : v.route = p[i]).lab] : p \in perms}
   IN {s \in seqs : ValidOrderN(s, Fs, cfg.root, O)} = AllOuts(Fs, cfg.root, O)
\* the validators accept a sequence equal to Expected without looking further: Expected is always admissible
ExpectedAdmissible == (~Pre /\ steps = 0) => Expected(Fs, cfg.root, O) \in AllOuts(Fs, cfg.root, O)
ListWhats == {"paths", "dirs", "files", "all_paths", "all_dirs", "all_files"}
ListingLemma == (~Pre /\ steps = 0 /\ Fs[cfg.root].k = "dir") => \A w \in ListWhats :
   LET s == ListingSeq(Fs, cfg.root, w, Rk) IN
   /\ {s[i] : i \in 1..Len(s)} = Listing(Fs, cfg.root, w) /\ Len(s) = Cardinality(Listing(Fs, cfg.root, w))
   /\ \A i \in 1..Len(s) : s[i] # cfg.root /\ s[i] \in DOMAIN Fs
=============================================================================
