SPECIFICATION Spec
INVARIANTS HomeLaw RuntimeLaw HomeDirLaw ListLaw VfsLaw ScanLaw ScanType RidsLaw
CHECK_DEADLOCK FALSE
