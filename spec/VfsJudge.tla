------------------------------- MODULE VfsJudge -------------------------------
(* Validator of implementation transitions against the reference filesystem (C01, C03, C06, C09, C10,
   C11, C13 and the spelling half of C05).  One record = one pre-state with the calls issued from it:
     [k |-> "g", be, route, pre |-> REP, steps |-> << [c |-> CALL, r |-> RES, same |-> "t"|"f", post |-> REP or <<>>] .. >>]
   For every step: the argument strings are resolved with PathLex (as abs() documents), the reference operator
   is applied to the abstraction of the logged pre-state, and result + abstraction of the logged post-state are
   compared; the representation invariant (C03) is evaluated on every logged post-state. *)
EXTENDS MemfsRep, Tally, Json, IOUtils
PL == INSTANCE PathLex

EnvRec == JsonDeserialize(IOEnv.PENV)
EnvNames == {EnvRec.vars[i].n : i \in 1..Len(EnvRec.vars)}
EnvF == [n \in EnvNames |-> EnvRec.vars[CHOOSE i \in 1..Len(EnvRec.vars) : EnvRec.vars[i].n = n].v]
MemOwn == [uid |-> 1000, gid |-> 1000]       \* Memfs gives every new entry 1000:1000

RECURSIVE Str(_)
Str(cs) == IF cs = <<>> THEN "" ELSE cs[1] \o Str(Tail(cs))
StrSeq(segs) == [i \in 1..Len(segs) |-> Str(segs[i])]
RECURSIVE WalkC(_, _)
WalkC(cur, rest) == IF rest # <<>> /\ rest[1] = PL!DotDot
                    THEN (IF cur = <<>> THEN [o |-> "Path::ParentNotFound", p |-> <<>>] ELSE WalkC(Front(cur), Tail(rest)))
                    ELSE IF rest # <<>> /\ rest[1] = PL!Dot THEN WalkC(cur, Tail(rest))
                    ELSE [o |-> "ok", p |-> cur \o StrSeq(rest)]
\* abs() at component level (PathLex!Abs with the cwd given as components)
Resolve(cwd, raw) ==
   IF raw = <<>> THEN [o |-> "Path::Empty", p |-> <<>>] ELSE
   LET e == PL!Expand(EnvF, raw) IN IF e.o # "ok" THEN [o |-> e.o, p |-> <<>>] ELSE
   LET c == PL!Clean(PL!TrimProtocol(e.v)) IN
   IF PL!IsAbs(c) THEN [o |-> "ok", p |-> StrSeq(PL!Segs(c))] ELSE WalkC(cwd, PL!Segs(c))
\* arguments the harness marked as syntactically canonical absolute paths come with their components
\* "x": the argument is not valid UTF-8 (the harness put a raw 0xFF byte into it) - "handles path expansion" needs a string
NotUtf8 == [o |-> "Path::FailedToString", p |-> <<>>]
ResolveA(st, c) == IF c.aok = "t" THEN [o |-> "ok", p |-> c.ac] ELSE IF c.aok = "x" THEN NotUtf8 ELSE Resolve(st.cwd, c.a)
ResolveB(st, c) == IF c.bok = "t" THEN [o |-> "ok", p |-> c.bc] ELSE IF c.bok = "x" THEN NotUtf8 ELSE Resolve(st.cwd, c.b)
\* lexical join of relative segments onto an absolute directory, cleaned: ".." pops (and is dropped at the root)
RECURSIVE JoinClean(_, _)
JoinClean(cur, rest) == IF rest = <<>> THEN cur
                        ELSE IF rest[1] = PL!DotDot THEN JoinClean(IF cur = <<>> THEN cur ELSE Front(cur), Tail(rest))
                        ELSE IF rest[1] = PL!Dot THEN JoinClean(cur, Tail(rest))
                        ELSE JoinClean(Append(cur, Str(rest[1])), Tail(rest))
Ambiguous(raw) == raw # <<>> /\ PL!AmbiguousExpand(EnvF, raw)

\* The relative text of a link is settled by `symlink` (C10) and kept consistent by move and copy; a copy with follow onto a
\* chain of links (A24, not settled) can leave a link whose recorded text is not the navigation to its recorded target.  Queries
\* about the text of such a link are not judged (a state read back from the implementation carries the text in `rt`).
TextSettled(fs, p) == "rt" \notin DOMAIN fs[p] \/ StrSeq(PL!Segs(fs[p].rt)) = RelC(fs[p].t, Parent(p))
HasFlag(c, x) == \E i \in 1..Len(c.f) : c.f[i] = x
TwoPath == {"move_p", "copy", "copy_b", "copy_seq", "symlink"}
BoolQ == {"exists", "is_dir", "is_file", "is_symlink", "is_symlink_dir", "is_symlink_file", "is_exec", "is_readonly"}
ListQ == {"paths", "dirs", "files", "all_paths", "all_dirs", "all_files"}

\* ---- expected outcome of a call on an abstract state ----
ArgErr(st, e) == R(st, RErr(e))                                   \* abs() failed: the call fails, nothing changes
EntryRes(st, p) == LET fs == st.fs IN
   IF ~Exists(fs, p) THEN RErr("Path::DoesNotExist") ELSE ROk(p)  \* value judged by EntryOK
QueryRes(st, c, p) == LET fs == st.fs  op == c.op IN
   CASE op = "exists" -> ROk(Q_exists(st, p))
     [] op = "is_dir" -> ROk(Q_is_dir(st, p))
     [] op = "is_file" -> ROk(Q_is_file(st, p))
     [] op = "is_symlink" -> ROk(Q_is_symlink(st, p))
     [] op = "is_symlink_dir" -> IF LinkKindSettled(fs, p) THEN ROk(Q_is_symlink_dir(st, p)) ELSE RAny
     [] op = "is_symlink_file" -> IF LinkKindSettled(fs, p) THEN ROk(Q_is_symlink_file(st, p)) ELSE RAny
     [] op = "is_exec" -> ROk(BoolV(Exists(fs, p) /\ IsExecMode(fs[p].mode)))
     [] op = "is_readonly" -> ROk(BoolV(Exists(fs, p) /\ IsReadonlyMode(fs[p].mode)))
     [] op = "mode" -> IF Exists(fs, p) THEN ROk(<<fs[p].mode>>) ELSE RErr("Path::DoesNotExist")
     [] op = "uid" -> IF ~Exists(fs, p) THEN RErr("Path::DoesNotExist") ELSE IF IsLink(fs, p) THEN RAny ELSE ROk(<<fs[p].uid>>)
     [] op = "gid" -> IF ~Exists(fs, p) THEN RErr("Path::DoesNotExist") ELSE IF IsLink(fs, p) THEN RAny ELSE ROk(<<fs[p].gid>>)
     [] op = "owner" -> IF ~Exists(fs, p) THEN RErr("Path::DoesNotExist") ELSE IF IsLink(fs, p) THEN RAny ELSE ROk(<<fs[p].uid, fs[p].gid>>)
     [] op = "readlink_abs" -> IF IsLink(fs, p) THEN ROk(PV(fs[p].t)) ELSE RErrAny
     [] op = "readlink" -> IF ~IsLink(fs, p) THEN RErrAny
                           ELSE IF fs[p].t = Parent(p) \/ ~TextSettled(fs, p) THEN RAny        \* D11: relative(p, p) is documented to return p itself
                           ELSE ROk([p |-> RelC(fs[p].t, Parent(p)), c |-> "t", abs |-> "f"])
     [] op = "abs" -> ROk(PV(p))
     [] op = "entry" -> EntryRes(st, p)
     [] op \in ListQ -> IF IsDir(fs, p) THEN ROk(Listing(fs, p, op)) ELSE RErrAny

CopyOpts(c) == [dm |-> IF HasFlag(c, "a") \/ HasFlag(c, "d") THEN c.m ELSE 0,
                fm |-> IF HasFlag(c, "a") \/ HasFlag(c, "f") THEN c.m ELSE 0,
                follow |-> HasFlag(c, "F")]
ChmodOpts(c) == [dm |-> IF HasFlag(c, "a") \/ HasFlag(c, "d") THEN c.m ELSE 0,
                 fm |-> IF HasFlag(c, "a") THEN c.m ELSE IF HasFlag(c, "f") THEN c.n ELSE 0,
                 sym |-> IF HasFlag(c, "s") THEN c.s ELSE IF HasFlag(c, "o") THEN <<"f", ":", "a", "+", "r", ",", "f", ":", "a", "-", "w", "x">>
                         ELSE IF HasFlag(c, "S") THEN <<"a", ":", "g", "o", "-", "r", "w", "x">> ELSE <<>>,
                 recursive |-> ~HasFlag(c, "R"), follow |-> HasFlag(c, "F")]
ChownOpts(c) == [setu |-> HasFlag(c, "u") \/ HasFlag(c, "o"), setg |-> HasFlag(c, "g") \/ HasFlag(c, "o"), uid |-> c.m, gid |-> c.n,
                 recursive |-> ~HasFlag(c, "R"), follow |-> HasFlag(c, "F")]
LinesData(c) == JoinLines(c.ls)

\* ---- builder programs: the options a sequence of builder calls ends with (last setter wins), then the plain operator ----
SeqArg(stp) == stp[2] * 256 + stp[3]
SeqSyms == << <<"f", ":", "u", "+", "x">>, <<"d", ":", "g", "o", "-", "r", "x">>, <<"a", ":", "a", "=", "r">> >>
RECURSIVE ChmodFold(_, _)
ChmodFold(o, steps) == IF steps = <<>> THEN o ELSE LET x == steps[1]  k == x[1]  a == SeqArg(x) IN
   ChmodFold(CASE k = 1 -> [o EXCEPT !.dm = a, !.fm = a] [] k = 2 -> [o EXCEPT !.dm = a] [] k = 3 -> [o EXCEPT !.fm = a]
               [] k = 4 -> [o EXCEPT !.follow = TRUE] [] k = 5 -> [o EXCEPT !.recursive = TRUE] [] k = 6 -> [o EXCEPT !.recursive = FALSE]
               [] k = 7 -> [o EXCEPT !.sym = SeqSyms[(a % 3) + 1]]
               [] k = 8 -> [o EXCEPT !.sym = <<"f", ":", "a", "+", "r", ",", "f", ":", "a", "-", "w", "x">>]
               [] OTHER -> [o EXCEPT !.sym = <<"a", ":", "g", "o", "-", "r", "w", "x">>], Tail(steps))
ChmodSeqOpts(c) == ChmodFold([dm |-> 0, fm |-> 0, sym |-> <<>>, recursive |-> TRUE, follow |-> FALSE], c.ls)
RECURSIVE ChownFold(_, _)
ChownFold(o, steps) == IF steps = <<>> THEN o ELSE LET x == steps[1]  k == x[1] IN
   ChownFold(CASE k = 1 -> [o EXCEPT !.setu = TRUE, !.uid = x[2]] [] k = 2 -> [o EXCEPT !.setg = TRUE, !.gid = x[3]]
               [] k = 3 -> [o EXCEPT !.setu = TRUE, !.uid = x[2], !.setg = TRUE, !.gid = x[3]]
               [] k = 4 -> [o EXCEPT !.follow = TRUE] [] k = 5 -> [o EXCEPT !.recursive = TRUE] [] OTHER -> [o EXCEPT !.recursive = FALSE], Tail(steps))
ChownSeqOpts(c) == ChownFold([setu |-> FALSE, setg |-> FALSE, uid |-> 0, gid |-> 0, recursive |-> TRUE, follow |-> FALSE], c.ls)
RECURSIVE CopyFold(_, _)
CopyFold(o, steps) == IF steps = <<>> THEN o ELSE LET x == steps[1]  k == x[1]  a == SeqArg(x) IN
   CopyFold(CASE k = 1 -> [o EXCEPT !.dm = a, !.fm = a] [] k = 2 -> [o EXCEPT !.dm = a, !.fm = 0] [] k = 3 -> [o EXCEPT !.dm = 0, !.fm = a]
              [] k = 4 -> [o EXCEPT !.follow = TRUE] [] OTHER -> [o EXCEPT !.follow = FALSE], Tail(steps))
CopySeqOpts(c) == CopyFold([dm |-> 0, fm |-> 0, follow |-> FALSE], c.ls)

Expected(st, c, Own) ==
  LET op == c.op IN
  IF (op \in {"write_lines", "append_lines"} /\ LinesData(c) = <<>>) \/ (op = "append_line" /\ (c.ls = <<>> \/ c.ls[1] = <<>>))
  THEN R(st, ROk(Unit))                                            \* D2: nothing to write - nothing happens, the path is not even looked at
  ELSE IF op = "cwd" THEN R(st, ROk(PV(st.cwd)))
  ELSE IF op = "root" THEN R(st, ROk(PV(Root)))
  ELSE LET ra == ResolveA(st, c) IN
  IF ra.o # "ok" THEN (IF op \in BoolQ THEN R(st, ROk(BoolV(FALSE)))
                       ELSE IF op \in ListQ THEN R(st, RErrAny)       \* listings document no error kinds
                       ELSE ArgErr(st, ra.o))
  ELSE LET p == ra.p IN
  IF op \in TwoPath THEN
     (IF op = "symlink" THEN
         \* target: relative spellings are taken relative to the directory of the link
         \* (a spelling with ~, $ or a scheme is only settled for absolute targets: otherwise not judged)
         IF p = Root THEN R(st, RErrAny)
         ELSE IF c.bok = "x" THEN R(st, RErrAny)                  \* a target that is not valid UTF-8 cannot be recorded: refused (which error wins is not settled), nothing changes
         ELSE IF c.b = <<>> THEN [st |-> st, res |-> RAny, alt |-> {}, partial |-> TRUE, paired |-> FALSE]     \* empty target: Path::Empty or "the link's own directory" - not settled
         ELSE IF ~PL!IsAbs(c.b) THEN
              (IF \E i \in 1..Len(c.b) : c.b[i] \in {"~", "$", ":"} THEN [st |-> st, res |-> RAny, alt |-> {}, partial |-> TRUE, paired |-> FALSE]
               ELSE Op_symlink(st, Own, p, JoinClean(Parent(p), PL!Segs(c.b))))
         ELSE LET rb == ResolveB(st, c) IN
              IF rb.o # "ok" THEN ArgErr(st, rb.o) ELSE Op_symlink(st, Own, p, rb.p)
      ELSE LET rb == ResolveB(st, c) IN
         IF rb.o # "ok" THEN ArgErr(st, rb.o)
         ELSE IF op = "move_p" THEN Op_move_p(st, p, rb.p)
         ELSE IF op = "copy" THEN Op_copy_b(st, Own, p, rb.p, [dm |-> 0, fm |-> 0, follow |-> FALSE])
         ELSE IF op = "copy_seq" THEN Op_copy_b(st, Own, p, rb.p, CopySeqOpts(c))
         ELSE Op_copy_b(st, Own, p, rb.p, CopyOpts(c)))
  ELSE CASE op = "mkfile" -> Op_mkfile(st, Own, p)
         [] op = "mkfile_m" -> Op_mkfile_m(st, Own, p, c.m)
         [] op = "mkdir_p" -> Op_mkdir_p(st, Own, p)
         [] op = "mkdir_m" -> Op_mkdir_m(st, Own, p, DirType + Perm(c.m))
         [] op = "write_all" -> Op_write_all(st, Own, p, c.d)
         [] op = "append_all" -> Op_append_all(st, Own, p, c.d)
         [] op = "write_lines" -> IF LinesData(c) = <<>> THEN R(st, ROk(Unit)) ELSE Op_write_all(st, Own, p, LinesData(c) \o <<NL>>)
         [] op = "append_lines" -> IF LinesData(c) = <<>> THEN R(st, ROk(Unit)) ELSE Op_append_all(st, Own, p, LinesData(c) \o <<NL>>)
         [] op = "append_line" -> IF c.ls = <<>> \/ c.ls[1] = <<>> THEN R(st, ROk(Unit)) ELSE Op_append_all(st, Own, p, c.ls[1] \o <<NL>>)
         \* read handles (C06 / C07): opening one is a read that hands nothing back yet; reading from it and dropping it change nothing
         [] op = "hr_open" -> (IF IsLink(st.fs, p) THEN R(st, RAny) ELSE LET o == Op_read(st, p) IN IF o.res.o = "ok" THEN R(st, ROk(Unit)) ELSE o)
         [] op \in {"hr_read", "hr_drop"} -> R(st, RAny)
         [] op = "h_open" -> Op_h_open(st, Own, p, HasFlag(c, "a"))
         [] op = "h_write" -> Op_h_write(st, p)
         [] op = "h_flush" -> Op_h_sync(st, p, c.d, HasFlag(c, "c"))
         [] op = "h_drop" -> LET o == Op_h_sync(st, p, c.d, HasFlag(c, "c")) IN [o EXCEPT !.res = ROk(Unit)]     \* drop has no result
         [] op = "remove" -> Op_remove(st, p)
         [] op = "remove_all" -> Op_remove_all(st, p)
         [] op = "set_cwd" -> LET o == Op_set_cwd(st, p) IN IF o.res.o = "ok" THEN [o EXCEPT !.res = ROk(PV(p))] ELSE o
         [] op = "chmod" -> Op_chmod_b(st, p, [dm |-> c.m, fm |-> c.m, sym |-> <<>>, recursive |-> TRUE, follow |-> FALSE])
         [] op = "chmod_b" -> Op_chmod_b(st, p, ChmodOpts(c))
         [] op = "chmod_seq" -> Op_chmod_b(st, p, ChmodSeqOpts(c))
         [] op = "chown_seq" -> Op_chown_b(st, p, ChownSeqOpts(c))
         [] op = "chown" -> Op_chown_b(st, p, [setu |-> TRUE, setg |-> TRUE, uid |-> c.m, gid |-> c.n, recursive |-> TRUE, follow |-> FALSE])
         [] op = "chown_b" -> Op_chown_b(st, p, ChownOpts(c))
         [] op \in {"read", "read_all", "read_lines"} /\ IsLink(st.fs, p) -> R(st, RAny)     \* D10: Memfs refuses, the real filesystem follows
         [] op = "read" -> Op_read(st, p)
         [] op = "read_all" -> Op_read_all(st, p)
         [] op = "read_lines" -> Op_read_lines(st, p)
         [] OTHER -> R(st, QueryRes(st, c, p))

\* ---- comparison of a logged result with the expected one ----
PathRes == {"mkfile", "mkfile_m", "mkdir_p", "mkdir_m", "symlink"}
EntryOK(st, p, v) == LET fs == st.fs  n == fs[p]  e == v.e IN
   /\ e.path = PV(p) /\ e.link = TF(n.k = "link") /\ e.mode = n.mode /\ e.following = "f" /\ e.same_bufs = "t"
   /\ e.wrap = "t" /\ v.f1.wrap = "t" /\ v.f2.wrap = "t"          \* C13: every VfsEntry accessor = the wrapped entry's accessor
   /\ e.exec = TF(IsExecMode(n.mode)) /\ e.ro = TF(IsReadonlyMode(n.mode))
   /\ (LinkKindSettled(fs, p) => /\ e.dir = TF(n.k = "dir" \/ n.tk = "dir") /\ e.file = TF(n.k = "file" \/ n.tk = "file")
                                 /\ e.ldir = TF(n.k = "link" /\ n.tk = "dir") /\ e.lfile = TF(n.k = "link" /\ n.tk = "file"))
   /\ v.nf = e /\ v.f1nf = v.f1                                   \* follow(false) is a no-op, also after follow(true)
   /\ ("fc" \in DOMAIN v => v.fc = v.f1)                         \* "exactly once": also through a clone of the followed entry
   /\ IF n.k = "link"
      THEN /\ e.alt = PV(n.t) /\ (n.t = Parent(p) \/ ~TextSettled(fs, p) \/ e.rel = [p |-> RelC(n.t, Parent(p)), c |-> "t", abs |-> "f"])
           /\ v.f1.path = PV(n.t) /\ v.f1.alt = PV(p) /\ v.f1.following = "t"       \* swapped exactly once
           /\ v.f2 = v.f1
      ELSE v.f1 = e /\ v.f2 = e
ValMatch(st, c, ex, got) ==
   IF c.op \in PathRes THEN got = PV(ex)
   ELSE IF c.op \in ListQ THEN /\ got.canon = "t" /\ got.sorted = "t"
                               /\ {got.ps[i] : i \in 1..Len(got.ps)} = ex /\ Len(got.ps) = Cardinality(ex)
   ELSE IF c.op = "entry" THEN EntryOK(st, ex, got)
   ELSE got = ex
ResMatch(st, c, ex, got) ==
   IF got.o = "panic" THEN FALSE
   ELSE IF ex.o = "?" THEN TRUE
   ELSE IF ex.o = "*" THEN got.o # "ok"
   ELSE IF ex.o = "ok" THEN got.o = "ok" /\ ValMatch(st, c, ex.v, got.v)
   ELSE got.o = ex.o

\* ---- finding signature ----
KindClass(fs, p) == IF p = Root THEN "root" ELSE IF ~Exists(fs, p) THEN
                        (IF ~Exists(fs, Parent(p)) THEN "none(noparent)" ELSE IF IsDir(fs, Parent(p)) THEN "none" ELSE "none(parent=" \o fs[Parent(p)].k \o ")")
                    ELSE IF fs[p].k = "dir" THEN (IF Children(fs, p) = {} THEN "dir(empty)" ELSE "dir(nonempty)")
                    ELSE IF fs[p].k = "file" THEN "file" ELSE "link->" \o fs[p].tk
ArgClass(st, r) == IF r.o # "ok" THEN "unresolvable:" \o r.o ELSE KindClass(st.fs, r.p)
RelClass(st, c) == LET a == ResolveA(st, c)  b == ResolveB(st, c) IN
   IF a.o # "ok" \/ b.o # "ok" THEN "-" ELSE IF a.p = b.p THEN "same" ELSE IF IsPrefix(a.p, b.p) THEN "dst-in-src" ELSE IF IsPrefix(b.p, a.p) THEN "src-in-dst" ELSE "other"
ExpClass(ex) == IF ex.o = "?" THEN "Any" ELSE IF ex.o = "*" THEN "Err" ELSE ex.o
Sig(st, c, got, ex, what) == <<"BAD", c.op, ArgClass(st, ResolveA(st, c)), IF c.op \in TwoPath THEN ArgClass(st, ResolveB(st, c)) ELSE "-",
                               IF c.op \in TwoPath THEN RelClass(st, c) ELSE "-", "got:" \o got.o, "exp:" \o ExpClass(ex), what>>

\* modes of pre-existing files below a copy destination are not settled (Unconstrained): blank them on both sides
StateOK(o, pre, post) ==
   \/ o.partial
   \/ (IF o.paired THEN FALSE ELSE (StEq(o.st, post) \/ \E a \in o.alt : StEq(a, post)))
PairedOK(o, pre, post, got) == IF got.o = "ok" THEN StEq(o.st, post) ELSE post = pre

\* with follow a traversal may stop with LinkLooping as soon as a followed link leads to a directory: admissible (C08 decides exactly when)
LoopAdmissible(st, c) == /\ \/ (c.op \in {"chmod_b", "chown_b"} /\ HasFlag(c, "F"))
                            \/ (c.op = "chmod_seq" /\ ChmodSeqOpts(c).follow) \/ (c.op = "chown_seq" /\ ChownSeqOpts(c).follow)
                         /\ LET ra == ResolveA(st, c) IN ra.o = "ok" /\ Exists(st.fs, ra.p)
                              /\ \E x \in Visit(st.fs, ra.p, TRUE, TRUE) : IsLink(st.fs, x) /\ TK(st.fs, st.fs[x].t) = "dir"
\* C11 "never alters a symlink itself": whatever else is settled or not (chains of links, cycles, partial results of a failing
\* call), no chmod changes the mode of an entry that is a link before and after the call
ChmodOps == {"chmod", "chmod_b", "chmod_seq"}
LinkModesKept(pre, post) == \A p \in DOMAIN pre.fs \cap DOMAIN post.fs : (IsLink(pre.fs, p) /\ IsLink(post.fs, p)) => post.fs[p].mode = pre.fs[p].mode
\* C10 "readlink(link) is a relative path such that cleaning dir(link)/readlink(link) gives readlink_abs(link)": every link that a
\* successful symlink / move_p / copy (without follow) creates or relocates carries the navigation from its directory to its target
\* as its text (states read back from the implementation record the text in `rt`; D11: a link to its own directory is exempt)
TextOps == {"symlink", "move_p", "copy"}
NewLinkTextsOK(pre, post) == \A p \in DOMAIN post.fs :
   (IsLink(post.fs, p) /\ "rt" \in DOMAIN post.fs[p] /\ (p \notin DOMAIN pre.fs \/ pre.fs[p] # post.fs[p]) /\ post.fs[p].t # Parent(p))
   => TextSettled(post.fs, p)
JudgeStepO(pre, s, Own) ==
   LET c == s.c
       viol == IF s.same = "t" THEN "-" ELSE RepViolation(s.post)
   IN IF (c.aok = "f" /\ Ambiguous(c.a)) \/ (c.bok = "f" /\ Ambiguous(c.b)) THEN << <<"skip", "ambiguous-expansion">> >>
      ELSE LET o == Expected(pre, c, Own) IN
      IF c.op \in ChmodOps /\ s.same = "f" /\ viol = "-" /\ ~LinkModesKept(pre, AbsOf(s.post)) THEN << Sig(pre, c, s.r, o.res, "mode-of-a-link-altered") >>
      ELSE IF c.op \in TextOps /\ s.r.o = "ok" /\ s.same = "f" /\ viol = "-" /\ ~NewLinkTextsOK(pre, AbsOf(s.post)) THEN << Sig(pre, c, s.r, o.res, "link-text-is-not-the-navigation-to-its-target") >>
      ELSE IF s.r.o = "Path::LinkLooping" /\ LoopAdmissible(pre, c) THEN << <<"ok", c.op, "linklooping">> >>
      ELSE IF s.r.o = "panic" THEN << Sig(pre, c, s.r, o.res, "panic") >>
      ELSE IF viol # "-" THEN << Sig(pre, c, s.r, o.res, "ILLFORMED:" \o viol) >>
      ELSE LET post == IF s.same = "t" THEN pre ELSE AbsOf(s.post)
               resOK == ResMatch(pre, c, o.res, s.r)
               stOK == IF o.paired THEN PairedOK(o, pre, post, s.r) ELSE StateOK(o, pre, post)
           IN IF resOK /\ stOK THEN << <<"ok", c.op, IF post # pre \/ s.r.o # "ok" THEN "nt" ELSE "tr">> >>
              ELSE << Sig(pre, c, s.r, o.res, IF ~resOK /\ ~stOK THEN "result+state" ELSE IF ~resOK THEN "result" ELSE "state") >>

JudgeStep(pre, s) == JudgeStepO(pre, s, MemOwn)
=============================================================================
