CONSTANTS
  MaxLines = 3
  MaxLen = 2
  Bytes = {120, 10, 13, 195, 169}
SPECIFICATION Spec
INVARIANTS LinesRoundTrip OneNewlinePerLine AppendKeepsPrefix Utf8Concat
CHECK_DEADLOCK FALSE
