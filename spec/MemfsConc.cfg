CONSTANTS
  Split = FALSE
  MaxCalls = 2
  Ops = {"write_all", "append_all", "read_all", "remove", "mkfile", "exists", "move_p"}
SPECIFICATION Spec
INVARIANTS Linearizable AppendsExactlyOnce QuiescentWellFormed NoResultIsIo
PROPERTY Terminates
CHECK_DEADLOCK FALSE
