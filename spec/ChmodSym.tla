------------------------------- MODULE ChmodSym -------------------------------
(* The symbolic chmod grammar  clause("," clause)*  with  clause = [dfa] ":" [ugoa]+ [-+=] [rwx]+
   (Chmod rustdoc: "All segments are required ... the pattern can be repeated by separating repetitions
   with a comma").  Permission bits are handled as sets of bit positions 0..8 (0 = other-x ... 8 = user-r). *)
EXTENDS Naturals, Sequences, FiniteSets, TLC
Bits(n) == {i \in 0..11 : (n \div (2 ^ i)) % 2 = 1}
RECURSIVE SumPow(_)
SumPow(S) == IF S = {} THEN 0 ELSE LET i == CHOOSE x \in S : TRUE IN 2 ^ i + SumPow(S \ {i})
TypeBits(n) == n - (n % 4096)
GroupBits(c) == CASE c = "u" -> {6, 7, 8} [] c = "g" -> {3, 4, 5} [] c = "o" -> {0, 1, 2} [] c = "a" -> 0..8
PermBits(c)  == CASE c = "r" -> {2, 5, 8} [] c = "w" -> {1, 4, 7} [] c = "x" -> {0, 3, 6}
IsTarget(c) == c \in {"d", "f", "a"}
IsGroup(c)  == c \in {"u", "g", "o", "a"}
IsOp(c)     == c \in {"-", "+", "="}
IsPerm(c)   == c \in {"r", "w", "x"}
\* split on ","
RECURSIVE SplitC(_, _, _)
SplitC(s, cur, acc) == IF s = <<>> THEN Append(acc, cur) ELSE IF s[1] = "," THEN SplitC(Tail(s), <<>>, Append(acc, cur)) ELSE SplitC(Tail(s), Append(cur, s[1]), acc)
Clauses(s) == SplitC(s, <<>>, <<>>)
\* a clause is well formed iff  T ":" G+ O P+
GroupEnd(c) == LET idx == {i \in 3..Len(c) : ~IsGroup(c[i])} IN IF idx = {} THEN Len(c) + 1 ELSE CHOOSE i \in idx : \A j \in idx : i <= j
WellFormed(c) == /\ Len(c) >= 5 /\ IsTarget(c[1]) /\ c[2] = ":"
                 /\ LET g == GroupEnd(c) IN g > 3 /\ g <= Len(c) - 1 /\ IsOp(c[g]) /\ \A i \in (g + 1)..Len(c) : IsPerm(c[i])
Matches(c, kind) == c[1] = "a" \/ (c[1] = "d" /\ kind = "dir") \/ (c[1] = "f" /\ kind = "file")
ApplyClause(perm, c) == LET g == GroupEnd(c)
                            G == UNION {GroupBits(c[i]) : i \in 3..(g - 1)}
                            P == UNION {PermBits(c[i]) : i \in (g + 1)..Len(c)}
                        IN CASE c[g] = "-" -> perm \ (G \cap P) [] c[g] = "+" -> perm \cup (G \cap P) [] c[g] = "=" -> (perm \ G) \cup (G \cap P)
RECURSIVE ApplyAll(_, _, _)
ApplyAll(perm, cs, kind) == IF cs = <<>> THEN perm ELSE
   ApplyAll(IF Matches(Head(cs), kind) THEN ApplyClause(perm, Head(cs)) ELSE perm, Tail(cs), kind)
\* result: [ok, mode] ; status "ok" | "err" | "*" (not settled: later clause malformed, or outside the documented grammar)
SymMode(kind, mode, expr) ==
  LET cs == Clauses(expr) IN
  IF expr = <<>> THEN [st |-> "ok", mode |-> mode]                                  \* no expression = nothing to do
  ELSE IF ~WellFormed(cs[1]) THEN [st |-> "err", mode |-> mode]                     \* C11: first clause malformed -> error, unchanged
  ELSE IF \E i \in 2..Len(cs) : ~WellFormed(cs[i]) THEN [st |-> "*", mode |-> mode]
  ELSE IF kind = "link" THEN [st |-> "ok", mode |-> mode]                           \* a symlink itself is never altered
  ELSE [st |-> "ok", mode |-> TypeBits(mode) + SumPow((Bits(mode) \cap 9..11) \cup ApplyAll(Bits(mode) \cap 0..8, cs, kind))]
=============================================================================
