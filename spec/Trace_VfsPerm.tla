------------------------------- MODULE Trace_VfsPerm -------------------------------
(* C11 validator: the judge is Trace_Vfs!JudgeStep, unchanged (reference operators Vfs!Op_chmod_b / Op_chown_b, ChmodSym).
   The only addition: a BAD class of a chmod / chown call gets five more fields that describe the symbolic expression and
   the difference to the expected state, so that a recorded finding suppresses only itself (chown: fields 9-11 are "-"):
     field 9   "sym:unused" | "sym:wf" | "sym:first-malformed" | "sym:later-malformed"
     field 10  wf:              "clause-after-skipped-clause" when for some targeted entry a clause that does not select it
                                precedes one that does (the situation of A11), else "-"
               first-malformed: "no-permission-letter" ("f:a+"), "no-target-letter" (":a=r"), "several-target-letters"
                                ("ff:u+x"), "ends-after-colon" ("f:"), combinations joined by "+", "other"
     field 11  "entry-has-octal" when an octal option is set for the kind of the entry named by the call (the expression is
               then not consulted for it), "entry-not-addressed" when that entry is a link or one of the leading target
               letters of the expression names the other kind, else "entry-addressed"
     field 12  how the logged post-state differs from the expected one: "link-altered" (a symlink itself changed),
               "changed-unexpectedly" (an entry changed that should not), "wrong-value", "missed-only-via-link" (every
               entry that should have changed and did not is reached only by following a link), "missed", "-"
     field 13  "link-chain" when a visited link points to a link, else "-" *)
EXTENDS Trace_Vfs

Last(s) == s[Len(s)]
LeadN(c) == Cardinality({i \in 1..Len(c) : \A j \in 1..i : CS!IsTarget(c[j])})          \* length of the leading run of target letters
TargetDefect(c) == IF c # <<>> /\ c[1] = ":" THEN "no-target-letter" ELSE IF LeadN(c) >= 2 THEN "several-target-letters" ELSE ""
Norm(c) == IF c # <<>> /\ c[1] = ":" THEN <<"a">> \o c ELSE IF LeadN(c) >= 2 THEN SubSeq(c, LeadN(c), Len(c)) ELSE c
RestDefect(c) == IF CS!WellFormed(c) THEN ""
                 ELSE IF c # <<>> /\ CS!IsOp(Last(c)) /\ CS!WellFormed(Append(c, "r")) THEN "no-permission-letter"
                 ELSE IF Len(c) = 2 /\ CS!IsTarget(c[1]) /\ c[2] = ":" THEN "ends-after-colon"
                 ELSE "other"
MalformedWhy(c) == LET t == TargetDefect(c)  r == RestDefect(Norm(c)) IN
   IF r = "other" THEN "other" ELSE IF t = "" THEN r ELSE IF r = "" THEN t ELSE t \o "+" \o r
KindOfNode(n) == n.k
SkippedBefore(cs, kind) == \E i \in 1..Len(cs) : \E j \in (i + 1)..Len(cs) : ~CS!Matches(cs[i], kind) /\ CS!Matches(cs[j], kind)
SymClass(st, c) ==
   LET ra == ResolveA(st, c)
       co == IF c.op = "chmod_b" THEN ChmodOpts(c) ELSE [dm |-> c.m, fm |-> c.m, sym |-> <<>>, recursive |-> TRUE, follow |-> FALSE]
   IN IF ra.o # "ok" \/ ~Exists(st.fs, ra.p) THEN <<"-", "-", "-">>
      ELSE IF ~SymUsed(co) THEN <<"sym:unused", "-", "-">>
      ELSE LET cs == CS!Clauses(co.sym)
               n == st.fs[ra.p]
               c1 == cs[1]
               lead == {i \in 1..Len(c1) : \A j \in 1..i : CS!IsTarget(c1[j])}          \* the leading run of target letters
               addressed == IF (n.k = "dir" /\ co.dm # 0) \/ (n.k = "file" /\ co.fm # 0) THEN "entry-has-octal"
                            ELSE IF n.k = "link" \/ (\E i \in lead : (c1[i] = "d" /\ n.k # "dir") \/ (c1[i] = "f" /\ n.k # "file"))
                            THEN "entry-not-addressed" ELSE "entry-addressed"
           IN IF ~CS!WellFormed(cs[1]) THEN <<"sym:first-malformed", MalformedWhy(cs[1]), addressed>>
              ELSE IF \E i \in 2..Len(cs) : ~CS!WellFormed(cs[i]) THEN <<"sym:later-malformed", "-", addressed>>
              ELSE <<"sym:wf", IF \E x \in ChmodTargets(st.fs, ra.p, co) : SkippedBefore(cs, st.fs[x].k) THEN "clause-after-skipped-clause" ELSE "-", addressed>>

DiffClass(st, s) ==
   LET c == s.c
       ra == ResolveA(st, c)
       rec == IF c.op \in {"chmod_b", "chown_b"} THEN ~HasFlag(c, "R") ELSE TRUE
       fol == IF c.op \in {"chmod_b", "chown_b"} THEN HasFlag(c, "F") ELSE FALSE
   IN IF ra.o # "ok" \/ ~Exists(st.fs, ra.p) \/ (s.same # "t" /\ RepViolation(s.post) # "-") THEN <<"-", "-">>
      ELSE LET fs == st.fs
               ex == Expected(st, c, MemOwn).st.fs                      \* may hold wildcards (owner of a followed link): compared with NodeEq
               po == IF s.same = "t" THEN fs ELSE AbsOf(s.post).fs
               Both == DOMAIN fs \cap DOMAIN po \cap DOMAIN ex
               extra == {x \in Both : NodeEq(ex[x], fs[x]) /\ ~NodeEq(ex[x], po[x])}
               wrong == {x \in Both : ~NodeEq(ex[x], fs[x]) /\ po[x] # fs[x] /\ ~NodeEq(ex[x], po[x])}
               missed == {x \in Both : ~NodeEq(ex[x], fs[x]) /\ po[x] = fs[x]}
               V == Visit(fs, ra.p, rec, fol)
           IN << IF \E x \in extra : fs[x].k = "link" THEN "link-altered"
                 ELSE IF extra # {} THEN "changed-unexpectedly"
                 ELSE IF wrong # {} THEN "wrong-value"
                 ELSE IF missed # {} THEN (IF missed \cap Visit(fs, ra.p, rec, FALSE) = {} THEN "missed-only-via-link" ELSE "missed")
                 ELSE "-",
                 IF \E x \in V : IsLink(fs, x) /\ IsLink(fs, fs[x].t) THEN "link-chain" ELSE "-" >>
\* Clauses with SEVERAL target letters ("ad:u+r", "ff:u+x") are outside the single-letter reading of ChmodSym!WellFormed, but the
\* crate's own unit test uses them (chmod.rs, test_chmod_symbolic, "multiple targets"): the documentation does not settle them,
\* so such expressions are not judged here (class skip) instead of being reported as accepted-malformed.
SeveralTargetLetters(c) == c.op = "chmod_b" /\ LET co == ChmodOpts(c) IN
   SymUsed(co) /\ \E i \in 1..Len(CS!Clauses(co.sym)) : LeadN(CS!Clauses(co.sym)[i]) >= 2
JudgeStepP(pre, s) == IF SeveralTargetLetters(s.c) THEN << <<"skip", "several-target-letters">> >> ELSE
   LET j == JudgeStep(pre, s) IN
   IF j[1][1] = "BAD" /\ s.c.op \in {"chmod_b", "chmod"} THEN << j[1] \o SymClass(pre, s.c) \o DiffClass(pre, s) >>
   ELSE IF j[1][1] = "BAD" /\ s.c.op \in {"chown_b", "chown"} THEN << j[1] \o <<"-", "-", "-">> \o DiffClass(pre, s) >>
   ELSE j
RECURSIVE TallyStepsP(_, _, _, _, _)
TallyStepsP(tally, pre, steps, i, g) == IF i > Len(steps) THEN tally
   ELSE TallyStepsP(UpdAll(tally, JudgeStepP(pre, steps[i]), g * 1000 + i), pre, steps, i + 1, g)
TallyGroupP(tally, r, g) == LET v == RepViolation(r.pre) IN
   IF v # "-" THEN Upd(tally, <<"skip", "pre-state-illformed", v>>, g * 1000)
   ELSE TallyStepsP(tally, AbsOf(r.pre), r.steps, 1, g)
NextP == /\ l <= Len(Recs)
         /\ TLCSet(1, TallyGroupP(TLCGet(1), Recs[l], l))
         /\ TLCSet(2, TLCGet(2) + Len(Recs[l].steps))
         /\ l' = l + 1
SpecP == Init /\ [][NextP]_l
=============================================================================
