------------------------------- MODULE Trace_Vfs -------------------------------
(* Validator of implementation transitions of the in-memory backend against the reference filesystem
   (C01, C03, C06, C09, C10, C11, C13 and the spelling half of C05): group records (one pre-state, many
   calls) and chain records (histories).  The judging operators live in VfsJudge. *)
EXTENDS VfsJudge
Recs == ndJsonDeserialize(IOEnv.TRACE)

\* tally update remembering group index * 1000 + step index of the first example of each class
RECURSIVE TallySteps(_, _, _, _, _)
TallySteps(tally, pre, steps, i, g) == IF i > Len(steps) THEN tally
   ELSE TallySteps(UpdAll(tally, JudgeStep(pre, steps[i]), g * 1000 + i), pre, steps, i + 1, g)
TallyGroup(tally, r, g) == LET v == RepViolation(r.pre) IN
   IF v # "-" THEN Upd(tally, <<"skip", "pre-state-illformed", v>>, g * 1000)
   ELSE TallySteps(tally, AbsOf(r.pre), r.steps, 1, g)

\* chain records (histories): [k |-> "h", init |-> REP, steps |-> ...]: the pre-state of a step is the post-state of the previous one
RECURSIVE TallyChain(_, _, _, _, _)
TallyChain(tally, rep, steps, i, g) == IF i > Len(steps) THEN tally ELSE
   LET s == steps[i]
       v == RepViolation(rep)
       t1 == IF v # "-" THEN Upd(tally, <<"skip", "pre-state-illformed", v>>, g * 1000 + i)
             ELSE UpdAll(tally, JudgeStep(AbsOf(rep), s), g * 1000 + i)
   IN TallyChain(t1, IF s.same = "t" THEN rep ELSE s.post, steps, i + 1, g)
TallyRec(tally, r, g) == IF r.k = "h" THEN TallyChain(tally, r.init, r.steps, 1, g) ELSE TallyGroup(tally, r, g)

VARIABLES l
Init == l = 1 /\ TLCSet(1, <<>>) /\ TLCSet(2, 0)
Next == /\ l <= Len(Recs)
        /\ TLCSet(1, TallyRec(TLCGet(1), Recs[l], l))
        /\ TLCSet(2, TLCGet(2) + Len(Recs[l].steps))
        /\ l' = l + 1
Done == (l = Len(Recs) + 1) => JsonSerialize(IOEnv.OUT, [checked |-> TLCGet(2), groups |-> Len(Recs), classes |-> TLCGet(1)])
Spec == Init /\ [][Next]_l
=============================================================================
