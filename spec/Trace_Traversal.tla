------------------------------- MODULE Trace_Traversal -------------------------------
(* Record validator of C08 (driver: harness/src/bin/traverse.rs).

   k = "t"  one (tree, root, options) with the sequences yielded by the REAL iterator under the descriptor caps
            {1, 2, 50} on Memfs and on Stdfs (distinct sequences stored once in `seqs`, `runs` says who produced which).
            A sequence is accepted iff ValidOrder holds (fast path: it equals Expected, which is one admissible
            order); when a sort is set and no two siblings tie, all six runs must have produced the same sequence.
   k = "ls" one tree with exists / is_dir / is_file / is_symlink of every path and the six listing helpers on
            every path, on both backends: helper = its definition (children / descendants filtered by kind,
            absolute, distinct, sorted by name, the argument excluded, failing on a non-directory), in agreement
            with the logged predicates, identical on both backends.

   BAD classes (finding signatures)
     <<"BAD","trav", backend(s), failure, contents_first|-, filter, follow|-, min>0|-, sorted|unsorted, links|plain, dangling|-, chain|->>
         failure: "SET: rejected entry yielded", "SET: foreign entry yielded", "ERR-ITEM: <kind>", "DUP", "MISSING",
                  "NO-LOOP-ERROR", "ORDER", "hang", "panic", "entries: <kind>", "caps-differ", "backends-differ"
     <<"BAD","list", backend, helper, failure, kind of the argument, links|plain, dangling|-, chain|->>
     <<"BAD","pred", backend, predicate, kind of the path, ...tree flags>> *)
EXTENDS Traversal, Tally, Json, IOUtils, Integers

Recs == ndJsonDeserialize(IOEnv.TRACE)

Idx(s) == 1..Len(s)
TreeOf(t) == [q \in {t[i].p : i \in Idx(t)} |-> LET n == CHOOSE x \in {t[i] : i \in Idx(t)} : x.p = q IN [k |-> n.k, t |-> n.t, tk |-> n.tk]]
RankOf(rk) == [n \in {rk[i].n : i \in Idx(rk)} |-> (CHOOSE x \in {rk[i] : i \in Idx(rk)} : x.n = n).r]
OptsOf(r) == [filt |-> r.o.filt, follow |-> r.o.follow = "t", min |-> r.o.min, max |-> r.o.max, ord |-> r.o.ord,
              cf |-> r.o.cf = "t", sort |-> r.o.sort, rk |-> RankOf(r.rk)]
Flag(b, s) == IF b THEN s ELSE "-"
TreeFlags(fs) == LET L == {q \in DOMAIN fs : fs[q].k = "link"} IN
   << IF L = {} THEN "plain" ELSE "links",
      Flag(\E q \in L : fs[q].tk = "none", "dangling"),
      Flag(\E q \in L : fs[q].t \in L, "chain") >>
OptFlags(o) == << Flag(o.cf, "contents_first"), o.filt, Flag(o.follow, "follow"), Flag(o.min > 0, "min>0"), IF o.sort = "none" THEN "unsorted" ELSE "sorted" >>

(* ---------------------------------- traversals ---------------------------------- *)
CountIn(bag, x) == IF x \in DOMAIN bag THEN bag[x] ELSE 0
MaxAssignments == 5040
\* failure kinds of one yielded sequence s (all items) against the normalised options o
SeqKinds(s, fs, root, o) ==
  LET V  == Visits(fs, root, o)
      E  == Emitting(V)
      be == BagOfVisits(E)
      bs == BagOfSeq(s)
      extra    == {x \in DOMAIN bs : CountIn(be, x) = 0}
      errs     == {x \in extra : x.e # ""}
      rejected == {x \in extra : x.e = "" /\ ~PassLab(x, o)}
      foreign  == (extra \ errs) \ rejected
      dup      == {x \in DOMAIN bs : CountIn(be, x) > 0 /\ bs[x] > be[x]}
      missing  == {x \in DOMAIN be : CountIn(bs, x) < be[x]}
      missLoop == {x \in missing : x.e # ""}
  IN IF bs = be
     THEN (IF AssignmentCount(E) > MaxAssignments THEN << "skip: ambiguous" >>
           ELSE IF \E pos \in Assignments(s, E) : OrderOK(pos, V, o) THEN <<>> ELSE << "ORDER" >>)
     ELSE (IF rejected # {} THEN << "SET: rejected entry yielded" >> ELSE <<>>)
       \o (IF foreign # {} THEN << "SET: foreign entry yielded" >> ELSE <<>>)
       \o (IF errs # {} THEN << "ERR-ITEM: " \o (CHOOSE x \in errs : TRUE).e >> ELSE <<>>)
       \o (IF dup # {} THEN << "DUP" >> ELSE <<>>)
       \o (IF missing \ missLoop # {} THEN << "MISSING" >> ELSE <<>>)
       \o (IF missLoop # {} THEN << "NO-LOOP-ERROR" >> ELSE <<>>)
\* With follow, a link whose target is itself a link (a chain) is not settled by the documentation: Entry::follow swaps
\* one level only, Stdfs then lists the final directory under the intermediate link's path, Memfs reports the
\* intermediate link as a directory without contents (DESIGN 3.2.1: stale / chained links "not settled").  A traversal
\* that meets such a link on Stdfs is only held to the spec when it happens to agree with it; otherwise it is counted as
\* unsettled (Memfs is still judged: it implements the one-level reading the spec writes down).
ChainHit(fs, root, o) == o.follow /\ \E v \in Visits(fs, root, o) : v.e.islink /\ v.e.isdir /\ v.e.rp \in DOMAIN fs /\ fs[v.e.rp].k = "link"
\* who produced sequence number i
Producers(r, i) == LET B == {r.runs[j].be : j \in {x \in Idx(r.runs) : r.runs[x].s = i}} IN
                   IF Cardinality(B) > 1 THEN "both" ELSE CHOOSE b \in B : TRUE
BadT(r, fs, o, who, what) == <<"BAD", "trav", who, what>> \o OptFlags(o) \o TreeFlags(fs)
JudgeSeq(r, fs, o, exp, i) == LET q == r.seqs[i]  who == Producers(r, i) IN
  IF q.o = "hang" THEN << BadT(r, fs, o, who, "hang") >>
  ELSE IF q.o = "panic" THEN << BadT(r, fs, o, who, "panic") >>
  ELSE IF q.o # "ok" THEN << BadT(r, fs, o, who, "entries: " \o q.o) >>
  ELSE IF q.s = exp THEN <<>>                                            \* Expected is one admissible order
  ELSE IF who = "stdfs" /\ ChainHit(fs, r.root, o) THEN << <<"unsettled", "follow through a link chain", who>> >>
  ELSE LET ks == SeqKinds(q.s, fs, r.root, o) IN
       IF ks = <<>> THEN (IF UniqueKeys(fs, r.root, o) THEN << <<"BAD", "spec", "valid-but-not-expected">> >> ELSE <<>>)
       ELSE IF ks = << "skip: ambiguous" >> THEN << <<"skip", "ambiguous assignments">> >>
       ELSE [j \in Idx(ks) |-> BadT(r, fs, o, who, ks[j])]
RECURSIVE JudgeSeqs(_, _, _, _, _)
JudgeSeqs(r, fs, o, exp, i) == IF i > Len(r.seqs) THEN <<>> ELSE JudgeSeq(r, fs, o, exp, i) \o JudgeSeqs(r, fs, o, exp, i + 1)
\* a fully sorted traversal is one sequence, whatever the cap and the backend
SeqsOf(r, be) == {r.runs[j].s : j \in {x \in Idx(r.runs) : r.runs[x].be = be}}
JudgeSame(r, fs, o) ==
  IF Len(r.seqs) = 1 \/ ~UniqueKeys(fs, r.root, o) \/ ChainHit(fs, r.root, o) THEN <<>>
  ELSE (IF Cardinality(SeqsOf(r, "memfs")) > 1 THEN << BadT(r, fs, o, "memfs", "caps-differ") >> ELSE <<>>)
    \o (IF Cardinality(SeqsOf(r, "stdfs")) > 1 THEN << BadT(r, fs, o, "stdfs", "caps-differ") >> ELSE <<>>)
    \o (IF SeqsOf(r, "memfs") # SeqsOf(r, "stdfs") THEN << BadT(r, fs, o, "both", "backends-differ") >> ELSE <<>>)
JudgeT(r) == LET fs == TreeOf(r.tree)  o == Norm(OptsOf(r))  exp == Expected(fs, r.root, o) IN
  JudgeSeqs(r, fs, o, exp, 1) \o JudgeSame(r, fs, o)
\* pre_op records: one combined event log per backend
EvLab(e) == [p |-> e.p, d |-> e.d, f |-> e.f, l |-> e.l, e |-> e.e]
JudgeTPSide(r, fs, o, b) ==
  LET ev == b.ev  who == b.be
      ys == [i \in Idx(SelectSeq(ev, LAMBDA e : e.t # "P")) |-> EvLab(SelectSeq(ev, LAMBDA e : e.t # "P")[i])]
      ps == SelectSeq(ev, LAMBDA e : e.t = "P")
      pbag == BagOfSeq([i \in Idx(ps) |-> ps[i].p])
      bad(what) == << <<"BAD", "preop", who, what, IF r.fail = "" THEN "ok-preop" ELSE "failing-preop">> \o OptFlags(o) \o TreeFlags(fs) >> IN
  IF b.o = "hang" \/ b.o = "panic" THEN bad(b.o)
  ELSE IF b.o # "ok" THEN bad("entries: " \o b.o)
  ELSE IF who = "stdfs" /\ ChainHit(fs, r.root, o) THEN << <<"unsettled", "follow through a link chain", who>> >>
  ELSE IF r.fail = "" THEN
       (IF pbag # PreOpBag(fs, r.root, o) THEN bad("not-once-per-listed-directory")
        ELSE IF ~o.follow /\ ~PreOpFirst(ev) THEN bad("called-after-something-below-the-directory")
        ELSE LET ks == SeqKinds(ys, fs, r.root, o) IN
             IF ks = <<>> \/ ks = << "skip: ambiguous" >> THEN <<>> ELSE bad("yields-change-with-a-preop: " \o ks[1]))
  ELSE IF o.follow THEN << <<"skip", "failing pre_op with follow">> >>
  ELSE (IF ~PreOpFailStops(ev, r.fail) THEN bad("failure-not-reported-or-directory-still-listed")
        ELSE IF ~PreOpFirst(ev) THEN bad("called-after-something-below-the-directory")
        ELSE LET be == BagOfVisits(Emitting(Visits(fs, r.root, o)))  bs == BagOfSeq(SelectSeq(ys, LAMBDA x : x.e = "")) IN
             IF \E x \in DOMAIN bs : CountIn(be, x) < bs[x] THEN bad("foreign-or-duplicate-yield") ELSE <<>>)
JudgeTP(r) == LET fs == TreeOf(r.tree)  o == Norm(OptsOf(r)) IN JudgeTPSide(r, fs, o, r.sides[1]) \o JudgeTPSide(r, fs, o, r.sides[2])
NTT(r) == IF \E i \in Idx(r.seqs) : Len(r.seqs[i].s) >= 2 THEN "nt" ELSE "tr"

(* ---------------------------------- listing helpers and predicates ---------------------------------- *)
KindOf(fs, p) == IF p \notin DOMAIN fs THEN "missing" ELSE IF fs[p].k = "link" THEN "link-" \o fs[p].tk ELSE fs[p].k
PredOK(fs, q) == << <<"exists", q.exists = TF(q.p \in DOMAIN fs)>>,
                    <<"is_dir", q.is_dir = TF(q.p \in DOMAIN fs /\ fs[q.p].k = "dir")>>,
                    <<"is_file", q.is_file = TF(q.p \in DOMAIN fs /\ fs[q.p].k = "file")>>,
                    <<"is_symlink", q.is_symlink = TF(q.p \in DOMAIN fs /\ fs[q.p].k = "link")>> >>
PredBad(fs, b, q) == LET c == PredOK(fs, q)
                         RECURSIVE Go(_)
                         Go(j) == IF j > 4 THEN <<>> ELSE (IF c[j][2] THEN <<>> ELSE << <<"BAD", "pred", b.be, c[j][1], KindOf(fs, q.p)>> \o TreeFlags(fs) >>) \o Go(j + 1)
                     IN Go(1)
\* logged predicate of a path on this backend ("-" when the path was not probed)
Probe(b, p, f) == LET S == {b.q[i] : i \in {x \in Idx(b.q) : b.q[x].p = p}} IN
                  IF S = {} THEN "-" ELSE LET q == CHOOSE x \in S : TRUE IN
                  CASE f = "exists" -> q.exists [] f = "is_dir" -> q.is_dir [] f = "is_file" -> q.is_file [] OTHER -> q.is_symlink
ListKinds(fs, b, e) ==
  LET p == e.p  op == e.op  r == e.r
      isdir == p \in DOMAIN fs /\ fs[p].k = "dir"
  IN IF r.o = "panic" THEN << "panic" >>
     ELSE IF ~isdir THEN (IF r.o = "ok" THEN << "succeeds on a non-directory" >> ELSE <<>>)
     ELSE IF r.o # "ok" THEN << "fails: " \o r.o >>
     ELSE LET ps == r.v.ps  got == {ps[i] : i \in Idx(ps)}  want == Listing(fs, p, op)
              kindOK(x) == CASE op \in {"dirs", "all_dirs"} -> Probe(b, x, "is_dir") = "t" \/ Probe(b, x, "is_symlink") = "t"
                             [] op \in {"files", "all_files"} -> Probe(b, x, "is_file") = "t" \/ Probe(b, x, "is_symlink") = "t"
                             [] OTHER -> TRUE
              \* every real directory / file the predicates know of below the argument is listed
              complete == \A i \in Idx(b.q) : LET x == b.q[i].p IN
                             (x # p /\ IsPrefix(p, x) /\ (op \in {"all_paths", "all_dirs", "all_files"} \/ Len(x) = Len(p) + 1)) =>
                                CASE op \in {"dirs", "all_dirs"} -> (b.q[i].is_dir = "t" => x \in got)
                                  [] op \in {"files", "all_files"} -> (b.q[i].is_file = "t" => x \in got)
                                  [] OTHER -> (b.q[i].exists = "t" => x \in got)
          IN (IF got # want THEN << "wrong set" >> ELSE <<>>)
          \o (IF Len(ps) # Cardinality(got) THEN << "not distinct" >> ELSE <<>>)
          \o (IF r.v.canon # "t" THEN << "not absolute" >> ELSE <<>>)
          \o (IF r.v.sorted # "t" THEN << "not sorted" >> ELSE <<>>)
          \o (IF p \in got THEN << "includes the argument" >> ELSE <<>>)
          \o (IF \E x \in got : Probe(b, x, "exists") = "f" /\ Probe(b, x, "is_symlink") = "f" THEN << "lists a path that does not exist" >> ELSE <<>>)
          \o (IF \E x \in got : ~kindOK(x) THEN << "disagrees with is_dir/is_file" >> ELSE <<>>)
          \o (IF ~complete THEN << "misses an entry the predicates report" >> ELSE <<>>)
RECURSIVE JudgeLs(_, _, _), JudgeQ(_, _, _)
JudgeLs(fs, b, i) == IF i > Len(b.ls) THEN <<>> ELSE
  LET e == b.ls[i]  ks == ListKinds(fs, b, e) IN
  [j \in Idx(ks) |-> <<"BAD", "list", b.be, e.op, ks[j], KindOf(fs, e.p)>> \o TreeFlags(fs)] \o JudgeLs(fs, b, i + 1)
JudgeQ(fs, b, i) == IF i > Len(b.q) THEN <<>> ELSE PredBad(fs, b, b.q[i]) \o JudgeQ(fs, b, i + 1)
JudgeSide(fs, b) == IF b.built # "t" THEN << <<"BAD", "build", b.be>> \o TreeFlags(fs) >> ELSE JudgeQ(fs, b, 1) \o JudgeLs(fs, b, 1)
\* both backends return the same thing for the same call
RECURSIVE JudgeBoth(_, _, _, _)
JudgeBoth(fs, m, s, i) == IF i > Len(m.ls) THEN <<>> ELSE
  (IF m.ls[i].r.o = "ok" /\ s.ls[i].r.o = "ok" /\ m.ls[i].r.v.ps # s.ls[i].r.v.ps
   THEN << <<"BAD", "list", "both", m.ls[i].op, "backends-differ", KindOf(fs, m.ls[i].p)>> \o TreeFlags(fs) >>
   ELSE IF (m.ls[i].r.o = "ok") # (s.ls[i].r.o = "ok")
   THEN << <<"BAD", "list", "both", m.ls[i].op, "backends-differ (ok/err)", KindOf(fs, m.ls[i].p)>> \o TreeFlags(fs) >>
   ELSE <<>>) \o JudgeBoth(fs, m, s, i + 1)
JudgeL(r) == LET fs == TreeOf(r.tree) IN
  JudgeSide(fs, r.bes[1]) \o JudgeSide(fs, r.bes[2])
  \o (IF r.bes[1].built = "t" /\ r.bes[2].built = "t" THEN JudgeBoth(fs, r.bes[1], r.bes[2], 1) ELSE <<>>)

Judge(r) == IF r.k = "t" THEN JudgeT(r) ELSE IF r.k = "tp" THEN JudgeTP(r) ELSE JudgeL(r)
OkClass(r) == IF r.k = "t" THEN <<"ok", "t", NTT(r)>> ELSE IF r.k = "tp" THEN <<"ok", "tp:" \o (IF r.fail = "" THEN "ok-preop" ELSE "failing-preop"), IF \E i \in Idx(r.sides[1].ev) : r.sides[1].ev[i].t = "P" THEN "nt" ELSE "tr">> ELSE <<"ok", "ls", IF Len(r.tree) > 1 THEN "nt" ELSE "tr">>

VARIABLES l
Init == l = 1 /\ TLCSet(1, <<>>)
        /\ cfg = 0 /\ cur = 0 /\ stack = 0 /\ deferred = 0 /\ out = 0 /\ done = 0 /\ steps = 0     \* the machine is not run here
Next == /\ l <= Len(Recs)
        /\ LET j == Judge(Recs[l]) IN TLCSet(1, UpdAll(TLCGet(1), IF j = <<>> THEN << OkClass(Recs[l]) >> ELSE j, l))
        /\ l' = l + 1
        /\ UNCHANGED vars
Done == (l = Len(Recs) + 1) => JsonSerialize(IOEnv.OUT, [checked |-> Len(Recs), classes |-> TLCGet(1)])
Spec == Init /\ [][Next]_<<l, vars>>
=============================================================================
