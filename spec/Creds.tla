------------------------------- MODULE Creds -------------------------------
(* The privilege state of a process and rivia's `sys::user` functions over it (src/sys/user.rs: getuid/getgid/geteuid/getegid,
   is_root, getrids, setuid/seteuid/setgid/setegid, switchuser, sudo_down, sudo_up, drop_sudo).

   State: the six POSIX credentials of the process [ru, eu, su, rg, eg, sg] (real, effective, saved user and group id) and the
   two environment variables SUDO_UID / SUDO_GID, which rivia reads to find "the user behind sudo".  The kernel rules are the
   ones of credentials(7) / setresuid(2) / setuid(2) for a process started by real root with a full capability set and default
   securebits: the process is privileged for both the uid and the gid calls exactly while its EFFECTIVE uid is 0 (the effective
   capability set is cleared when euid leaves 0 and restored when it returns to 0 as long as one of the three uids is still 0).

   rivia's functions are written here from their rustdoc:
     sudo_down  "Switches back to the original user under the sudo mask - preserves the ability to raise sudo again"
     sudo_up    "Raise root privileges for user with root masked off from sudo_down - returns an error if not allowed"
     drop_sudo  "Switches back to the original user under the sudo mask with no way to go back"
     switchuser "drop the group first": setresgid, then setresuid - two system calls, NOT one atomic step: when the second
                fails after the first succeeded the group ids stay changed (modelled as it is: action SwitchUser is the
                composition, the partial outcome is a named result "Err-partial").
   A call is [op, a] with a = tuple of ids; the result is "ok" or "Err". *)
EXTENDS Naturals, Sequences, FiniteSets

Root == 0
Priv(c) == c.eu = Root

\* ---- kernel rules --------------------------------------------------------------------------------------------------------
SetResUid(c, r, e, s) ==
   IF Priv(c) \/ {r, e, s} \subseteq {c.ru, c.eu, c.su} THEN [ok |-> TRUE, c |-> [c EXCEPT !.ru = r, !.eu = e, !.su = s]]
   ELSE [ok |-> FALSE, c |-> c]
\* the gid calls are privileged by CAP_SETGID, which the process holds exactly while euid = 0
SetResGid(c, r, e, s) ==
   IF Priv(c) \/ {r, e, s} \subseteq {c.rg, c.eg, c.sg} THEN [ok |-> TRUE, c |-> [c EXCEPT !.rg = r, !.eg = e, !.sg = s]]
   ELSE [ok |-> FALSE, c |-> c]
SetUid(c, u) ==
   IF Priv(c) THEN [ok |-> TRUE, c |-> [c EXCEPT !.ru = u, !.eu = u, !.su = u]]
   ELSE IF u \in {c.ru, c.su} THEN [ok |-> TRUE, c |-> [c EXCEPT !.eu = u]]
   ELSE [ok |-> FALSE, c |-> c]
SetGid(c, g) ==
   IF Priv(c) THEN [ok |-> TRUE, c |-> [c EXCEPT !.rg = g, !.eg = g, !.sg = g]]
   ELSE IF g \in {c.rg, c.sg} THEN [ok |-> TRUE, c |-> [c EXCEPT !.eg = g]]
   ELSE [ok |-> FALSE, c |-> c]
\* seteuid(e) / setegid(e) are setresuid(-1, e, -1) / setresgid(-1, e, -1)
SetEUid(c, e) == IF Priv(c) \/ e \in {c.ru, c.eu, c.su} THEN [ok |-> TRUE, c |-> [c EXCEPT !.eu = e]] ELSE [ok |-> FALSE, c |-> c]
SetEGid(c, e) == IF Priv(c) \/ e \in {c.rg, c.eg, c.sg} THEN [ok |-> TRUE, c |-> [c EXCEPT !.eg = e]] ELSE [ok |-> FALSE, c |-> c]

\* ---- rivia --------------------------------------------------------------------------------------------------------------
\* sudo = [set |-> BOOLEAN, uid, gid]: set iff BOTH variables are present and both parse as u32 (C18's getrids law)
GetRids(sudo, u, g) == IF u = Root /\ sudo.set THEN <<sudo.uid, sudo.gid>> ELSE <<u, g>>
IsRoot(c) == c.ru = Root

SwitchUser(c, a) ==                                             \* a = <<ruid, euid, suid, rgid, egid, sgid>>
   LET g == SetResGid(c, a[4], a[5], a[6]) IN
   IF ~g.ok THEN [ok |-> FALSE, c |-> c, partial |-> FALSE]
   ELSE LET u == SetResUid(g.c, a[1], a[2], a[3]) IN
        IF u.ok THEN [ok |-> TRUE, c |-> u.c, partial |-> FALSE] ELSE [ok |-> FALSE, c |-> g.c, partial |-> g.c # c]
NoOp(c) == [ok |-> TRUE, c |-> c, partial |-> FALSE]
Plain(r) == [ok |-> r.ok, c |-> r.c, partial |-> FALSE]

SudoDown(c, sudo) == IF ~IsRoot(c) THEN NoOp(c)
                     ELSE LET r == GetRids(sudo, 0, 0) IN SwitchUser(c, <<r[1], r[1], 0, r[2], r[2], 0>>)
SudoUp(c) == IF IsRoot(c) THEN NoOp(c) ELSE SwitchUser(c, <<0, 0, 0, 0, 0, 0>>)
DropSudo(c, sudo) == IF ~IsRoot(c) THEN NoOp(c)
                     ELSE LET r == GetRids(sudo, 0, 0) IN SwitchUser(c, <<r[1], r[1], r[1], r[2], r[2], r[2]>>)

Step(c, sudo, call) ==
   CASE call.op = "sudo_down"  -> SudoDown(c, sudo)
     [] call.op = "sudo_up"    -> SudoUp(c)
     [] call.op = "drop_sudo"  -> DropSudo(c, sudo)
     [] call.op = "setuid"     -> Plain(SetUid(c, call.a[1]))
     [] call.op = "seteuid"    -> Plain(SetEUid(c, call.a[1]))
     [] call.op = "setgid"     -> Plain(SetGid(c, call.a[1]))
     [] call.op = "setegid"    -> Plain(SetEGid(c, call.a[1]))
     [] call.op = "switchuser" -> SwitchUser(c, call.a)
     [] OTHER                  -> NoOp(c)

\* ---- the user database: user::from_uid / current / name ("Get a user by user id", "real user ... behind sudo") ----------------
\* pw = the passwd table in file order, entries [uid, gid, name, home, shell]; the first entry with the uid wins
PwIdx(pw, uid) == {i \in 1..Len(pw) : pw[i].uid = uid}
PwFound(pw, uid) == PwIdx(pw, uid) # {}
PwGet(pw, uid) == pw[CHOOSE i \in PwIdx(pw, uid) : \A j \in PwIdx(pw, uid) : i <= j]
NoUser == "User::DoesNotExistById"
\* the user behind sudo is looked up as well (and must exist) exactly when getrids names another uid
FromUid(pw, sudo, uid) ==
   IF ~PwFound(pw, uid) THEN [o |-> NoUser]
   ELSE LET e == PwGet(pw, uid)  r == GetRids(sudo, e.uid, e.gid) IN
        IF r[1] # uid /\ ~PwFound(pw, r[1]) THEN [o |-> NoUser]
        ELSE LET real == IF r[1] # uid THEN PwGet(pw, r[1]) ELSE e IN
             [o |-> "ok", uid |-> e.uid, gid |-> e.gid, name |-> e.name, home |-> e.home, shell |-> e.shell, ruid |-> r[1], rgid |-> r[2],
              realname |-> real.name, realhome |-> real.home, realshell |-> real.shell, is_root |-> (e.uid = Root)]
Current(pw, sudo, c) == FromUid(pw, sudo, c.ru)

\* ---- what can still be reached: the set of uids the process can make effective again, now or later -----------------------
CanRegainRoot(c) == Root \in {c.ru, c.eu, c.su}
=============================================================================
