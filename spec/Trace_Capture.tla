------------------------------- MODULE Trace_Capture -------------------------------
(* Validator of real capture_panic runs against the PanicCapture machine: a sequential record ("c") is replayed token by
   token (Enter / Exit steps of the machine), the hook probes taken before, inside every capture and after must be what the
   machine's `hook` is at those points, and every capture must report its own closure's outcome; a parallel record ("cp")
   must satisfy ReportsOwnOutcome per thread and DefaultWhenIdle at the quiescent end. *)
EXTENDS Naturals, Sequences, FiniteSets, TLC, Tally, Json, IOUtils
Recs == ndJsonDeserialize(IOEnv.TRACE)

IsText(tok) == tok \in {"X:text", "X:string"}
Report(tok) == IF IsText(tok) THEN "Err:Core::PanicCapture" ELSE "Ok"
\* replay: M = [count, hook, res, inside]
RECURSIVE Replay(_, _, _)
Replay(prog, i, M) == IF i > Len(prog) THEN M ELSE
   IF prog[i] = "E" THEN Replay(prog, i + 1, [M EXCEPT !.count = @ + 1, !.hook = "silent", !.inside = Append(@, "silent")])
   ELSE LET c == IF M.count # 0 THEN M.count - 1 ELSE 0 IN
        Replay(prog, i + 1, [M EXCEPT !.count = c, !.hook = IF c = 0 THEN "default" ELSE @, !.res = Append(@, Report(prog[i]))])
Exits(prog) == SelectSeq(prog, LAMBDA x : x # "E")
JudgeC(r) == LET M == Replay(r.prog, 1, [count |-> 0, hook |-> "default", res |-> <<>>, inside |-> <<>>]) IN
   IF r.before # "default" THEN << <<"BAD", "capture", "hook-not-default-before">> >>
   ELSE IF r.inside # M.inside THEN << <<"BAD", "capture", "hook-not-silent-inside-a-capture">> >>
   ELSE IF r.res # M.res THEN << <<"BAD", "capture", "capture-reports-wrong-outcome">> >>
   ELSE IF r.after # M.hook \/ M.count # 0 THEN << <<"BAD", "capture", "default-hook-not-restored-when-idle">> >>
   ELSE << <<"ok", "capture", IF Len(r.prog) > 2 THEN "nt" ELSE "tr">> >>
JudgeP(r) ==
   IF \E t \in 1..Len(r.progs) : r.res[t] # [i \in 1..Len(Exits(r.progs[t])) |-> Report(Exits(r.progs[t])[i])]
   THEN << <<"BAD", "capture-parallel", "capture-reports-wrong-outcome">> >>
   ELSE IF r.after # "default" THEN << <<"BAD", "capture-parallel", "default-hook-not-restored-when-idle">> >>
   ELSE << <<"ok", "capture-parallel", "nt">> >>
Judge(r) == IF r.k = "c" THEN JudgeC(r) ELSE JudgeP(r)
VARIABLES l
Init == l = 1 /\ TLCSet(1, <<>>)
Next == /\ l <= Len(Recs) /\ TLCSet(1, UpdAll(TLCGet(1), Judge(Recs[l]), l)) /\ l' = l + 1
Done == (l = Len(Recs) + 1) => JsonSerialize(IOEnv.OUT, [checked |-> Len(Recs), classes |-> TLCGet(1)])
Spec == Init /\ [][Next]_l
=============================================================================
