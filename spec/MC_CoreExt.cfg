CONSTANTS
  MaxLen = 8
  MaxIdx = 10
  MaxS = 4
  MaxT = 2
  MaxTw = 4
  Alphabet = {"a", "F", "0", "#", " "}
SPECIFICATION Spec
INVARIANTS TwNothingLost TwTakenGood TwFinal SliceContiguous SliceRange SliceClamp SliceNegative SliceEmpty SlicePoints SliceIsTwoDrops DropSplit DropCompose DropIsSlice TrimInverse TrimIdentity TrimOnce SizeLaw ToBoolLaw
PROPERTY TwProgress
CHECK_DEADLOCK TRUE
