#!/usr/bin/env python3
"""Confirm a seeded breaking change and run checks against it, in isolation from /repo:
     tools/evalseed.py <src-dir> <n> <name> <PROP> <CHECK> [<CHECK> ...]
   <src-dir>/m<n>.patch, m<n>_demo.rs, m<n>.md come from an independent agent.  Steps (all in the scratch worktree
   /tmp/mut/eval of /repo and the copy /tmp/vv of /verif whose harness is bound to that worktree):
     (a) cargo test --offline --lib with the change: 224 passed;  (b) demo fails with the change;  (c) demo passes without;
     then every listed check (quick tier) with the change applied.  Result -> /verif/seeded/<name>/ (patch.diff, demo.rs, meta.json)."""
import json, os, re, shutil, subprocess, sys, time

SLOT = os.environ.get("EVALSLOT", "")          # independent evaluation slots can run side by side
EVAL = "/tmp/mut/eval" + SLOT
VV = "/tmp/vv" + SLOT


def sh(cmd, cwd=None, timeout=3600):
    p = subprocess.run(cmd, shell=True, cwd=cwd, stdout=subprocess.PIPE, stderr=subprocess.STDOUT, text=True, timeout=timeout)
    return p.returncode, p.stdout


def libtests(cwd):
    rc, out = sh("cargo test --offline --lib 2>&1 | grep -E '^test result'", cwd)
    m = re.search(r"(\d+) passed; (\d+) failed", out)
    return (int(m.group(1)), int(m.group(2))) if m else (0, -1)


def demo(cwd, src):
    os.makedirs(os.path.join(cwd, "tests"), exist_ok=True)
    shutil.copy(src, os.path.join(cwd, "tests", "seed_demo.rs"))
    rc, out = sh("cargo test --offline --test seed_demo 2>&1 | tail -15", cwd)
    os.remove(os.path.join(cwd, "tests", "seed_demo.rs"))
    ok = "test result: ok" in out
    return ok, out[-600:]


def main():
    src, n, name, prop = sys.argv[1:5]
    checks = sys.argv[5:]
    patch = os.path.join(src, "m%s.patch" % n)
    dem = os.path.join(src, "m%s_demo.rs" % n)
    note = open(os.path.join(src, "m%s.md" % n)).read() if os.path.exists(os.path.join(src, "m%s.md" % n)) else ""
    sh("git checkout -- . && git clean -fdq tests", EVAL)
    head = sh("git rev-parse --short HEAD", EVAL)[1].strip()
    repo_head = sh("git -C /repo rev-parse --short HEAD")[1].strip()
    if head != repo_head:
        sh("git checkout -q --detach %s" % repo_head, EVAL)
    c_ok, c_out = demo(EVAL, dem)                                   # (c) demo passes without the change
    rc, out = sh("git apply %s" % patch, EVAL)
    if rc != 0:
        print("patch does not apply:", out)
        sys.exit(2)
    a = libtests(EVAL)                                              # (a)
    b_ok, b_out = demo(EVAL, dem)                                   # (b) demo fails with the change
    confirmed = a[0] == 224 and a[1] == 1 and (not b_ok) and c_ok
    print("confirm: lib tests %s, demo with change %s, demo without %s -> %s" % (a, "passes" if b_ok else "FAILS", "passes" if c_ok else "FAILS", "CONFIRMED" if confirmed else "NOT CONFIRMED"))
    # sync the current /verif into the evaluation copy (keeps its own harness binding and target dir)
    sh("rsync -a --delete --exclude harness/target --exclude harness/Cargo.toml --exclude .git --exclude replays --exclude seeded /verif/ %s/" % VV)
    results = {}
    bpath = "/tmp/mut/baseline%s.json" % SLOT
    base = json.load(open(bpath)) if os.path.exists(bpath) else {}
    vhash = sh("cd /verif && git rev-parse --short HEAD")[1].strip()

    def run(c):
        rc, out = sh("./check %s --tier quick 2>&1 | grep -E 'VIOLATION|class:|KNOWN-FINDING|TOOL-ERROR|held' | head -60" % c, VV)
        rc2 = 1 if "VIOLATION" in out else (2 if "TOOL-ERROR" in out else 0)
        viol = [re.sub(r"\s+\(x\d+\)$", "", v) for v in re.findall(r"class: (.*)", out)]
        return rc2, viol, out

    for c in checks:
        key = "%s@%s@%s" % (c, repo_head, vhash)
        prev = [k for k in base if k.startswith("%s@%s@" % (c, repo_head)) and base[k] == []]
        if key not in base and prev:            # the unchanged tree was clean under an earlier version of the same check
            base[key] = []
        if key not in base:                     # violation classes of the unchanged tree (ignored below)
            sh("git checkout -- .", EVAL)
            base[key] = run(c)[1]
            json.dump(base, open(bpath, "w"))
            sh("git apply %s" % patch, EVAL)
        t = time.time()
        rc2, viol, out = run(c)
        new = sorted(set(v for v in viol if v not in base[key]))
        results[c] = dict(exit=rc2, wall_s=round(time.time() - t), new_violation_classes=new[:8], baseline_classes_ignored=len(set(viol)) - len(new), tail=out[-500:] if rc2 == 2 else "")
        print("check %s -> exit %d, new classes: %s" % (c, rc2, new[:3]))
    sh("git checkout -- . && git clean -fdq tests", EVAL)
    dst = os.path.join("/verif/seeded", name)
    os.makedirs(dst, exist_ok=True)
    shutil.copy(patch, os.path.join(dst, "patch.diff"))
    shutil.copy(dem, os.path.join(dst, "demo.rs"))
    meta = dict(id=name, property=prop, source="independent sub-agent, own worktree of /repo at %s, given only the property text" % repo_head,
                what_it_needs=note.strip()[:1500], confirmed=dict(lib_tests_with_change="%d passed / %d failed (test_user_ids)" % a, demo_with_change="fails" if not b_ok else "passes",
                demo_without_change="passes" if c_ok else "fails", ok=confirmed),
                ran="tools/evalseed.py: patch applied in scratch worktree /tmp/mut/eval (HEAD %s); cargo test --offline --lib; cargo test --offline --test seed_demo with and without the patch; "
                    "then './check <ID> --tier quick' from a copy of /verif whose harness depends on that worktree" % repo_head,
                checks=results, caught_by=[c for c, r in results.items() if r["exit"] == 1 and r["new_violation_classes"]])
    json.dump(meta, open(os.path.join(dst, "meta.json"), "w"), indent=1)
    print("->", dst, "caught by", meta["caught_by"])


main()
