#!/usr/bin/env python3
"""Pretty-print Trace_Vfs replay files: pre-state, the BAD step(s) of the group, post-state."""
import json, sys, glob
def st(rep):
    out=[]
    fd={ '/'+'/'.join(f['p']): bytes(f['d']) for f in rep['f']}
    for e in rep['e']:
        p='/'+'/'.join(e['p'])
        s="%s[%s %o %d:%d" % (p, e['k'], e['mode'], e['uid'], e['gid'])
        if e['k'].startswith('l'): s+=" ->/"+'/'.join(e['alt'])+" rel="+''.join(e['rel'])
        if p in fd: s+=" data=%r"%fd[p]
        if e['ch']: s+=" ch=%s"%','.join(e['ch'])
        out.append(s+"]")
    extra=[p for p in fd if p not in ['/'+'/'.join(e['p']) for e in rep['e']]]
    return "cwd=/%s  %s %s" % ('/'.join(rep['cwd']), ' '.join(out), ("DANGLING-DATA:%s"%extra) if extra else "")
def call(c):
    return "%s(%s%s%s)" % (c['op'], ''.join(c['a']), (', '+''.join(c['b'])) if c['b'] else '', (', d=%r'%bytes(c['d'])) if c['d'] else '') + ((" m=%o n=%o"%(c['m'],c['n'])) if c['m'] or c['n'] else '') + ((" f=%s s=%s"%(''.join(c['f']),''.join(c['s']))) if c['f'] else '')
for f in sys.argv[1:]:
    for g in glob.glob(f):
        r=json.load(open(g))
        print("==", g, r['cls'], "x%d"%r['count'])
        rec=r['record']
        if rec and rec.get('k')=='p':
            print("  tree:", st(rec['tree']))
            for s_ in rec['steps']:
                print("  call:", call(s_['c']))
                for side in ('mem','std'):
                    x=s_[side]
                    print("   %s -> %s %s" % (side, x['r']['o'], json.dumps(x['r']['v'])[:300] if x['r']['o']=='ok' else ''))
                    if x['same']=='f': print("       post:", st(x['post']))
            continue
        if not rec or 'pre' not in rec: print(rec); continue
        print("  pre :", st(rec['pre']))
        for s in rec['steps']:
            print("  call:", call(s['c']), "->", s['r']['o'], s['r']['v'] if s['r']['o']=='ok' else '')
            if s['same']=='f': print("  post:", st(s['post']))
