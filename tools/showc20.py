#!/usr/bin/env python3
"""Pretty-print C20 replay files (macro invocations): tools/showc20.py replays/C20-*.json"""
import json, sys


def tree(rep):
    data = {tuple(f["p"]): bytes(f["d"]) for f in rep["f"]}
    out = []
    for e in rep["e"]:
        p = "/" + "/".join(e["p"])
        k = e["k"]
        if k.startswith("l"):
            out.append("%s -> /%s (%s)" % (p, "/".join(e["alt"]), {"ld": "dir", "lf": "file"}.get(k, "none")))
        elif k == "d":
            out.append("%s/ %o" % (p.rstrip("/"), e["mode"] & 0o7777))
        else:
            out.append("%s = %r" % (p, data.get(tuple(e["p"]), b"")))
    return "  ".join(out)


def main():
    for path in sys.argv[1:]:
        rp = json.load(open(path))
        rec = rp["record"]
        print("== %s %s x%s" % (path, rp.get("cls"), rp.get("count")))
        print("  backend:", rec.get("be"))
        print("  pre :", tree(rec["pre"]))
        for s in rec["steps"]:
            c = s["c"]
            args = [repr("".join(c["a"]))]
            if c["b"] or c["op"] in ("readlink", "readlink_abs", "copyfile", "symlink"):
                args.append(repr("".join(c["b"])))
            if c["op"] in ("read_all", "write_all"):
                args.append(repr(bytes(c["d"])))
            if c["op"] == "mkdir_m":
                args.append("0o%o" % c["m"])
            print("  call: assert_vfs_%s!(vfs, %s)" % (c["op"], ", ".join(args)))
            print("  -> %s%s" % ("PANIC " + repr(s["msg"]) if s["pn"] == "t" else "passes",
                                 "" if s["pn"] != "t" else "   [names macro: %s, names path: %s, names 2nd path: %s]" % (s["mn"], s["mp"], s["mq"])))
            print("  post:", "unchanged" if s["same"] == "t" else tree(s["post"]))


if __name__ == "__main__":
    main()
