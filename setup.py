"""./check --setup : build the harness offline, parse every TLA+ module."""
import glob, os, sys
import vlib


def selftest():
    """Demonstrate the binding: a corrupted field and a dropped event of a real recorded history must be rejected."""
    import json
    d = vlib.sub("selftest")
    pe = os.path.join(d, "penv.json")
    json.dump(dict(vars=[dict(n=list("HOME"), v=list("/h"))]), open(pe, "w"))
    files = vlib.run_workers("hist", ["--mode", "data", "--n", "1", "--len", "25", "--seed", "3"], 1, d, "st", env={"HOME": "/h"}, clean_env=True)
    # (the data mode starts with short directed chains: take the record with the most state changes - the seeded history)
    def changes(r):
        return [i for i, s in enumerate(r.get("steps", [])) if s.get("same") == "f" and s.get("post", {}).get("f")]
    recs = [json.loads(l) for l in open(files[0]) if l.strip()]
    rec = max(recs, key=lambda r: len(changes(r)))
    changing = changes(rec)
    if len(changing) < 3:
        return "selftest history has too few state changes"

    def judge(r, name):
        f = os.path.join(d, name + ".w00.ndjson")
        with open(f, "w") as fh:
            fh.write(json.dumps(r) + "\n")
        _, classes = vlib.tlc_validate("Trace_Vfs", [f], extra_env=dict(PENV=pe))
        return [c for c in classes if c["c"][0] == "BAD"]

    if judge(rec, "clean"):
        return None          # the unchanged tree already has mismatches here: the property checks report them, not the selftest
    r1 = json.loads(json.dumps(rec))
    i = changing[1]
    r1["steps"][i]["post"]["f"][0]["d"] = r1["steps"][i]["post"]["f"][0]["d"] + [33]      # corrupt one field: an extra byte in a file
    if not judge(r1, "corrupt"):
        return "a corrupted post-state was accepted"
    r2 = json.loads(json.dumps(rec))
    del r2["steps"][changing[0]]                                                         # drop one event
    if not judge(r2, "drop"):
        return "a history with a dropped event was accepted"
    return None


def main():
    bins = sorted(os.path.basename(p)[:-3] for p in glob.glob(os.path.join(vlib.HARNESS, "src", "bin", "*.rs")))
    try:
        vlib.build(*bins)
    except vlib.ToolError as e:
        print(e, file=sys.stderr)
        return 2
    bad = 0
    for p in sorted(glob.glob(os.path.join(vlib.SPEC, "*.tla"))):
        m = os.path.basename(p)[:-4]
        ok, out = vlib.sany(m)
        if not ok:
            bad += 1
            print("SANY failed for %s:\n%s" % (m, out[-1500:]), file=sys.stderr)
    st = selftest()
    if st:
        print("setup: binding selftest FAILED: %s" % st, file=sys.stderr)
        return 2
    print("setup: %d binaries built, %d modules parsed, %d failures" % (len(bins), len(glob.glob(os.path.join(vlib.SPEC, "*.tla"))), bad))
    return 2 if bad else 0
