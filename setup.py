"""./check --setup : build the harness offline, parse every TLA+ module."""
import glob, os, sys
import vlib


def main():
    bins = sorted(os.path.basename(p)[:-3] for p in glob.glob(os.path.join(vlib.HARNESS, "src", "bin", "*.rs")))
    try:
        vlib.build(*bins)
    except vlib.ToolError as e:
        print(e, file=sys.stderr)
        return 2
    bad = 0
    for p in sorted(glob.glob(os.path.join(vlib.SPEC, "*.tla"))):
        m = os.path.basename(p)[:-4]
        ok, out = vlib.sany(m)
        if not ok:
            bad += 1
            print("SANY failed for %s:\n%s" % (m, out[-1500:]), file=sys.stderr)
    print("setup: %d binaries built, %d modules parsed, %d failures" % (len(bins), len(glob.glob(os.path.join(vlib.SPEC, "*.tla"))), bad))
    return 2 if bad else 0
